#!/bin/bash
# offline setup: nothing to download; warm the Verus start-up cache
cd "$(dirname "$0")"
mkdir -p build cache evidence/replay
cat > build/_warm.rs <<'RS'
use vstd::prelude::*;
verus! { fn f(x: u8) -> (r: u8) ensures r == x { x } }
fn main() {}
RS
verus build/_warm.rs >/dev/null 2>&1 || true
exit 0
