#!/bin/bash
# Offline setup: nothing is downloaded. Warms the verifier start-up cache and the Kani / replay build
# directories (under /verif/cache) by running every check once; results are cached by content hash, so a
# later check on a changed /repo only re-verifies what changed. Failures here are not fatal: each check
# rebuilds what it needs by itself.
cd "$(dirname "$0")"
mkdir -p build cache evidence/replay
cat > build/_warm.rs <<'RS'
use vstd::prelude::*;
verus! { fn f(x: u8) -> (r: u8) ensures r == x { x } }
fn main() {}
RS
verus build/_warm.rs >/dev/null 2>&1 || true
for p in $(python3 -c "import sys; sys.path.insert(0,'.'); from vlib.props import PROPS; print(' '.join(sorted(PROPS)))"); do
  VERIF_EVIDENCE_DIR=/verif/cache/setup-evidence ./check $p --tier quick >/dev/null 2>&1 || true
done
rm -rf /verif/cache/setup-evidence
exit 0
