// append-to: new module at end of fe2o3-amqp/src/transaction/session.rs
// run: hunt_c18_f4 --features acceptor,transaction
#[cfg(test)]
#[allow(unused_imports, dead_code)]
mod hunt_c18_f4 {
    use std::time::Duration;

    use fe2o3_amqp_types::primitives::Value;
    use tokio::time::timeout;

    use crate::{
        acceptor::{
            ConnectionAcceptor, LinkAcceptor, LinkEndpoint, ListenerConnectionHandle,
            ListenerSessionHandle, SessionAcceptor,
        },
        connection::{Connection, ConnectionHandle},
        session::SessionHandle,
        transaction::{
            coordinator::ControlLinkAcceptor, Controller, Transaction, TransactionDischarge,
            TransactionPosting,
        },
        Receiver, Sender, Session,
    };

    const T: Duration = Duration::from_secs(5);

    async fn setup() -> (
        ConnectionHandle<()>,
        SessionHandle<()>,
        ListenerConnectionHandle,
        ListenerSessionHandle,
    ) {
        let (client_io, server_io) = tokio::io::duplex(64 * 1024);
        let acceptor = ConnectionAcceptor::builder()
            .container_id("hunt-listener")
            .build();
        let connection_task = tokio::spawn(async move { acceptor.accept(server_io).await });
        let mut client_connection = Connection::builder()
            .container_id("hunt-client")
            .open_with_stream(client_io)
            .await
            .unwrap();
        let mut server_connection = connection_task.await.unwrap().unwrap();
        let session_acceptor = SessionAcceptor::builder()
            .control_link_acceptor(ControlLinkAcceptor::default())
            .build();
        let (session_result, begin_result) = tokio::join!(
            session_acceptor.accept(&mut server_connection),
            Session::begin(&mut client_connection),
        );
        (
            client_connection,
            begin_result.unwrap(),
            server_connection,
            session_result.unwrap(),
        )
    }

    /// Attach a client sender and accept the matching listener receiver
    async fn attach_pair(
        client_session: &mut SessionHandle<()>,
        listener_session: &mut ListenerSessionHandle,
        name: &str,
        addr: &str,
    ) -> (Sender, Receiver) {
        let link_acceptor = LinkAcceptor::new();
        let (snd, rcv) = tokio::join!(
            Sender::attach(client_session, name.to_string(), addr.to_string()),
            link_acceptor.accept(listener_session),
        );
        let rcv = match rcv.unwrap() {
            LinkEndpoint::Receiver(r) => r,
            LinkEndpoint::Sender(_) => panic!("expected receiver"),
        };
        (snd.unwrap(), rcv)
    }

    /// Finding 4: more concurrent transactions on one control link than the session control queue
    /// holds; the control link is then closed without discharging any of them.
    #[tokio::test]
    async fn control_link_close_with_many_txns_leaves_txns_live() {
        use crate::transaction::TransactionBase;
        const N: usize = 1280; // session control queue holds 128
        for round in 0..4 {
            let (_cc, mut cs, _lc, mut ls) = setup().await;
            let (mut sender, mut receiver) = attach_pair(&mut cs, &mut ls, "l1", "q1").await;
            let controller = Controller::attach(&mut cs, "ctrl").await.unwrap();

            let mut ids = Vec::new();
            for _ in 0..N {
                let txn = Transaction::declare(&controller, None).await.unwrap();
                ids.push(txn.txn_id().clone());
                std::mem::forget(txn); // no discharge at all
            }
            // all ids are fresh
            let uniq: std::collections::HashSet<_> = ids.iter().cloned().collect();
            assert_eq!(uniq.len(), N);

            // The control link goes away without a discharge
            timeout(T, controller.close()).await.unwrap().unwrap();
            tokio::time::sleep(Duration::from_millis(200)).await;

            // Every one of those transactions is finished now: a post must be refused
            let sendable = crate::Sendable::builder().message("zombie").build();
            let fut = crate::transaction::post_inner(&ids[0], &mut sender, sendable, false).await;
            // A refusal ends the session with amqp:transaction:unknown-id
            let outcome = match fut {
                Ok(fut) => tokio::select! {
                    o = fut => Some(o),
                    _ = cs.on_end() => None,
                    _ = tokio::time::sleep(T) => None,
                },
                Err(e) => Some(Err(e)),
            };
            assert!(
                !matches!(outcome, Some(Ok(_))),
                "round {}: post under a transaction whose control link was closed was not refused: {:?}",
                round,
                outcome
            );
            let r = timeout(Duration::from_millis(100), receiver.recv::<Value>()).await;
            assert!(!matches!(r, Ok(Ok(_))));
        }
    }
}
