// append-to: new module at end of fe2o3-amqp/src/link/sender.rs
// run: hunt_c08_drain
#[cfg(test)]
mod hunt_c08_drain {
    //! A scripted receiver peer talks to an unmodified client `Sender` over `tokio::io::duplex`.
    use std::time::Duration;

    use fe2o3_amqp_types::{
        definitions::{Handle, ReceiverSettleMode, Role, SenderSettleMode},
        messaging::{Source, Target},
        performatives::{Attach, Begin, Flow, Open},
    };
    use futures_util::{SinkExt, StreamExt};
    use tokio::io::{AsyncReadExt, AsyncWriteExt, DuplexStream};

    use crate::{
        connection::Connection,
        frames::amqp::{Frame, FrameBody},
        session::Session,
        transport::Transport,
        Sender,
    };

    pub(super) struct Peer {
        pub t: Transport<DuplexStream, Frame>,
    }

    impl Peer {
        /// header + open exchange
        pub async fn accept(mut io: DuplexStream) -> Self {
            let mut hdr = [0u8; 8];
            io.read_exact(&mut hdr).await.unwrap();
            assert_eq!(&hdr, b"AMQP\x00\x01\x00\x00");
            io.write_all(b"AMQP\x00\x01\x00\x00").await.unwrap();
            let mut t = Transport::<_, Frame>::bind(io, 65536, None);
            match t.next().await.unwrap().unwrap().body {
                FrameBody::Open(_) => {}
                other => panic!("expected open, got {:?}", other),
            }
            let open = Open {
                container_id: "scripted-peer".into(),
                hostname: None,
                max_frame_size: 65536.into(),
                channel_max: 10.into(),
                idle_time_out: None,
                outgoing_locales: None,
                incoming_locales: None,
                offered_capabilities: None,
                desired_capabilities: None,
                properties: None,
            };
            t.send(Frame::new(0u16, FrameBody::Open(open))).await.unwrap();
            Self { t }
        }

        pub async fn next(&mut self) -> FrameBody {
            loop {
                let frame = tokio::time::timeout(Duration::from_secs(5), self.t.next())
                    .await
                    .expect("peer: no frame within 5s")
                    .expect("peer: stream ended")
                    .expect("peer: decode error");
                if let FrameBody::Empty = frame.body {
                    continue;
                }
                return frame.body;
            }
        }

        /// next frame, or None if nothing arrives within `ms`
        pub async fn next_within(&mut self, ms: u64) -> Option<FrameBody> {
            match tokio::time::timeout(Duration::from_millis(ms), self.t.next()).await {
                Ok(Some(Ok(frame))) => Some(frame.body),
                Ok(other) => panic!("peer: {:?}", other.map(|r| r.map(|_| ()))),
                Err(_) => None,
            }
        }

        pub async fn send(&mut self, body: FrameBody) {
            self.t.send(Frame::new(0u16, body)).await.unwrap();
        }

        /// answer the client's begin; the session incoming-window of the peer is `incoming_window`
        pub async fn begin(&mut self, incoming_window: u32) {
            match self.next().await {
                FrameBody::Begin(_) => {}
                other => panic!("expected begin, got {:?}", other),
            }
            let begin = Begin {
                remote_channel: Some(0),
                next_outgoing_id: 0,
                incoming_window,
                outgoing_window: 2048,
                handle_max: Handle(7),
                offered_capabilities: None,
                desired_capabilities: None,
                properties: None,
            };
            self.send(FrameBody::Begin(begin)).await;
        }

        /// answer the sender's attach as a receiver, returns the sender's attach
        pub async fn attach_receiver(&mut self) -> Attach {
            let remote = match self.next().await {
                FrameBody::Attach(a) => a,
                other => panic!("expected attach, got {:?}", other),
            };
            let attach = Attach {
                name: remote.name.clone(),
                handle: Handle(0),
                role: Role::Receiver,
                snd_settle_mode: SenderSettleMode::Settled,
                rcv_settle_mode: ReceiverSettleMode::First,
                source: Some(Box::new(Source::default())),
                target: Some(Box::new(Target::builder().address("q").build().into())),
                unsettled: None,
                incomplete_unsettled: false,
                initial_delivery_count: None,
                max_message_size: None,
                offered_capabilities: None,
                desired_capabilities: None,
                properties: None,
            };
            self.send(FrameBody::Attach(attach)).await;
            remote
        }
    }

    pub(super) fn link_flow(
        next_incoming_id: u32,
        incoming_window: u32,
        delivery_count: Option<u32>,
        link_credit: u32,
        drain: bool,
    ) -> FrameBody {
        FrameBody::Flow(Flow {
            next_incoming_id: Some(next_incoming_id),
            incoming_window,
            next_outgoing_id: 0,
            outgoing_window: 2048,
            handle: Some(Handle(0)),
            delivery_count,
            link_credit: Some(link_credit),
            available: None,
            drain,
            echo: false,
            properties: None,
        })
    }

    /// History (all legal for a receiver):
    ///   begin(incoming-window = 1); attach; flow(dc=0, credit=10, window 1)
    ///   <- transfer #0                      (uses the one slot of the session window)
    ///   sender.send() #1                    (takes credit, is parked behind the session window)
    ///   flow(next-incoming-id=1, incoming-window=100, dc=1, credit=9, drain=true)
    ///
    /// The receiver allows delivery-counts up to 1 + 9 = 10. The sender answers the drain with
    /// flow(delivery-count = 10, link-credit = 0): "all credit used up or given back". Whatever it
    /// transmits on the link after that flow is beyond the limit, the receiver's delivery-count
    /// goes 10 -> 11 with link-credit 0.
    #[tokio::test]
    async fn hunt_c08_drain_answer_is_written_before_a_delivery_that_already_took_credit() {
        let (client_io, peer_io) = tokio::io::duplex(1 << 16);
        let peer_task = tokio::spawn(Peer::accept(peer_io));
        let mut connection = Connection::builder()
            .container_id("client")
            .open_with_stream(client_io)
            .await
            .unwrap();
        let mut peer = peer_task.await.unwrap();

        let (session, _) = tokio::join!(Session::begin(&mut connection), peer.begin(1));
        let mut session = session.unwrap();

        let (sender, _) = tokio::join!(
            Sender::builder()
                .name("hunt-c08")
                .target("q")
                .sender_settle_mode(SenderSettleMode::Settled)
                .attach(&mut session),
            peer.attach_receiver()
        );
        let mut sender = sender.unwrap();

        // grant 10 credits, session window stays at 1
        peer.send(link_flow(0, 1, Some(0), 10, false)).await;

        // delivery #0 goes out
        sender.send("m0").await.unwrap();
        match peer.next().await {
            FrameBody::Transfer { .. } => {}
            other => panic!("expected transfer #0, got {:?}", other),
        }

        // delivery #1 takes credit (delivery-count 1 -> 2) and is parked by the session window
        sender.send("m1").await.unwrap();
        assert!(
            peer.next_within(200).await.is_none(),
            "transfer #1 must be parked by the session window"
        );

        // the receiver asks to drain and opens the session window in the same flow
        peer.send(link_flow(1, 100, Some(1), 9, true)).await;

        // What the receiver sees from now on. Its own accounting, as 2.6.7 prescribes:
        let mut delivery_count_rcv: u32 = 1;
        let mut link_credit_rcv: u32 = 9;
        let limit = delivery_count_rcv.wrapping_add(link_credit_rcv); // 10
        let mut seen = Vec::new();
        while let Some(body) = peer.next_within(300).await {
            match body {
                FrameBody::Flow(flow) => {
                    seen.push(format!(
                        "flow(dc={:?}, credit={:?}, drain={})",
                        flow.delivery_count, flow.link_credit, flow.drain
                    ));
                    if flow.handle.is_some() {
                        // the sender's answer to the drain: delivery-count advanced, credit gone
                        let dc = flow.delivery_count.unwrap();
                        link_credit_rcv = limit.wrapping_sub(dc);
                        delivery_count_rcv = dc;
                        assert_eq!(flow.link_credit, Some(0));
                    }
                }
                FrameBody::Transfer { performative, .. } => {
                    seen.push(format!("transfer(tag={:?})", performative.delivery_tag));
                    assert!(
                        link_credit_rcv > 0,
                        "a delivery was transmitted after the sender told the receiver that all \
                         credit is used up: delivery-count_rcv = {}, link-credit_rcv = 0, limit \
                         = {}; frames seen after the drain request: {:?}",
                        delivery_count_rcv,
                        limit,
                        seen
                    );
                    delivery_count_rcv = delivery_count_rcv.wrapping_add(1);
                    link_credit_rcv -= 1;
                }
                other => panic!("unexpected {:?}", other),
            }
        }
        assert!(seen.iter().any(|s| s.starts_with("flow")), "no drain answer: {:?}", seen);
    }
}
