    // D12 demonstration (C13): the peer ends the session (with an error) while a link frame is
    // still queued towards the session engine. The engine must answer with a plain End and
    // report the PEER's error to the session handle. On the unfixed tree the queued frame is
    // refused with IllegalState (the state is already EndReceived), so the peer gets an End
    // carrying amqp:illegal-state and the handle reports IllegalState instead of the peer's error.
    #[tokio::test]
    async fn d12_peer_end_with_queued_link_frame() {
        use fe2o3_amqp_types::definitions::{AmqpError, Error as AmqpErr, Role};
        use fe2o3_amqp_types::performatives::{Disposition, End};
        use std::time::Duration;
        use tokio::sync::mpsc;
        use tokio::time::timeout;

        let (conn_control, _conn_control_rx) = mpsc::channel(16);
        let (_control, control_rx) = mpsc::channel(16);
        let (from_peer, incoming) = mpsc::channel(16);
        let (outgoing, mut to_peer) = mpsc::channel(16);
        let (link_frames, outgoing_link_frames) = mpsc::channel(16);
        let engine = super::engine::SessionEngine {
            conn_control,
            session: mapped_session(),
            control: control_rx,
            incoming,
            outgoing,
            outgoing_link_frames,
        };

        // a link has a frame in flight towards the session ...
        link_frames
            .send(crate::link::LinkFrame::Disposition(Disposition {
                role: Role::Receiver,
                first: 0,
                last: None,
                settled: true,
                state: None,
                batchable: false,
            }))
            .await
            .unwrap();
        // ... when the peer's End (with an error) arrives
        let peer_error = AmqpErr::new(AmqpError::ResourceLimitExceeded, Some("peer says no".to_string()), None);
        from_peer
            .send(SessionFrame::new(0u16, SessionFrameBody::End(End { error: Some(peer_error.clone()) })))
            .await
            .unwrap();

        let (_join, outcome) = engine.spawn();
        let result = timeout(Duration::from_secs(2), outcome).await.expect("engine must stop").expect("outcome");

        // the frames the peer sees: anything queued, then exactly one End without an error of ours
        let mut ends = Vec::new();
        while let Ok(frame) = to_peer.try_recv() {
            if let SessionFrameBody::End(end) = frame.body {
                ends.push(end);
            }
        }
        assert_eq!(ends.len(), 1, "exactly one End answers the peer's End");
        assert_eq!(ends[0].error, None, "the answering End must not invent an error");
        match result {
            Err(super::Error::RemoteEndedWithError(error)) => assert_eq!(error, peer_error),
            other => panic!("expected the peer's error, got {other:?}"),
        }
    }
