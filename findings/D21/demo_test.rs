    // D21 demonstration (C08 "a send that is waiting for credit completes as soon as sufficient credit has been granted,
    // no matter how the grant races with the waiting"): SenderFlowState::consume checked the credit and only THEN created the
    // Notified future; Producer::produce applies the flow and calls Notify::notify_waiters(), which stores no permit. A grant
    // landing between the failed check and `notified()` was lost: the sender slept until some later flow arrived.
    // Two OS threads, up to 400 000 rounds with a varying spin delay between "consumer starts" and "grant"; every round must
    // complete (a lost wake-up shows as the 1 s time-out). On the unfixed tree a round is lost within a few thousand rounds.
    // Append inside `mod tests` of fe2o3-amqp/src/link/state.rs; run: cargo test -p fe2o3-amqp --lib d21_ -- --nocapture
    #[test]
    fn d21_grant_racing_with_the_start_of_the_wait_is_not_lost() {
        use std::sync::atomic::{AtomicBool, AtomicU64, Ordering};
        use std::sync::Barrier;
        let (mut producer, consumer) = create_sender_flow_state_producer_and_consumer();
        let barrier = Arc::new(Barrier::new(2));
        let stop = Arc::new(AtomicBool::new(false));
        let lost = Arc::new(AtomicU64::new(u64::MAX));
        let (b2, s2, l2) = (barrier.clone(), stop.clone(), lost.clone());
        let waiter = std::thread::spawn(move || {
            let rt = tokio::runtime::Builder::new_current_thread().enable_time().build().unwrap();
            rt.block_on(async move {
                let mut round = 0u64;
                loop {
                    b2.wait();
                    if s2.load(Ordering::SeqCst) {
                        break;
                    }
                    if timeout(Duration::from_secs(1), consumer.consume(1)).await.is_err() {
                        l2.store(round, Ordering::SeqCst);
                    }
                    b2.wait();
                    round += 1;
                }
            })
        });
        let rounds = 400_000u64;
        let mut x = 0x9E37_79B9_7F4A_7C15u64;
        for round in 0..rounds {
            barrier.wait();
            x ^= x << 13;
            x ^= x >> 7;
            x ^= x << 17;
            for _ in 0..(x % 400) {
                std::hint::spin_loop();
            }
            // the receiver has seen all `round` earlier deliveries and grants one more credit
            let grant = LinkFlow { link_credit: Some(1), delivery_count: Some(round as u32), ..Default::default() };
            // Producer::produce has no await point inside
            futures_util::FutureExt::now_or_never(producer.produce((grant, OutputHandle(0)))).unwrap();
            barrier.wait();
            if lost.load(Ordering::SeqCst) != u64::MAX {
                break;
            }
        }
        stop.store(true, Ordering::SeqCst);
        barrier.wait();
        waiter.join().unwrap();
        let l = lost.load(Ordering::SeqCst);
        assert!(l == u64::MAX, "round {}: link-credit 1 was granted while consume(1) was starting to wait; the sender was never woken (still blocked after 1 s with credit available)", l);
    }
