// append-to: new module at end of fe2o3-amqp/src/connection/engine.rs
// run: c12_f1   (cargo test -p fe2o3-amqp --offline --lib c12_f1 ; client test needs no features; add --features acceptor for the listener variant)

#[cfg(test)]
#[allow(dead_code, unused_imports)]
mod c12_finding_1 {
    //! Scripted-peer tests of the connection open/close state machine (property C12)
    use std::time::Duration;

    use fe2o3_amqp_types::definitions::{self, AmqpError};
    use fe2o3_amqp_types::performatives::{Begin, Close, Flow, Open};
    use futures_util::{SinkExt, StreamExt};
    use tokio::io::{AsyncReadExt, AsyncWriteExt, DuplexStream};

    use crate::connection::{Connection, ConnectionHandle, Error, OpenError, TryCloseError};
    use crate::frames::amqp::{Frame, FrameBody};
    use crate::session::Session;
    use crate::transport::Transport;

    const HEADER: &[u8; 8] = b"AMQP\x00\x01\x00\x00";

    struct Peer {
        t: Transport<DuplexStream, Frame>,
    }

    impl Peer {
        /// Reads the client's protocol header, answers with the same header
        async fn header_exchange(mut io: DuplexStream) -> Self {
            let mut buf = [0u8; 8];
            io.read_exact(&mut buf).await.unwrap();
            assert_eq!(&buf, HEADER, "the protocol header must come first");
            io.write_all(HEADER).await.unwrap();
            Peer {
                t: Transport::bind(io, 64 * 1024, None),
            }
        }

        /// Header exchange, then read the client's Open and answer with an Open
        async fn open(io: DuplexStream) -> Self {
            let mut peer = Self::header_exchange(io).await;
            let frame = peer.recv().await.expect("client Open");
            assert!(matches!(frame.body, FrameBody::Open(_)));
            peer.send(0, FrameBody::Open(peer_open())).await;
            peer
        }

        async fn send(&mut self, channel: u16, body: FrameBody) {
            self.t.send(Frame::new(channel, body)).await.unwrap();
        }

        async fn recv(&mut self) -> Option<Frame> {
            self.t.next().await.map(|r| r.unwrap())
        }
    }

    fn peer_open() -> Open {
        Open {
            container_id: "peer".to_string(),
            hostname: None,
            max_frame_size: Default::default(),
            channel_max: Default::default(),
            idle_time_out: None,
            outgoing_locales: None,
            incoming_locales: None,
            offered_capabilities: None,
            desired_capabilities: None,
            properties: None,
        }
    }

    fn peer_begin(remote_channel: Option<u16>) -> Begin {
        Begin {
            remote_channel,
            next_outgoing_id: 0,
            incoming_window: 2048,
            outgoing_window: 2048,
            handle_max: Default::default(),
            offered_capabilities: None,
            desired_capabilities: None,
            properties: None,
        }
    }

    fn session_flow() -> Flow {
        Flow {
            next_incoming_id: Some(0),
            incoming_window: 2048,
            next_outgoing_id: 0,
            outgoing_window: 2048,
            handle: None,
            delivery_count: None,
            link_credit: None,
            available: None,
            drain: false,
            echo: false,
            properties: None,
        }
    }

    fn peer_error() -> definitions::Error {
        definitions::Error::new(
            AmqpError::NotAllowed,
            Some("go away".to_string()),
            None,
        )
    }

    async fn client_open(io: DuplexStream) -> Result<ConnectionHandle<()>, OpenError> {
        Connection::builder()
            .container_id("client")
            .open_with_stream(io)
            .await
    }

    /// Finding 1: a frame that is illegal before the peer's Open (here a Begin) must close
    /// the connection WITH an error.
    #[tokio::test]
    async fn c12_f1_frame_before_open_is_closed_with_an_error() {
        let (client_io, peer_io) = tokio::io::duplex(64 * 1024);

        let peer = tokio::spawn(async move {
            let mut peer = Peer::header_exchange(peer_io).await;
            let frame = peer.recv().await.expect("client Open");
            assert!(matches!(frame.body, FrameBody::Open(_)));
            // illegal: a Begin instead of the Open
            peer.send(0, FrameBody::Begin(peer_begin(None))).await;
            // the endpoint must now close with an error
            let frame = peer.recv().await.expect("client Close");
            let close = match frame.body {
                FrameBody::Close(close) => close,
                other => panic!("expecting a Close, found {:?}", other),
            };
            // let the client finish
            peer.send(0, FrameBody::Open(peer_open())).await;
            peer.send(0, FrameBody::Close(Close { error: None })).await;
            close
        });

        let result = tokio::time::timeout(Duration::from_secs(5), client_open(client_io))
            .await
            .expect("open must not hang");
        assert!(result.is_err());
        let close = peer.await.unwrap();
        assert!(
            close.error.is_some(),
            "an illegal frame must close the connection with an error, the Close sent was {:?}",
            close
        );
    }

    /// Finding 1, listener side (needs `--features acceptor`): same history against
    /// `ConnectionAcceptor::accept`
    #[cfg(feature = "acceptor")]
    #[tokio::test]
    async fn c12_f1_listener_frame_before_open_is_closed_with_an_error() {
        use crate::acceptor::ConnectionAcceptor;

        let (listener_io, mut peer_io) = tokio::io::duplex(64 * 1024);
        let peer = tokio::spawn(async move {
            peer_io.write_all(HEADER).await.unwrap();
            let mut buf = [0u8; 8];
            peer_io.read_exact(&mut buf).await.unwrap();
            assert_eq!(&buf, HEADER);
            let mut peer = Peer {
                t: Transport::bind(peer_io, 64 * 1024, None),
            };
            // illegal: a Begin before the Open
            peer.send(4, FrameBody::Begin(peer_begin(None))).await;
            let frame = peer.recv().await.expect("listener Open");
            assert!(matches!(frame.body, FrameBody::Open(_)));
            let frame = peer.recv().await.expect("listener Close");
            let close = match frame.body {
                FrameBody::Close(close) => close,
                other => panic!("expecting a Close, found {:?}", other),
            };
            peer.send(0, FrameBody::Open(peer_open())).await;
            peer.send(0, FrameBody::Close(Close { error: None })).await;
            close
        });
        let acceptor = ConnectionAcceptor::new("listener");
        let result = tokio::time::timeout(Duration::from_secs(5), acceptor.accept(listener_io))
            .await
            .expect("accept must not hang");
        assert!(result.is_err());
        let close = peer.await.unwrap();
        assert!(
            close.error.is_some(),
            "an illegal frame must close the connection with an error, the Close sent was {:?}",
            close
        );
    }
}
