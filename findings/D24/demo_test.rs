// append-to: fe2o3-amqp/src/link/receiver.rs   (append this whole text at the END of the file; it is a self-contained `#[cfg(test)]` module, sibling of the existing `mod tests`)
// run: c16_recv_cancel   (no cargo feature needed: cargo test -p fe2o3-amqp --offline --lib c16_recv_cancel)
//
// C16 (recv half): "Dropping a recv future before it completes never loses or
// duplicates a delivery: the deliveries returned by the recv calls that do
// complete are exactly the messages sent, in order."
//
// Every test below asserts the PROPERTY, so a test that FAILS demonstrates a
// violation on the tree it is run against (the `control_*` tests are expected
// to pass: they show that the harness itself is sound).
//
// No timers, no wall clock: recv futures are polled by hand with
// `tokio_test::task::spawn`, so "dropped after its k-th poll" is exact and the
// tests are deterministic. The session side is played by the test: it owns
// the receiving half of the link->session channel (`outgoing`) and the sending
// half of the session->link channel (`incoming`).
#[cfg(test)]
mod c16_recv_cancel_tests {
    use super::*;
    use crate::endpoint::{InputHandle, OutputHandle};
    use crate::link::state::{LinkFlowState, LinkFlowStateInner, LinkState};
    use fe2o3_amqp_types::definitions::SenderSettleMode;
    use fe2o3_amqp_types::messaging::{message::__private::Serializable, Message};
    use std::marker::PhantomData;
    use std::task::Poll;

    struct Harness {
        rx: ReceiverInner<ReceiverLink<Target>>,
        /// session -> link (what `LinkRelay::Receiver { tx, .. }` holds inside the session)
        incoming_tx: Option<mpsc::Sender<LinkFrame>>,
        /// link -> session (what the session event loop reads)
        outgoing_rx: mpsc::Receiver<LinkFrame>,
        /// every frame the session has taken off `outgoing_rx` so far
        seen_by_session: Vec<LinkFrame>,
        /// how slow the session is: while a recv call is being polled, the session takes one
        /// frame off the link->session channel on every `session_period`-th `Pending`
        session_period: usize,
        pendings: usize,
        _session_control_rx: mpsc::Receiver<SessionControl>,
    }

    fn harness(outgoing_capacity: usize, auto_accept: bool, credit_mode: CreditMode) -> Harness {
        let (outgoing, outgoing_rx) = mpsc::channel::<LinkFrame>(outgoing_capacity);
        let (incoming_tx, incoming) = mpsc::channel::<LinkFrame>(1024);
        let (session, session_control_rx) = mpsc::channel::<SessionControl>(16);

        let flow_state: ReceiverFlowState = Arc::new(LinkFlowState::receiver(LinkFlowStateInner {
            initial_delivery_count: 0,
            delivery_count: 0,
            link_credit: 1000,
            available: 0,
            drain: false,
            properties: None,
        }));

        let link: ReceiverLink<Target> = crate::link::Link {
            role: PhantomData,
            local_state: LinkState::Attached,
            name: "c16-recv".to_string(),
            output_handle: Some(OutputHandle(0)),
            input_handle: Some(InputHandle(0)),
            snd_settle_mode: SenderSettleMode::Mixed,
            rcv_settle_mode: ReceiverSettleMode::First,
            source: None,
            target: None,
            max_message_size: 0,
            offered_capabilities: None,
            desired_capabilities: None,
            flow_state,
            unsettled: Arc::new(parking_lot::RwLock::new(None)),
            session_stop_reason: Arc::new(OnceLock::new()),
            verify_incoming_source: false,
            verify_incoming_target: false,
        };

        let rx = ReceiverInner {
            link,
            buffer_size: 1024,
            credit_mode,
            processed: Arc::new(AtomicU32::new(0)),
            auto_accept,
            session,
            outgoing,
            incoming,
            incomplete_transfer: None,
        };

        Harness {
            rx,
            incoming_tx: Some(incoming_tx),
            outgoing_rx,
            seen_by_session: Vec::new(),
            session_period: 1,
            pendings: 0,
            _session_control_rx: session_control_rx,
        }
    }

    fn encode(body: &str) -> Payload {
        use bytes::BufMut;
        use serde::Serialize;
        let message = Message::builder().value(body.to_string()).build();
        let mut payload = bytes::BytesMut::new();
        let mut serializer = serde_amqp::ser::Serializer::from((&mut payload).writer());
        Serializable(message).serialize(&mut serializer).unwrap();
        payload.freeze()
    }

    fn transfer_frame(delivery_id: u32, more: bool, payload: Payload) -> LinkFrame {
        LinkFrame::Transfer {
            input_handle: InputHandle(0),
            performative: Transfer {
                handle: Handle(0),
                delivery_id: Some(delivery_id),
                delivery_tag: Some(DeliveryTag::from(vec![delivery_id as u8])),
                message_format: Some(0),
                settled: Some(false),
                more,
                rcv_settle_mode: None,
                state: None,
                resume: false,
                aborted: false,
                batchable: false,
            },
            payload,
        }
    }

    impl Harness {
        /// The peer sends the message with body `m<delivery_id>`, split in `frames` transfer frames.
        fn peer_sends(&self, delivery_id: u32, frames: usize) {
            let payload = encode(&format!("m{delivery_id}"));
            assert!(frames >= 1 && frames <= payload.len());
            let tx = self.incoming_tx.as_ref().unwrap();
            let chunk = (payload.len() + frames - 1) / frames;
            for i in 0..frames {
                let lo = usize::min(i * chunk, payload.len());
                let hi = usize::min((i + 1) * chunk, payload.len());
                let more = i + 1 < frames;
                tx.try_send(transfer_frame(delivery_id, more, payload.slice(lo..hi)))
                    .unwrap();
            }
        }

        /// Make the link->session channel full: the session event loop is busy and has not yet
        /// taken the frames that an earlier call on this link put there.
        fn fill_outgoing(&self) {
            while self
                .rx
                .outgoing
                .try_send(LinkFrame::Flow(LinkFlow::default()))
                .is_ok()
            {}
        }

        fn session_takes_all(&mut self) {
            while let Ok(f) = self.outgoing_rx.try_recv() {
                self.seen_by_session.push(f);
            }
        }

        /// One `recv` call that is polled at most `k` times and dropped if it is still pending
        /// (this is what `select!` / `timeout` do when the other branch wins). On every
        /// `session_period`-th `Pending` the session takes ONE frame off the link->session channel.
        fn recv_dropped_after(&mut self, k: usize) -> Poll<Result<String, String>> {
            let mut task = tokio_test::task::spawn(self.rx.recv::<String>());
            for _ in 0..k {
                match task.poll() {
                    Poll::Ready(r) => {
                        return Poll::Ready(
                            r.map(|d| d.into_body()).map_err(|e| format!("{e:?}")),
                        );
                    }
                    Poll::Pending => {
                        self.pendings += 1;
                        if self.pendings % self.session_period == 0 {
                            if let Ok(f) = self.outgoing_rx.try_recv() {
                                self.seen_by_session.push(f);
                            }
                        }
                    }
                }
            }
            Poll::Pending
            // `task`, i.e. the recv future, is DROPPED here
        }

        /// (delivery-id, settled, is Accepted) of every disposition the session has seen
        fn dispositions_seen(&self) -> Vec<(u32, bool, bool)> {
            self.seen_by_session
                .iter()
                .filter_map(|f| match f {
                    LinkFrame::Disposition(d) => Some((
                        d.first,
                        d.settled,
                        matches!(d.state, Some(DeliveryState::Accepted(_))),
                    )),
                    _ => None,
                })
                .collect()
        }

        fn unsettled_tags(&self) -> Vec<Vec<u8>> {
            self.rx
                .link
                .unsettled
                .read()
                .as_ref()
                .map(|m| m.keys().map(|k| k.to_vec()).collect())
                .unwrap_or_default()
        }
    }

    /// THE DEMONSTRATION (single frame message, auto-accept on, capacity 1).
    ///
    /// 1. link->session channel (capacity 1) is full
    /// 2. peer sends m0 and m1
    /// 3. `recv()` polled once: takes m0 off `incoming`, builds the Delivery, and is Pending in
    ///    the auto-accept `dispose(..).await`
    /// 4. the recv future is dropped (select!/timeout)
    /// 5. the session drains the channel
    /// 6. `recv()` is called again and run to completion
    ///
    /// Property: the first recv that completes returns m0.
    #[tokio::test]
    async fn c16_recv_cancel_in_auto_accept_dispose_single_frame() {
        let mut h = harness(1, true, CreditMode::Manual);
        h.fill_outgoing();
        h.peer_sends(0, 1);
        h.peer_sends(1, 1);

        let first = h.recv_dropped_after(1);
        assert!(
            first.is_pending(),
            "set-up: the first recv was expected to be pending in the auto-accept dispose"
        );
        eprintln!(
            "after drop: unsettled tags = {:?}, link_credit = {}, delivery_count = {}",
            h.unsettled_tags(),
            h.rx.link.flow_state.lock.read().link_credit,
            h.rx.link.flow_state.lock.read().delivery_count
        );

        h.session_takes_all();

        let second = h.recv_dropped_after(100);
        h.session_takes_all();
        eprintln!("second recv -> {second:?}");
        eprintln!("dispositions seen by the session = {:?}", h.dispositions_seen());
        eprintln!("unsettled tags at the end = {:?}", h.unsettled_tags());

        assert_eq!(
            second,
            Poll::Ready(Ok("m0".to_string())),
            "C16 VIOLATED: m0 was taken from the incoming channel by the dropped recv future and \
             is never returned; dispositions seen by the session: {:?}",
            h.dispositions_seen()
        );
    }

    /// Same window, message of three transfer frames: the dropped future had already
    /// `take()`n `incomplete_transfer`, so the whole re-assembled message disappears.
    #[tokio::test]
    async fn c16_recv_cancel_in_auto_accept_dispose_multi_frame() {
        let mut h = harness(1, true, CreditMode::Manual);
        h.fill_outgoing();
        h.peer_sends(0, 3);
        h.peer_sends(1, 3);

        assert!(h.recv_dropped_after(1).is_pending());
        assert!(
            h.rx.incomplete_transfer.is_none(),
            "set-up: the buffered partial delivery was expected to be consumed already"
        );
        h.session_takes_all();

        let second = h.recv_dropped_after(100);
        h.session_takes_all();
        eprintln!("second recv -> {second:?}; dispositions = {:?}", h.dispositions_seen());
        assert_eq!(
            second,
            Poll::Ready(Ok("m0".to_string())),
            "C16 VIOLATED (multi-frame): dispositions seen by the session: {:?}",
            h.dispositions_seen()
        );
    }

    /// Second await inside `ReceiverInner::dispose`: the Accepted disposition HAS been queued for
    /// the peer, and the future is pending in `update_credit_if_auto` (the credit top-up Flow).
    /// Dropping there loses a delivery that the peer is told was accepted and settled.
    #[tokio::test]
    async fn c16_recv_cancel_in_credit_topup_after_accept_was_sent() {
        // Auto(2): a Flow is sent after every processed delivery (processed >= 2/2)
        let mut h = harness(1, true, CreditMode::Auto(2));
        h.peer_sends(0, 1);
        h.peer_sends(1, 1);

        // poll #1: disposition(m0) goes into the (empty, capacity 1) channel, Flow is pending
        assert!(h.recv_dropped_after(1).is_pending());
        h.session_takes_all();
        eprintln!("dispositions after the drop = {:?}", h.dispositions_seen());

        let second = h.recv_dropped_after(100);
        h.session_takes_all();
        eprintln!("second recv -> {second:?}; dispositions = {:?}", h.dispositions_seen());
        assert_eq!(
            second,
            Poll::Ready(Ok("m0".to_string())),
            "C16 VIOLATED: the peer got Accepted+settled for delivery 0 ({:?}) but no recv call \
             ever returns m0",
            h.dispositions_seen()
        );
    }

    /// The quantified form: a `select!`-like consumer loop. Every recv call is polled at most
    /// `k` times and then dropped; link->session capacity `cap` (initially full); the session
    /// takes one frame per `period` pending polls; messages of `frames` frames; auto-accept
    /// on/off. The deliveries returned by the recv calls that do complete must be exactly
    /// m0..m(N-1) in order.
    fn select_loop(
        auto_accept: bool,
        cap: usize,
        k: usize,
        period: usize,
        frames: usize,
    ) -> Vec<String> {
        const N: u32 = 6;
        let mut h = harness(cap, auto_accept, CreditMode::Manual);
        h.session_period = period;
        h.fill_outgoing();
        for id in 0..N {
            h.peer_sends(id, frames);
        }
        // the session goes away after the last message, so that the loop terminates with an Err
        h.incoming_tx.take();

        let mut got = Vec::new();
        for _ in 0..10_000 {
            match h.recv_dropped_after(k) {
                Poll::Ready(Ok(body)) => got.push(body),
                Poll::Ready(Err(_)) => return got,
                Poll::Pending => {} // cancelled; loop around like `select!` in a loop does
            }
        }
        panic!("select loop did not terminate");
    }

    fn expected() -> Vec<String> {
        (0..6).map(|i| format!("m{i}")).collect()
    }

    #[test]
    fn c16_recv_cancel_select_loop_auto_accept_on() {
        let mut violations = Vec::new();
        let mut total = 0;
        for cap in 1..=3 {
            for k in 1..=4 {
                for period in 1..=3 {
                    for frames in [1, 3] {
                        total += 1;
                        let got = select_loop(true, cap, k, period, frames);
                        if got != expected() {
                            violations.push(format!(
                                "cap={cap} dropped-after-poll k={k} session-period={period} \
                                 frames/msg={frames}: got {got:?}"
                            ));
                        }
                    }
                }
            }
        }
        assert!(
            violations.is_empty(),
            "C16 VIOLATED in {} of {} configurations:\n{}",
            violations.len(),
            total,
            violations.join("\n")
        );
    }

    /// control: with auto-accept off the only await in recv is `incoming.recv()`; nothing is lost
    #[test]
    fn c16_recv_cancel_control_select_loop_auto_accept_off() {
        for cap in 1..=3 {
            for k in 1..=4 {
                for period in 1..=3 {
                    for frames in [1, 3] {
                        assert_eq!(select_loop(false, cap, k, period, frames), expected());
                    }
                }
            }
        }
    }

    /// control: auto-accept on but the future is never dropped while pending -> nothing is lost
    #[test]
    fn c16_recv_cancel_control_no_cancellation() {
        for cap in 1..=3 {
            for frames in [1, 3] {
                assert_eq!(select_loop(true, cap, 1_000, 3, frames), expected());
            }
        }
    }

    /// control: dropping a recv future that is pending on an EMPTY incoming channel is harmless
    #[tokio::test]
    async fn c16_recv_cancel_control_drop_while_waiting_for_a_frame() {
        let mut h = harness(1, true, CreditMode::Manual);
        for _ in 0..3 {
            assert!(h.recv_dropped_after(2).is_pending());
        }
        h.peer_sends(0, 3);
        assert_eq!(h.recv_dropped_after(1), Poll::Ready(Ok("m0".to_string())));
    }

    /// The link->session channel does NOT have to be full. `mpsc::Sender::send` also returns
    /// `Pending` when the tokio cooperative budget of the current task poll is used up. Here the
    /// channel has the default session capacity (`DEFAULT_SESSION_MUX_BUFFER_SIZE` = 65535) and
    /// is never full; 200 messages are already buffered; the consumer is an ordinary biased
    /// `select!` loop whose second branch stands for "some other event is ready as well".
    /// (`select!` does not poll any branch when the budget is already zero on entry, so the loss
    /// needs the budget to run out between `incoming.recv()` and the `send` inside `dispose`:
    /// each recv uses two units, the budget is 128, hence the single unrelated operation below.
    /// In an application the parity is arbitrary.)
    #[tokio::test]
    async fn c16_recv_cancel_via_coop_budget_with_default_capacity() {
        const N: u32 = 200;
        let mut h = harness(u16::MAX as usize, true, CreditMode::Manual);
        for id in 0..N {
            h.peer_sends(id, 1);
        }
        h.incoming_tx.take(); // session ends after the last message -> the loop ends with Err

        // one unrelated tokio operation in the same task poll (uses one unit of the coop budget)
        let (side_tx, mut side_rx) = mpsc::channel::<()>(1);
        side_tx.try_send(()).unwrap();
        side_rx.recv().await;

        let mut got = Vec::new();
        let mut cancelled = 0;
        loop {
            tokio::select! {
                biased;
                r = h.rx.recv::<String>() => match r {
                    Ok(d) => got.push(d.into_body()),
                    Err(_) => break,
                },
                _ = std::future::ready(()) => {
                    cancelled += 1;
                    tokio::task::yield_now().await; // new task poll, fresh budget
                }
            }
        }
        h.session_takes_all();
        let want: Vec<String> = (0..N).map(|i| format!("m{i}")).collect();
        let lost: Vec<&String> = want.iter().filter(|m| !got.contains(m)).collect();
        let accepted: Vec<u32> = h.dispositions_seen().iter().map(|d| d.0).collect();
        eprintln!(
            "recv futures dropped = {cancelled}; returned = {}; lost = {lost:?}; \
             dispositions sent = {}",
            got.len(),
            accepted.len()
        );
        assert!(
            got == want,
            "C16 VIOLATED with a never-full channel (coop budget): lost = {lost:?}, \
             recv futures dropped = {cancelled}, dispositions sent = {}",
            accepted.len()
        );
    }

    /// Related window (`LinkFrame::Detach` arm): the peer's closing Detach is taken from the
    /// incoming channel, then `send_detach(..).await` is pending on the full channel. If the
    /// future is dropped there, the remote close is never reported by any later recv.
    #[tokio::test]
    async fn c16_recv_cancel_in_detach_reply() {
        let mut h = harness(1, true, CreditMode::Manual);
        h.fill_outgoing();
        h.incoming_tx
            .as_ref()
            .unwrap()
            .try_send(LinkFrame::Detach(Detach {
                handle: Handle(0),
                closed: true,
                error: None,
            }))
            .unwrap();

        assert!(h.recv_dropped_after(1).is_pending());
        eprintln!("local_state after the drop = {:?}", h.rx.link.local_state);
        h.session_takes_all();

        // the channel now has room; a recv that is polled many times must report the remote close
        let second = h.recv_dropped_after(100);
        h.session_takes_all();
        eprintln!(
            "second recv -> {second:?}; local_state = {:?}; detach frames sent = {}",
            h.rx.link.local_state,
            h.seen_by_session
                .iter()
                .filter(|f| matches!(f, LinkFrame::Detach(_)))
                .count()
        );
        assert!(
            matches!(&second, Poll::Ready(Err(e)) if e.contains("RemoteClosed")),
            "remote close lost: second recv -> {second:?}, local_state = {:?}",
            h.rx.link.local_state
        );
    }
}
