// append-to: new module at end of fe2o3-amqp/src/connection/engine.rs
// run: c17_f3   (cargo test -p fe2o3-amqp --offline --lib c17_f3)

#[cfg(test)]
#[allow(dead_code, unused_imports)]
mod hunt_c17_f3 {
    //! Scripted-peer tests for property C17 (channel-max and idle time-outs).
    use std::time::Duration;

    use fe2o3_amqp_types::performatives::{Begin, Close, Open};
    use futures_util::{SinkExt, StreamExt};
    use tokio::io::{AsyncReadExt, AsyncWriteExt, DuplexStream};
    use tokio::time::Instant;

    use crate::connection::Connection;
    use crate::frames::amqp::{Frame, FrameBody};
    use crate::transport::Transport;

    const HEADER: &[u8; 8] = b"AMQP\x00\x01\x00\x00";

    fn peer_open(idle_time_out: Option<u32>, channel_max: u16) -> Open {
        Open {
            container_id: "scripted-peer".to_string(),
            hostname: None,
            max_frame_size: 65536.into(),
            channel_max: channel_max.into(),
            idle_time_out,
            outgoing_locales: None,
            incoming_locales: None,
            offered_capabilities: None,
            desired_capabilities: None,
            properties: None,
        }
    }

    fn peer_begin(remote_channel: Option<u16>) -> Begin {
        Begin {
            remote_channel,
            next_outgoing_id: 0,
            incoming_window: 2048,
            outgoing_window: 2048,
            handle_max: Default::default(),
            offered_capabilities: None,
            desired_capabilities: None,
            properties: None,
        }
    }

    /// The scripted peer in the role of the listener: header exchange and open exchange.
    /// Returns the transport and the Open of the endpoint under test
    async fn peer_accept(
        mut io: DuplexStream,
        idle_time_out: Option<u32>,
        channel_max: u16,
    ) -> (Transport<DuplexStream, Frame>, Open) {
        let mut header = [0u8; 8];
        io.read_exact(&mut header).await.unwrap();
        assert_eq!(&header, HEADER);
        io.write_all(HEADER).await.unwrap();
        let mut transport = Transport::<DuplexStream, Frame>::bind(io, 65536, None);
        let open = match transport.next().await.unwrap().unwrap().body {
            FrameBody::Open(open) => open,
            other => panic!("expecting open, found {:?}", other),
        };
        transport
            .send(Frame::new(
                0u16,
                FrameBody::Open(peer_open(idle_time_out, channel_max)),
            ))
            .await
            .unwrap();
        (transport, open)
    }

    /// The scripted peer in the role of the client
    async fn peer_connect(
        mut io: DuplexStream,
        idle_time_out: Option<u32>,
        channel_max: u16,
    ) -> (Transport<DuplexStream, Frame>, Open) {
        io.write_all(HEADER).await.unwrap();
        let mut header = [0u8; 8];
        io.read_exact(&mut header).await.unwrap();
        assert_eq!(&header, HEADER);
        let mut transport = Transport::<DuplexStream, Frame>::bind(io, 65536, None);
        transport
            .send(Frame::new(
                0u16,
                FrameBody::Open(peer_open(idle_time_out, channel_max)),
            ))
            .await
            .unwrap();
        let open = match transport.next().await.unwrap().unwrap().body {
            FrameBody::Open(open) => open,
            other => panic!("expecting open, found {:?}", other),
        };
        (transport, open)
    }

    /// Reads frames until `end` and returns the time between two consecutive frames (the first
    /// one is measured from `start`) and the time between the last frame and `end`
    async fn record_gaps(
        transport: &mut Transport<DuplexStream, Frame>,
        start: Instant,
        end: Instant,
    ) -> Vec<Duration> {
        let mut last = start;
        let mut gaps = Vec::new();
        loop {
            match tokio::time::timeout_at(end, transport.next()).await {
                Ok(Some(Ok(_frame))) => {
                    let now = Instant::now();
                    gaps.push(now - last);
                    last = now;
                }
                Ok(other) => panic!("connection broke: {:?}", other),
                Err(_) => {
                    gaps.push(end - last);
                    break;
                }
            }
        }
        gaps
    }

    /// F3: the endpoint configured idle_time_out(2000). The peer advertises idle-time-out =
    /// 100 ms, and after the open exchange it neither writes nor reads any more (a hung process).
    /// Nothing arrives, so the endpoint has to tear the connection down and report the time-out.
    #[tokio::test(start_paused = true)]
    async fn c17_f3_silence_of_a_peer_that_stopped_reading_is_reported() {
        // room for eight empty frames
        let (client_io, peer_io) = tokio::io::duplex(64);
        let peer = tokio::spawn(async move {
            let (transport, _open) = peer_accept(peer_io, Some(100), 255).await;
            // hung: keeps the socket, does nothing
            tokio::time::sleep(Duration::from_secs(3600)).await;
            drop(transport);
        });
        let mut handle = Connection::builder()
            .container_id("under-test")
            .idle_time_out(2000u32)
            .open_with_stream(client_io)
            .await
            .unwrap();
        let start = Instant::now();
        let outcome = tokio::time::timeout(Duration::from_secs(60), handle.on_close()).await;
        println!("after {:?}: {:?}", start.elapsed(), outcome);
        match outcome {
            Ok(Err(crate::connection::Error::TransportError(
                crate::transport::Error::IdleTimeoutElapsed,
            ))) => {}
            other => panic!(
                "no time-out reported 60 s after the last frame of the peer (configured 2 s): {:?}",
                other
            ),
        }
        peer.abort();
    }

    /// Control for F3: the same silent peer, but it keeps reading. The time-out is reported.
    #[tokio::test(start_paused = true)]
    async fn c17_f3_control_silence_of_a_reading_peer_is_reported() {
        let (client_io, peer_io) = tokio::io::duplex(64);
        let peer = tokio::spawn(async move {
            let (mut transport, _open) = peer_accept(peer_io, Some(100), 255).await;
            while let Some(Ok(_)) = transport.next().await {}
        });
        let mut handle = Connection::builder()
            .container_id("under-test")
            .idle_time_out(2000u32)
            .open_with_stream(client_io)
            .await
            .unwrap();
        let start = Instant::now();
        let outcome = tokio::time::timeout(Duration::from_secs(60), handle.on_close()).await;
        println!("after {:?}: {:?}", start.elapsed(), outcome);
        assert!(matches!(
            outcome,
            Ok(Err(crate::connection::Error::TransportError(
                crate::transport::Error::IdleTimeoutElapsed
            )))
        ));
        assert!(start.elapsed() <= Duration::from_millis(2100));
        peer.abort();
    }
}
