    // D23 demonstration (C13 "nothing on its channel afterwards"): SessionControl::Disposition is processed in every state.
    // A transactional listener session queues such controls to itself while it commits (TxnSession::commit_transaction);
    // when the application's end request is already in the control queue, the End is written first and the queued
    // disposition(s) follow it on the channel.
    // Append inside `mod tests` of fe2o3-amqp/src/session/mod.rs; run: cargo test -p fe2o3-amqp --lib d23_
    #[tokio::test]
    async fn d23_a_disposition_queued_behind_the_end_request_is_not_written_after_the_end() {
        use crate::control::SessionControl;
        use fe2o3_amqp_types::definitions::Role;
        use fe2o3_amqp_types::performatives::{Disposition, End};
        use std::time::Duration;
        use tokio::sync::mpsc;
        use tokio::time::timeout;

        let (conn_control, _conn_control_rx) = mpsc::channel(16);
        let (control, control_rx) = mpsc::channel(16);
        let (from_peer, incoming) = mpsc::channel(16);
        let (outgoing, mut to_peer) = mpsc::channel(16);
        let (_link_frames, outgoing_link_frames) = mpsc::channel(16);
        let engine = super::engine::SessionEngine {
            conn_control,
            session: mapped_session(),
            control: control_rx,
            incoming,
            outgoing,
            outgoing_link_frames,
        };
        // the end request is in the queue; the disposition produced by a commit in progress is queued behind it
        control.send(SessionControl::End(None)).await.unwrap();
        control
            .send(SessionControl::Disposition(Disposition {
                role: Role::Receiver,
                first: 0,
                last: None,
                settled: true,
                state: None,
                batchable: false,
            }))
            .await
            .unwrap();
        let (_join, outcome) = engine.spawn();
        let first = timeout(Duration::from_secs(2), to_peer.recv()).await.expect("End expected").unwrap();
        assert!(matches!(first.body, SessionFrameBody::End(_)), "the local End goes out first");
        tokio::time::sleep(Duration::from_millis(100)).await;
        from_peer.send(SessionFrame::new(0u16, SessionFrameBody::End(End { error: None }))).await.unwrap();
        let _ = timeout(Duration::from_secs(2), outcome).await.expect("engine must stop");
        let mut after_end = Vec::new();
        while let Ok(frame) = to_peer.try_recv() {
            after_end.push(format!("{:?}", frame.body).chars().take(60).collect::<String>());
        }
        assert!(after_end.is_empty(), "frames written on the channel after the local End: {:?}", after_end);
    }
