    // D6 demonstration (C08): link-credit_snd := delivery-count_rcv + link-credit_rcv - delivery-count_snd
    // across the 2^32 wrap of delivery-count. The receiver has seen deliveries up to 0xFFFF_FFF0 and grants
    // 0x20 more; the sender has already sent up to (wrapped) 5, i.e. 0x15 deliveries in flight => 0xB left.
    #[test]
    fn d6_sender_credit_across_wrap() {
        let state = LinkFlowState::<role::SenderMarker>::sender(LinkFlowStateInner {
            initial_delivery_count: 0,
            delivery_count: 5,
            link_credit: 0,
            available: 0,
            drain: false,
            properties: None,
        });
        let flow = LinkFlow {
            handle: 0.into(),
            delivery_count: Some(0xFFFF_FFF0),
            link_credit: Some(0x20),
            available: None,
            drain: false,
            echo: false,
            properties: None,
        };
        state.on_incoming_flow(flow, OutputHandle(0));
        assert_eq!(state.link_credit(), 0xB);
    }
