    // D15 demonstration (C05): inside an Array the size field of a binary/string/symbol element is written as
    // `l as u32` with no length check: an element of 2^32 + 3 octets is encoded with size field 3 (and Ok is
    // returned) instead of being refused like the same value outside an array. Needs ~9 GiB of memory.
    #[test]
    fn d15_array_element_longer_than_u32_is_refused() {
        use crate::primitives::{Array, Binary};
        let big: Vec<u8> = vec![0u8; (1usize << 32) + 3];
        let value: Array<Binary> = Array(vec![Binary::from(big)]);
        match crate::to_vec(&value) {
            Err(_) => {}
            Ok(buf) => {
                let pos = buf.iter().position(|b| *b == 0xb0).expect("vbin32 constructor");
                let size = u32::from_be_bytes([buf[pos + 1], buf[pos + 2], buf[pos + 3], buf[pos + 4]]);
                panic!("an element of 2^32+3 octets was encoded (output {} bytes) with size field {}", buf.len(), size);
            }
        }
    }
