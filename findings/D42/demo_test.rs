// append-to: new module at end of fe2o3-amqp/src/link/receiver.rs
// run: c09_f2

// ---------------------------------------------------------------------------------------------
// C09 hunt, finding 2 (self-contained module: scripted-peer rig + tests)
// ---------------------------------------------------------------------------------------------
#[cfg(test)]
#[allow(dead_code, unused_imports)]
mod c09_f2 {
    use std::marker::PhantomData;
    use std::time::Duration;

    use fe2o3_amqp_types::{
        definitions::{SenderSettleMode, DeliveryTag},
        messaging::{message::__private::Serializable, Message, Target},
        performatives::Transfer,
        primitives::Value,
    };
    use serde_amqp::to_vec;

    use super::*;
    use crate::endpoint::{InputHandle, LinkFlow, OutputHandle};
    use crate::link::state::{LinkFlowState, LinkFlowStateInner, LinkState};
    use crate::link::LinkRelay;

    /// What a session does for a receiving link: it owns a `LinkRelay::Receiver` that shares the
    /// flow state with the `Receiver`, applies incoming flows at once and forwards transfers
    /// over the link's mpsc channel. The peer is "scripted" by calling the relay directly, and
    /// the frames the receiver emits are read from `outgoing`.
    struct Rig {
        rx: ReceiverInner<ReceiverLink<Target>>,
        relay: LinkRelay<OutputHandle>,
        outgoing: mpsc::Receiver<LinkFrame>,
        _control: mpsc::Receiver<SessionControl>,
        next_id: u32,
    }

    fn rig(credit_mode: CreditMode, initial_delivery_count: u32) -> Rig {
        let (incoming_tx, incoming_rx) = mpsc::channel::<LinkFrame>(1024);
        let (outgoing_tx, outgoing_rx) = mpsc::channel::<LinkFrame>(1024);
        let (control_tx, control_rx) = mpsc::channel::<SessionControl>(16);
        let flow_state: ReceiverFlowState =
            Arc::new(LinkFlowState::receiver(LinkFlowStateInner {
                initial_delivery_count,
                delivery_count: initial_delivery_count,
                link_credit: 0,
                available: 0,
                drain: false,
                properties: None,
            }));
        let unsettled: ArcReceiverUnsettledMap = Arc::new(parking_lot::RwLock::new(None));
        let relay = LinkRelay::new_receiver(
            incoming_tx,
            flow_state.clone(),
            unsettled.clone(),
            ReceiverSettleMode::First,
        )
        .with_output_handle(OutputHandle(0));
        let link = ReceiverLink::<Target> {
            role: PhantomData,
            local_state: LinkState::Attached,
            name: "c09".to_string(),
            output_handle: Some(OutputHandle(0)),
            input_handle: Some(InputHandle(0)),
            snd_settle_mode: SenderSettleMode::Mixed,
            rcv_settle_mode: ReceiverSettleMode::First,
            source: None,
            target: None,
            max_message_size: 0,
            offered_capabilities: None,
            desired_capabilities: None,
            flow_state,
            unsettled,
            session_stop_reason: Arc::new(OnceLock::new()),
            verify_incoming_source: false,
            verify_incoming_target: false,
        };
        let rx = ReceiverInner {
            link,
            buffer_size: 1024,
            credit_mode,
            processed: Arc::new(AtomicU32::new(0)),
            auto_accept: false,
            session: control_tx,
            outgoing: outgoing_tx,
            incoming: incoming_rx,
            incomplete_transfer: None,
        };
        Rig {
            rx,
            relay,
            outgoing: outgoing_rx,
            _control: control_rx,
            next_id: 0,
        }
    }

    impl Rig {
        /// The scripted sender transfers one single-frame delivery
        async fn peer_transfer(&mut self, settled: bool) {
            let id = self.next_id;
            self.next_id += 1;
            let payload = to_vec(&Serializable(Message::from(Value::from(id)))).unwrap();
            let transfer = Transfer {
                handle: 0u32.into(),
                delivery_id: Some(id),
                delivery_tag: Some(DeliveryTag::from(id.to_be_bytes().to_vec())),
                message_format: Some(0),
                settled: Some(settled),
                more: false,
                rcv_settle_mode: None,
                state: None,
                resume: false,
                aborted: false,
                batchable: false,
            };
            self.relay
                .on_incoming_transfer(transfer, Payload::from(payload))
                .await
                .unwrap();
        }

        /// The scripted sender sends a flow; returns the echo (if any) the receiving link
        /// answers with
        async fn peer_flow(
            &mut self,
            delivery_count: u32,
            link_credit: u32,
            drain: bool,
            echo: bool,
        ) -> Option<LinkFlow> {
            let flow = LinkFlow {
                handle: 0u32.into(),
                delivery_count: Some(delivery_count),
                link_credit: Some(link_credit),
                available: Some(0),
                drain,
                echo,
                properties: None,
            };
            self.relay.on_incoming_flow(flow).await.unwrap()
        }

        /// Next flow frame emitted by the receiving link (dispositions are skipped)
        fn next_flow(&mut self) -> Option<LinkFlow> {
            while let Ok(frame) = self.outgoing.try_recv() {
                if let LinkFrame::Flow(flow) = frame {
                    return Some(flow);
                }
            }
            None
        }

        async fn recv(&mut self) -> Result<Delivery<Value>, RecvError> {
            tokio::time::timeout(Duration::from_secs(5), self.rx.recv::<Value>())
                .await
                .expect("recv timed out")
        }
    }

    // ---- F2: the sender's answer to drain leaves the receiver's link-credit untouched ----

    #[tokio::test]
    async fn c09_f2_overrun_after_completed_drain_is_delivered() {
        let mut r = rig(CreditMode::Manual, 0);
        r.rx.set_credit(10).await.unwrap();
        let _ = r.next_flow().unwrap();
        r.rx.drain().await.unwrap();
        let f = r.next_flow().unwrap();
        assert_eq!((f.delivery_count, f.link_credit, f.drain), (Some(0), Some(10), true));

        // The sender has nothing available: it advances delivery-count by the 10 credits,
        // consuming all of them, and reports that (AMQP 1.0 part 2, 2.6.7 "drain")
        assert!(r.peer_flow(10, 0, true, false).await.is_none());

        // All issued credit is used up. A transfer now is beyond the limit ...
        r.peer_transfer(true).await;
        match r.recv().await {
            Err(RecvError::TransferLimitExceeded) => {}
            Ok(delivery) => panic!(
                "overrun delivered to the application: {:?} (receiver still holds link-credit {})",
                delivery.body(),
                r.rx.link.flow_state.link_credit()
            ),
            Err(other) => panic!("unexpected error {other:?}"),
        }
    }

    #[tokio::test]
    async fn c09_f2_flow_after_completed_drain_regrants_drained_credit() {
        let mut r = rig(CreditMode::Manual, 0);
        r.rx.set_credit(10).await.unwrap();
        let _ = r.next_flow().unwrap();
        r.rx.drain().await.unwrap();
        let _ = r.next_flow().unwrap();
        assert!(r.peer_flow(10, 0, true, false).await.is_none());

        // any later flow of the receiver that is not a set_credit, e.g. the answer to an echo
        // request of the sender
        let echo = r.peer_flow(10, 0, true, true).await.unwrap();
        assert_eq!(
            (echo.delivery_count, echo.link_credit),
            (Some(10), Some(0)),
            "10 credits were issued and all 10 were consumed by the drain"
        );
    }

}
