// append-to: new module at end of fe2o3-amqp/src/session/mod.rs
// run: hunt_c07_f3
#[cfg(test)]
mod hunt_c07_f3 {
    //! C07: "The endpoint never sends a transfer frame whose transfer-id lies outside the
    //! window the peer last advertised ... next-outgoing-id advances once per frame sent".
    //!
    //! The session counts one transfer per `LinkFrame::Transfer` it is handed by a link. The
    //! link only cuts a delivery at the link's max-message-size; cutting at the connection's
    //! max-frame-size is done afterwards by the transport's frame encoder
    //! (`frames::amqp::FrameEncoder::encode_transfer`), behind the session's back. A message
    //! that is larger than the peer's max-frame-size therefore goes out as N transfer frames
    //! while the session advances next-outgoing-id by 1 and takes 1 out of the
    //! remote-incoming-window.
    //!
    //! A scripted peer speaks raw AMQP over `tokio::io::duplex` using the crate's `Transport`.
    use std::time::Duration;

    use fe2o3_amqp_types::{
        definitions::{Handle, Role, SenderSettleMode},
        performatives::{Begin, Flow, Open},
    };
    use futures_util::{SinkExt, StreamExt};
    use tokio::io::{AsyncReadExt, AsyncWriteExt, DuplexStream};

    use crate::{
        connection::Connection,
        frames::amqp::{Frame, FrameBody},
        link::Sender,
        session::Session,
        transport::Transport,
    };

    type Peer = Transport<DuplexStream, Frame>;

    const PEER_MAX_FRAME_SIZE: u32 = 512;
    const INITIAL_OUTGOING_ID: u32 = 10;

    async fn next_frame(peer: &mut Peer) -> Frame {
        loop {
            let frame = tokio::time::timeout(Duration::from_secs(10), peer.next())
                .await
                .expect("timed out waiting for a frame")
                .expect("stream ended")
                .expect("frame error");
            if !matches!(frame.body, FrameBody::Empty) {
                return frame;
            }
        }
    }

    /// Scripted peer up to and including link attach.
    ///
    /// * open:   max-frame-size = 512
    /// * begin:  incoming-window = `window`
    /// * attach: receiver, then flow with link-credit 10 repeating the session window
    ///
    /// Returns the transport and the next-outgoing-id of the client's begin
    async fn peer_handshake(mut io: DuplexStream, window: u32) -> (Peer, u32) {
        let mut header = [0u8; 8];
        io.read_exact(&mut header).await.unwrap();
        assert_eq!(&header, b"AMQP\x00\x01\x00\x00");
        io.write_all(b"AMQP\x00\x01\x00\x00").await.unwrap();

        let mut peer: Peer = Transport::bind(io, 1 << 20, None);

        let frame = next_frame(&mut peer).await;
        assert!(matches!(frame.body, FrameBody::Open(_)));
        let open = Open {
            container_id: "scripted-peer".to_string(),
            hostname: None,
            max_frame_size: PEER_MAX_FRAME_SIZE.into(),
            channel_max: Default::default(),
            idle_time_out: None,
            outgoing_locales: None,
            incoming_locales: None,
            offered_capabilities: None,
            desired_capabilities: None,
            properties: None,
        };
        peer.send(Frame::new(0u16, FrameBody::Open(open))).await.unwrap();

        let frame = next_frame(&mut peer).await;
        let client_begin = match frame.body {
            FrameBody::Begin(begin) => begin,
            other => panic!("expected begin, got {:?}", other),
        };
        let begin = Begin {
            remote_channel: Some(frame.channel),
            next_outgoing_id: 0,
            incoming_window: window,
            outgoing_window: 1000,
            handle_max: Default::default(),
            offered_capabilities: None,
            desired_capabilities: None,
            properties: None,
        };
        peer.send(Frame::new(0u16, FrameBody::Begin(begin))).await.unwrap();

        let frame = next_frame(&mut peer).await;
        let client_attach = match frame.body {
            FrameBody::Attach(attach) => attach,
            other => panic!("expected attach, got {:?}", other),
        };
        let initial_delivery_count = client_attach.initial_delivery_count.unwrap_or(0);
        let mut attach = client_attach.clone();
        attach.role = Role::Receiver;
        attach.handle = Handle(0);
        attach.initial_delivery_count = None;
        peer.send(Frame::new(0u16, FrameBody::Attach(attach))).await.unwrap();

        let flow = Flow {
            next_incoming_id: Some(client_begin.next_outgoing_id),
            incoming_window: window,
            next_outgoing_id: 0,
            outgoing_window: 1000,
            handle: Some(Handle(0)),
            delivery_count: Some(initial_delivery_count),
            link_credit: Some(10),
            available: None,
            drain: false,
            echo: false,
            properties: None,
        };
        peer.send(Frame::new(0u16, FrameBody::Flow(flow))).await.unwrap();

        (peer, client_begin.next_outgoing_id)
    }

    /// Client side: one connection, one session (next-outgoing-id = 10), one pre-settling sender.
    /// Sends one message of `big` bytes, then (when told to) one small message.
    fn spawn_client(
        io: DuplexStream,
        big: usize,
        mut go_on: tokio::sync::mpsc::Receiver<()>,
    ) -> tokio::task::JoinHandle<()> {
        tokio::spawn(async move {
            let mut connection = Connection::builder()
                .container_id("client")
                .open_with_stream(io)
                .await
                .unwrap();
            let mut session = Session::builder()
                .next_outgoing_id(INITIAL_OUTGOING_ID)
                .begin(&mut connection)
                .await
                .unwrap();
            let mut sender = Sender::builder()
                .name("sender")
                .target("q")
                .sender_settle_mode(SenderSettleMode::Settled)
                .attach(&mut session)
                .await
                .unwrap();
            sender.send("x".repeat(big)).await.unwrap();
            while go_on.recv().await.is_some() {
                sender.send("second").await.unwrap();
            }
            // keep everything alive until the test is over
            std::future::pending::<()>().await;
        })
    }

    /// Reads the transfer frames of one delivery (up to and including the frame with more=false)
    async fn read_one_delivery(peer: &mut Peer) -> u32 {
        let mut count = 0u32;
        loop {
            let frame = next_frame(peer).await;
            match frame.body {
                FrameBody::Transfer { performative, .. } => {
                    count += 1;
                    if !performative.more {
                        return count;
                    }
                }
                other => panic!("expected transfer, got {:?}", other),
            }
        }
    }

    /// Peer window = 1. A 2000 byte message with max-frame-size 512 needs several transfer frames;
    /// only one of them lies inside the window.
    #[tokio::test]
    async fn large_message_overruns_peer_incoming_window() {
        let (client_io, peer_io) = tokio::io::duplex(1 << 20);
        let (_go_on_tx, go_on_rx) = tokio::sync::mpsc::channel(1);
        let _client = spawn_client(client_io, 2000, go_on_rx);
        let (mut peer, first_id) = peer_handshake(peer_io, 1).await;
        assert_eq!(first_id, INITIAL_OUTGOING_ID);

        // The peer advertised next-incoming-id = 10, incoming-window = 1: only transfer-id 10 may
        // be sent. Read everything the client writes for a little while.
        let mut transfer_frames = 0u32;
        while let Ok(frame) = tokio::time::timeout(Duration::from_millis(500), peer.next()).await {
            match frame.expect("stream ended").expect("frame error").body {
                FrameBody::Transfer { .. } => transfer_frames += 1,
                FrameBody::Empty => {}
                other => panic!("unexpected frame {:?}", other),
            }
        }
        assert!(transfer_frames >= 1, "nothing was sent at all");
        assert_eq!(
            transfer_frames, 1,
            "peer advertised incoming-window = 1 at next-incoming-id = {}, but {} transfer frames \
             (transfer-ids {}..={}) were sent without any further flow from the peer",
            first_id,
            transfer_frames,
            first_id,
            first_id + transfer_frames - 1,
        );
    }

    /// Peer window = 100 (no overrun). After the delivery the peer asks for the endpoint's state
    /// (echo); the flow it gets back must count every transfer frame that was sent.
    #[tokio::test]
    async fn reported_next_outgoing_id_misses_frames_cut_by_the_transport() {
        let (client_io, peer_io) = tokio::io::duplex(1 << 20);
        let (_go_on_tx, go_on_rx) = tokio::sync::mpsc::channel(1);
        let _client = spawn_client(client_io, 2000, go_on_rx);
        let (mut peer, first_id) = peer_handshake(peer_io, 100).await;

        let transfer_frames = read_one_delivery(&mut peer).await;
        assert!(transfer_frames > 1, "test setup: the message must need several frames");

        // A peer that follows the spec has advanced its next-incoming-id once per frame
        let flow = Flow {
            next_incoming_id: Some(first_id + transfer_frames),
            incoming_window: 100,
            next_outgoing_id: 0,
            outgoing_window: 1000,
            handle: Some(Handle(0)),
            delivery_count: Some(1),
            link_credit: Some(10),
            available: None,
            drain: false,
            echo: true,
            properties: None,
        };
        peer.send(Frame::new(0u16, FrameBody::Flow(flow))).await.unwrap();

        let frame = next_frame(&mut peer).await;
        let reported = match frame.body {
            FrameBody::Flow(flow) => flow,
            other => panic!("expected flow, got {:?}", other),
        };
        assert_eq!(
            reported.next_outgoing_id,
            first_id + transfer_frames,
            "{} transfer frames were sent starting at transfer-id {}",
            transfer_frames,
            first_id,
        );
    }

    /// Consequence of the miscount: a spec-following peer's flow (next-incoming-id advanced once
    /// per received frame, window wide open) makes the endpoint compute a remote-incoming-window
    /// of 0 ("in flight" = next-outgoing-id - next-incoming-id_flow wraps to ~2^32), so the next
    /// transfer is held back although the peer's window is open.
    #[tokio::test]
    async fn next_message_is_held_back_although_peer_window_is_open() {
        let (client_io, peer_io) = tokio::io::duplex(1 << 20);
        let (go_on_tx, go_on_rx) = tokio::sync::mpsc::channel(1);
        let _client = spawn_client(client_io, 2000, go_on_rx);
        let (mut peer, first_id) = peer_handshake(peer_io, 100).await;

        let transfer_frames = read_one_delivery(&mut peer).await;
        assert!(transfer_frames > 1, "test setup: the message must need several frames");

        let flow = Flow {
            next_incoming_id: Some(first_id + transfer_frames),
            incoming_window: 100,
            next_outgoing_id: 0,
            outgoing_window: 1000,
            handle: Some(Handle(0)),
            delivery_count: Some(1),
            link_credit: Some(10),
            available: None,
            drain: false,
            echo: false,
            properties: None,
        };
        peer.send(Frame::new(0u16, FrameBody::Flow(flow))).await.unwrap();
        // let the flow be processed before the second message is submitted
        tokio::time::sleep(Duration::from_millis(200)).await;
        go_on_tx.send(()).await.unwrap();

        let second = tokio::time::timeout(Duration::from_secs(2), async {
            loop {
                let frame = peer.next().await.expect("stream ended").expect("frame error");
                if let FrameBody::Transfer { .. } = frame.body {
                    return;
                }
            }
        })
        .await;
        assert!(
            second.is_ok(),
            "the peer's window is open (next-incoming-id = {}, incoming-window = 100) but the \
             second message was not sent within 2 s",
            first_id + transfer_frames,
        );
    }
}
