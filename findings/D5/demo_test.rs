    // D5 demonstration (C07): remote-incoming-window recomputed across the 2^32 wrap.
    // Peer has seen ids up to 0xFFFF_FFF0 (exclusive), grants 0x100 frames; we already sent up to id 0x10
    // (0x20 frames in flight) => 0xE0 frames remain. The saturating formula yields 0xFFFF_FFEF.
    #[tokio::test]
    async fn d5_window_recompute_across_wrap() {
        use fe2o3_amqp_types::performatives::Flow;
        let mut session = mapped_session();
        session.next_outgoing_id = 0x10;
        let flow = Flow {
            next_incoming_id: Some(0xFFFF_FFF0),
            incoming_window: 0x100,
            next_outgoing_id: 0,
            outgoing_window: 0,
            handle: None,
            delivery_count: None,
            link_credit: None,
            available: None,
            drain: false,
            echo: false,
            properties: None,
        };
        session.on_incoming_flow_inner(flow).await.unwrap();
        assert_eq!(session.remote_incoming_window, 0xE0);
    }
