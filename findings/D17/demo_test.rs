    // D17 demonstration (C03): an array whose elements are compound values does not decode back.
    //  (a) array of >= 2 lists / nested arrays: the first element's decoder clears (list) or replaces (array) the
    //      Deserializer's elem_format_code, so the second element is decoded without the array's element
    //      constructor: "Invalid format code".
    //  (b) array of maps (even one): deserialize_map, unlike deserialize_seq, left the array's element constructor
    //      (map8) in elem_format_code, so the map's first key was decoded as a map8: InvalidLength.
    // Append inside `mod tests` of serde_amqp/src/de.rs; run: cargo test -p serde_amqp --lib d17_
    #[test]
    fn d17_array_of_compound_elements_round_trips() {
        use crate::primitives::Array;
        use crate::value::Value;
        let list = Value::List(vec![Value::Null, Value::Int(1)]);
        let inner = Value::Array(Array::from(vec![Value::Int(1), Value::Int(2)]));
        let mut map = Value::Map(Default::default());
        if let Value::Map(m) = &mut map {
            m.insert(Value::Int(1), Value::Int(2));
        }
        for elem in [list, inner, map] {
            for n in [1usize, 2, 3] {
                let value = Value::Array(Array::from(vec![elem.clone(); n]));
                let buf = crate::to_vec(&value).unwrap();
                let back: Value = crate::from_slice(&buf)
                    .unwrap_or_else(|e| panic!("{:?} encoded as {:02x?} does not decode: {:?}", value, buf, e));
                assert_eq!(back, value);
            }
        }
        // typed: Array<Vec<i32>> (array of lists)
        let typed: Array<Vec<i32>> = Array(vec![vec![1, 2], vec![3]]);
        let buf = crate::to_vec(&typed).unwrap();
        let back: Array<Vec<i32>> = crate::from_slice(&buf).expect("own encoding must decode");
        assert_eq!(back, typed);
    }
