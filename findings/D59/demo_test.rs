// append-to: new module at end of fe2o3-amqp/src/transaction/session.rs
// run: hunt_c07_f2 --features acceptor,transaction
#[cfg(test)]
mod hunt_c07_f2 {
    //! C07: "The session state the endpoint reports in its own begin and flow frames always
    //! reflects exactly the transfer frames it has actually sent and received: ...
    //! next-incoming-id [advances] once per frame received, starting from the peer's last
    //! stated value."
    //!
    //! A transfer frame that carries a transactional-state (a post into a live transaction) is
    //! put aside by `TxnSession::on_incoming_transfer` WITHOUT going through
    //! `Session::on_incoming_transfer`: next-incoming-id is not advanced. It is only counted if
    //! and when the transaction commits, and never when it is rolled back.
    use std::sync::{Arc, OnceLock};

    use bytes::Bytes;
    use fe2o3_amqp_types::{
        definitions::{DeliveryTag, Handle},
        messaging::DeliveryState,
        performatives::{Begin, Flow, Transfer},
        states::SessionState,
        transaction::{TransactionId, TransactionalState},
    };
    use tokio::sync::mpsc;

    use super::TxnSession;
    use crate::{
        endpoint::{
            HandleDeclare, HandleDischarge, IncomingChannel, LinkFlow, OutgoingChannel,
            Session as _,
        },
        session::frame::SessionFrameBody,
        transaction::coordinator::ControlLinkAcceptor,
        Session,
    };

    const PEER_NEXT_OUTGOING_ID: u32 = 100;

    fn mapped_txn_session() -> TxnSession<Session> {
        let (control, _control_rx) = mpsc::channel(8);
        let (outgoing, _outgoing_rx) = mpsc::channel(8);
        // keep the receivers alive for the duration of the test
        std::mem::forget(_control_rx);
        std::mem::forget(_outgoing_rx);
        let mut session = crate::session::Builder::new().into_txn_session(
            control,
            outgoing,
            OutgoingChannel(0),
            ControlLinkAcceptor::default(),
            SessionState::BeginSent,
            Arc::new(OnceLock::new()),
        );
        session
            .on_incoming_begin(
                IncomingChannel(0),
                Begin {
                    remote_channel: Some(0),
                    next_outgoing_id: PEER_NEXT_OUTGOING_ID,
                    incoming_window: 100,
                    outgoing_window: 100,
                    handle_max: Default::default(),
                    offered_capabilities: None,
                    desired_capabilities: None,
                    properties: None,
                },
            )
            .unwrap();
        session
    }

    fn posted_transfer(txn_id: &TransactionId, delivery_id: u32) -> Transfer {
        Transfer {
            handle: Handle(0),
            delivery_id: Some(delivery_id),
            delivery_tag: Some(DeliveryTag::from(delivery_id.to_be_bytes().to_vec())),
            message_format: Some(0),
            settled: Some(true),
            more: false,
            rcv_settle_mode: None,
            state: Some(DeliveryState::TransactionalState(TransactionalState {
                txn_id: txn_id.clone(),
                outcome: None,
            })),
            resume: false,
            aborted: false,
            batchable: false,
        }
    }

    /// The flow frame the endpoint would emit now (a link flow passes through
    /// `on_outgoing_flow`, which fills in the session fields)
    fn reported_flow(session: &mut TxnSession<Session>) -> Flow {
        let frame = session
            .on_outgoing_flow(LinkFlow {
                handle: Handle(0),
                delivery_count: Some(0),
                link_credit: Some(10),
                available: None,
                drain: false,
                echo: false,
                properties: None,
            })
            .unwrap();
        match frame.body {
            SessionFrameBody::Flow(flow) => flow,
            _ => panic!("expected a flow frame"),
        }
    }

    #[tokio::test]
    async fn posted_transfer_frames_are_not_counted_in_next_incoming_id() {
        let mut session = mapped_txn_session();
        let txn_id = session.allocate_transaction_id().unwrap();

        // The peer sends three transfer frames (transfer-ids 100, 101, 102), each one a
        // single-frame delivery posted into the live transaction.
        for i in 0..3u32 {
            let transfer = posted_transfer(&txn_id, PEER_NEXT_OUTGOING_ID + i);
            session
                .on_incoming_transfer(transfer, Bytes::from_static(b"payload"))
                .await
                .unwrap();
        }

        let flow = reported_flow(&mut session);
        assert_eq!(
            flow.next_incoming_id,
            Some(PEER_NEXT_OUTGOING_ID + 3),
            "three transfer frames were received after the peer stated next-outgoing-id = 100"
        );
    }

    #[tokio::test]
    async fn rolled_back_posts_are_never_counted_in_next_incoming_id() {
        let mut session = mapped_txn_session();
        let txn_id = session.allocate_transaction_id().unwrap();

        for i in 0..3u32 {
            let transfer = posted_transfer(&txn_id, PEER_NEXT_OUTGOING_ID + i);
            session
                .on_incoming_transfer(transfer, Bytes::from_static(b"payload"))
                .await
                .unwrap();
        }
        // The controller discharges the transaction with fail = true
        session.rollback_transaction(txn_id).unwrap().unwrap();

        let flow = reported_flow(&mut session);
        assert_eq!(
            flow.next_incoming_id,
            Some(PEER_NEXT_OUTGOING_ID + 3),
            "three transfer frames were received; the rollback does not un-receive them"
        );
    }
}
