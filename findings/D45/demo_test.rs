// append-to: new module at end of fe2o3-amqp/src/transaction/session.rs
// run: hunt_c18_f2 --features acceptor,transaction
#[cfg(test)]
#[allow(unused_imports, dead_code)]
mod hunt_c18_f2 {
    use std::time::Duration;

    use fe2o3_amqp_types::primitives::Value;
    use tokio::time::timeout;

    use crate::{
        acceptor::{
            ConnectionAcceptor, LinkAcceptor, LinkEndpoint, ListenerConnectionHandle,
            ListenerSessionHandle, SessionAcceptor,
        },
        connection::{Connection, ConnectionHandle},
        session::SessionHandle,
        transaction::{
            coordinator::ControlLinkAcceptor, Controller, Transaction, TransactionDischarge,
            TransactionPosting,
        },
        Receiver, Sender, Session,
    };

    const T: Duration = Duration::from_secs(5);

    async fn setup() -> (
        ConnectionHandle<()>,
        SessionHandle<()>,
        ListenerConnectionHandle,
        ListenerSessionHandle,
    ) {
        let (client_io, server_io) = tokio::io::duplex(64 * 1024);
        let acceptor = ConnectionAcceptor::builder()
            .container_id("hunt-listener")
            .build();
        let connection_task = tokio::spawn(async move { acceptor.accept(server_io).await });
        let mut client_connection = Connection::builder()
            .container_id("hunt-client")
            .open_with_stream(client_io)
            .await
            .unwrap();
        let mut server_connection = connection_task.await.unwrap().unwrap();
        let session_acceptor = SessionAcceptor::builder()
            .control_link_acceptor(ControlLinkAcceptor::default())
            .build();
        let (session_result, begin_result) = tokio::join!(
            session_acceptor.accept(&mut server_connection),
            Session::begin(&mut client_connection),
        );
        (
            client_connection,
            begin_result.unwrap(),
            server_connection,
            session_result.unwrap(),
        )
    }

    /// Attach a client sender and accept the matching listener receiver
    async fn attach_pair(
        client_session: &mut SessionHandle<()>,
        listener_session: &mut ListenerSessionHandle,
        name: &str,
        addr: &str,
    ) -> (Sender, Receiver) {
        let link_acceptor = LinkAcceptor::new();
        let (snd, rcv) = tokio::join!(
            Sender::attach(client_session, name.to_string(), addr.to_string()),
            link_acceptor.accept(listener_session),
        );
        let rcv = match rcv.unwrap() {
            LinkEndpoint::Receiver(r) => r,
            LinkEndpoint::Sender(_) => panic!("expected receiver"),
        };
        (snd.unwrap(), rcv)
    }

    /// Finding 2: a commit that lands between the frames of a non-transactional multi-frame
    /// delivery on the same link
    #[tokio::test]
    async fn commit_replay_in_the_middle_of_multi_frame_delivery() {
        let (client_io, server_io) = tokio::io::duplex(64 * 1024);
        let acceptor = ConnectionAcceptor::builder()
            .container_id("hunt-listener")
            .build();
        let connection_task = tokio::spawn(async move { acceptor.accept(server_io).await });
        let mut cc = Connection::builder()
            .container_id("hunt-client")
            .open_with_stream(client_io)
            .await
            .unwrap();
        let mut lc = connection_task.await.unwrap().unwrap();
        let session_acceptor = SessionAcceptor::builder()
            .control_link_acceptor(ControlLinkAcceptor::default())
            .build();
        // small link->session queue on the client so that frames of two links interleave
        let (ls, cs) = tokio::join!(
            session_acceptor.accept(&mut lc),
            Session::builder().buffer_size(4).begin(&mut cc),
        );
        let (mut ls, mut cs) = (ls.unwrap(), cs.unwrap());

        let link_acceptor = LinkAcceptor::new();
        let (snd, rcv) = tokio::join!(
            Sender::builder()
                .name("l1")
                .target("q1")
                .max_message_size(64u64) // the sender splits deliveries into 64 byte transfers
                .attach(&mut cs),
            link_acceptor.accept(&mut ls),
        );
        let mut sender = snd.unwrap();
        let mut receiver = match rcv.unwrap() {
            LinkEndpoint::Receiver(r) => r,
            _ => unreachable!(),
        };
        let controller = Controller::attach(&mut cs, "ctrl").await.unwrap();

        let txn = Transaction::declare(&controller, None).await.unwrap();
        txn.post(&mut sender, "txn-msg").await.unwrap();

        let big: String = std::iter::repeat('x').take(64 * 300).collect();
        let lst = tokio::spawn(async move {
            let mut got = Vec::new();
            let mut errors = Vec::new();
            for _ in 0..2 {
                match timeout(Duration::from_secs(2), receiver.recv::<Value>()).await {
                    Ok(Ok(d)) => {
                        let _ = receiver.accept(&d).await;
                        got.push(match d.body() {
                            Value::String(s) if s.len() > 20 => format!("big({})", s.len()),
                            other => format!("{:?}", other),
                        })
                    }
                    Ok(Err(e)) => {
                        errors.push(format!("{:?}", e));
                        break;
                    }
                    Err(_) => break,
                }
            }
            (got, errors)
        });

        // plain multi-frame delivery on l1 and, concurrently, the commit on the control link
        let (sent, commit) = tokio::join!(
            timeout(T, sender.send_batchable(big.clone())),
            timeout(T, txn.commit()),
        );
        let _fut = sent.unwrap().unwrap();
        commit.unwrap().unwrap(); // commit reported successful

        let (mut got, errors) = lst.await.unwrap();
        got.sort();
        let mut expected = vec![
            format!("big({})", big.len()),
            format!("{:?}", Value::from("txn-msg")),
        ];
        expected.sort();
        // Property: after a successful commit the posted message is delivered (and the plain
        // delivery that was in flight on the same link is of course delivered too).
        assert_eq!(got, expected, "receiver errors: {:?}", errors);
    }
}
