// append-to: new module at end of fe2o3-amqp/src/link/receiver.rs
// run: c10_finding_3            (also with: --features transaction  -> adds the transactional-state case)
//
// C10 finding 3: a continuation frame that (legally) omits delivery-tag but carries the optional
// `state` field makes `recv` fail with `DeliveryTagIsNone`; the final frame's payload is dropped,
// the delivery is never handed over, and the stale partial delivery also destroys the NEXT
// delivery on the link. The receiver looks the delivery-tag up on the frame instead of on the
// delivery it is reassembling. (fe2o3-amqp's own sender and frame encoder emit exactly this frame
// shape - tag cleared, state kept - for a multi-frame transfer that has a state.)
#[cfg(test)]
mod c10_finding_3 {
    use super::*;
    use crate::endpoint::{InputHandle, OutputHandle};
    use crate::link::state::{LinkFlowState, LinkFlowStateInner, LinkState};
    use bytes::Bytes;
    use fe2o3_amqp_types::messaging::{
        message::__private::Serializable, AmqpValue, Batch, Body, Data, Message,
    };
    use fe2o3_amqp_types::primitives::{Binary, Value};
    use serde_amqp::to_vec;
    use std::marker::PhantomData;
    use std::time::Duration;

    /// A receiving link endpoint in the Attached state with `credit` link credit. Frames pushed
    /// into `in_tx` are exactly what the session's `LinkRelay` would forward to the link, and
    /// `inner.recv()` is exactly what `Receiver::recv` calls.
    struct Harness {
        inner: ReceiverInner<ReceiverLink<Target>>,
        in_tx: mpsc::Sender<LinkFrame>,
        _out_rx: mpsc::Receiver<LinkFrame>,
        _ctrl_rx: mpsc::Receiver<SessionControl>,
    }

    fn harness(credit: u32) -> Harness {
        let flow_state: ReceiverFlowState = Arc::new(LinkFlowState::receiver(LinkFlowStateInner {
            initial_delivery_count: 0,
            delivery_count: 0,
            link_credit: credit,
            available: 0,
            drain: false,
            properties: None,
        }));
        let link: ReceiverLink<Target> = crate::link::Link {
            role: PhantomData,
            local_state: LinkState::Attached,
            name: "l".into(),
            output_handle: Some(OutputHandle(0)),
            input_handle: Some(InputHandle(0)),
            snd_settle_mode: Default::default(),
            rcv_settle_mode: ReceiverSettleMode::First,
            source: None,
            target: None,
            max_message_size: 0,
            offered_capabilities: None,
            desired_capabilities: None,
            flow_state,
            unsettled: Arc::new(parking_lot::RwLock::new(None)),
            session_stop_reason: Arc::new(OnceLock::new()),
            verify_incoming_source: false,
            verify_incoming_target: false,
        };
        let (in_tx, in_rx) = mpsc::channel(1024);
        let (out_tx, out_rx) = mpsc::channel(1024);
        let (ctrl_tx, ctrl_rx) = mpsc::channel(1024);
        let inner = ReceiverInner {
            link,
            buffer_size: 1024,
            credit_mode: CreditMode::Manual,
            processed: Arc::new(AtomicU32::new(0)),
            auto_accept: false,
            session: ctrl_tx,
            outgoing: out_tx,
            incoming: in_rx,
            incomplete_transfer: None,
        };
        Harness {
            inner,
            in_tx,
            _out_rx: out_rx,
            _ctrl_rx: ctrl_rx,
        }
    }

    /// First (or only) transfer frame of a delivery
    fn first(id: u32, tag: &[u8], more: bool) -> Transfer {
        Transfer {
            handle: Handle(0),
            delivery_id: Some(id),
            delivery_tag: Some(DeliveryTag::from(tag.to_vec())),
            message_format: Some(0),
            settled: None,
            more,
            rcv_settle_mode: None,
            state: None,
            resume: false,
            aborted: false,
            batchable: false,
        }
    }

    /// Continuation transfer frame that omits delivery-id, delivery-tag and message-format
    fn cont(more: bool) -> Transfer {
        Transfer {
            handle: Handle(0),
            delivery_id: None,
            delivery_tag: None,
            message_format: None,
            settled: None,
            more,
            rcv_settle_mode: None,
            state: None,
            resume: false,
            aborted: false,
            batchable: false,
        }
    }

    async fn push(h: &Harness, performative: Transfer, payload: Bytes) {
        h.in_tx
            .send(LinkFrame::Transfer {
                input_handle: InputHandle(0),
                performative,
                payload,
            })
            .await
            .unwrap();
    }

    /// `Receiver::recv` with a deadline: `None` means "nothing was handed to the application"
    async fn recv_within<T>(h: &mut Harness) -> Option<Result<Delivery<T>, RecvError>>
    where
        for<'de> T: FromBody<'de> + Send,
    {
        tokio::time::timeout(Duration::from_millis(200), h.inner.recv::<T>())
            .await
            .ok()
    }

    fn string_message(s: &str) -> Bytes {
        Bytes::from(
            to_vec(&Serializable(Message::<Body<Value>>::from(Body::Value(
                AmqpValue(Value::String(s.to_string())),
            ))))
            .unwrap(),
        )
    }

    #[allow(dead_code)]
    fn data_message(sections: &[&[u8]]) -> Bytes {
        let batch = Batch::new(
            sections
                .iter()
                .map(|s| Data(Binary::from(s.to_vec())))
                .collect::<Vec<_>>(),
        );
        Bytes::from(to_vec(&Serializable(Message::<Body<Value>>::from(Body::Data(batch)))).unwrap())
    }

    fn states() -> Vec<(&'static str, DeliveryState)> {
        #[allow(unused_mut)]
        let mut v = vec![
            (
                "received",
                DeliveryState::Received(fe2o3_amqp_types::messaging::Received {
                    section_number: 0,
                    section_offset: 0,
                }),
            ),
            ("accepted", DeliveryState::Accepted(Accepted {})),
        ];
        #[cfg(feature = "transaction")]
        v.push((
            "transactional-state",
            DeliveryState::TransactionalState(fe2o3_amqp_types::transaction::TransactionalState {
                txn_id: fe2o3_amqp_types::transaction::TransactionId::from(vec![1u8, 2, 3]),
                outcome: None,
            }),
        ));
        v
    }

    #[tokio::test]
    async fn c10_finding_3_state_on_continuation_frame_without_tag() {
        for (name, state) in states() {
            let a = string_message("AAAAAAAAAAAAAAAAAAAA");
            let b = string_message("BBBBBBBBBBBBBBBBBBBB");
            let n = a.len();

            let mut h = harness(10);
            // delivery 0 in two frames; `state` is repeated on both, id/tag/format only on the first
            let mut f1 = first(0, b"a", true);
            f1.state = Some(state.clone());
            push(&h, f1, a.slice(..n / 2)).await;
            let mut f2 = cont(false);
            f2.state = Some(state.clone());
            push(&h, f2, a.slice(n / 2..)).await;
            // delivery 1 in one frame
            push(&h, first(1, b"b", false), b.clone()).await;

            let r = recv_within::<Body<Value>>(&mut h).await;
            match r {
                Some(Ok(d)) => {
                    assert_eq!(d.delivery_id, 0);
                    assert_eq!(
                        d.message.body,
                        Body::Value(AmqpValue(Value::String("AAAAAAAAAAAAAAAAAAAA".into())))
                    );
                }
                other => panic!(
                    "[{name}] delivery 0 was not handed over: {:?}",
                    other.map(|r| r.map(|d| d.message))
                ),
            }
            let r = recv_within::<Body<Value>>(&mut h).await;
            match r {
                Some(Ok(d)) => assert_eq!(d.delivery_id, 1),
                other => panic!(
                    "[{name}] delivery 1 was not handed over: {:?}",
                    other.map(|r| r.map(|d| d.message))
                ),
            }
        }
    }

    /// Same history, but only looking at what happens to the NEXT delivery after the failure
    #[tokio::test]
    async fn c10_finding_3_next_delivery_is_disturbed() {
        let a = string_message("AAAAAAAAAAAAAAAAAAAA");
        let b = string_message("BBBBBBBBBBBBBBBBBBBB");
        let n = a.len();
        let mut h = harness(10);
        push(&h, first(0, b"a", true), a.slice(..n / 2)).await;
        let mut f2 = cont(false);
        f2.state = Some(DeliveryState::Accepted(Accepted {}));
        push(&h, f2, a.slice(n / 2..)).await;
        push(&h, first(1, b"b", false), b.clone()).await;

        let _first_outcome = recv_within::<Body<Value>>(&mut h).await; // whatever happened to delivery 0
        let r = recv_within::<Body<Value>>(&mut h).await;
        assert!(
            matches!(&r, Some(Ok(d)) if d.delivery_id == 1),
            "delivery 1 (complete, single frame) was not handed over: {:?}",
            r.map(|r| r.map(|d| d.message))
        );
    }
}
