// append-to: new module at end of fe2o3-amqp/src/link/receiver.rs
// run: c09_f1 --features acceptor

// ---------------------------------------------------------------------------------------------
// C09 hunt, finding 1 (self-contained module: scripted-peer rig + tests)
// ---------------------------------------------------------------------------------------------
#[cfg(test)]
#[allow(dead_code, unused_imports)]
mod c09_f1 {
    use std::marker::PhantomData;
    use std::time::Duration;

    use fe2o3_amqp_types::{
        definitions::{SenderSettleMode, DeliveryTag},
        messaging::{message::__private::Serializable, Message, Target},
        performatives::Transfer,
        primitives::Value,
    };
    use serde_amqp::to_vec;

    use super::*;
    use crate::endpoint::{InputHandle, LinkFlow, OutputHandle};
    use crate::link::state::{LinkFlowState, LinkFlowStateInner, LinkState};
    use crate::link::LinkRelay;

    /// What a session does for a receiving link: it owns a `LinkRelay::Receiver` that shares the
    /// flow state with the `Receiver`, applies incoming flows at once and forwards transfers
    /// over the link's mpsc channel. The peer is "scripted" by calling the relay directly, and
    /// the frames the receiver emits are read from `outgoing`.
    struct Rig {
        rx: ReceiverInner<ReceiverLink<Target>>,
        relay: LinkRelay<OutputHandle>,
        outgoing: mpsc::Receiver<LinkFrame>,
        _control: mpsc::Receiver<SessionControl>,
        next_id: u32,
    }

    fn rig(credit_mode: CreditMode, initial_delivery_count: u32) -> Rig {
        let (incoming_tx, incoming_rx) = mpsc::channel::<LinkFrame>(1024);
        let (outgoing_tx, outgoing_rx) = mpsc::channel::<LinkFrame>(1024);
        let (control_tx, control_rx) = mpsc::channel::<SessionControl>(16);
        let flow_state: ReceiverFlowState =
            Arc::new(LinkFlowState::receiver(LinkFlowStateInner {
                initial_delivery_count,
                delivery_count: initial_delivery_count,
                link_credit: 0,
                available: 0,
                drain: false,
                properties: None,
            }));
        let unsettled: ArcReceiverUnsettledMap = Arc::new(parking_lot::RwLock::new(None));
        let relay = LinkRelay::new_receiver(
            incoming_tx,
            flow_state.clone(),
            unsettled.clone(),
            ReceiverSettleMode::First,
        )
        .with_output_handle(OutputHandle(0));
        let link = ReceiverLink::<Target> {
            role: PhantomData,
            local_state: LinkState::Attached,
            name: "c09".to_string(),
            output_handle: Some(OutputHandle(0)),
            input_handle: Some(InputHandle(0)),
            snd_settle_mode: SenderSettleMode::Mixed,
            rcv_settle_mode: ReceiverSettleMode::First,
            source: None,
            target: None,
            max_message_size: 0,
            offered_capabilities: None,
            desired_capabilities: None,
            flow_state,
            unsettled,
            session_stop_reason: Arc::new(OnceLock::new()),
            verify_incoming_source: false,
            verify_incoming_target: false,
        };
        let rx = ReceiverInner {
            link,
            buffer_size: 1024,
            credit_mode,
            processed: Arc::new(AtomicU32::new(0)),
            auto_accept: false,
            session: control_tx,
            outgoing: outgoing_tx,
            incoming: incoming_rx,
            incomplete_transfer: None,
        };
        Rig {
            rx,
            relay,
            outgoing: outgoing_rx,
            _control: control_rx,
            next_id: 0,
        }
    }

    impl Rig {
        /// The scripted sender transfers one single-frame delivery
        async fn peer_transfer(&mut self, settled: bool) {
            let id = self.next_id;
            self.next_id += 1;
            let payload = to_vec(&Serializable(Message::from(Value::from(id)))).unwrap();
            let transfer = Transfer {
                handle: 0u32.into(),
                delivery_id: Some(id),
                delivery_tag: Some(DeliveryTag::from(id.to_be_bytes().to_vec())),
                message_format: Some(0),
                settled: Some(settled),
                more: false,
                rcv_settle_mode: None,
                state: None,
                resume: false,
                aborted: false,
                batchable: false,
            };
            self.relay
                .on_incoming_transfer(transfer, Payload::from(payload))
                .await
                .unwrap();
        }

        /// The scripted sender sends a flow; returns the echo (if any) the receiving link
        /// answers with
        async fn peer_flow(
            &mut self,
            delivery_count: u32,
            link_credit: u32,
            drain: bool,
            echo: bool,
        ) -> Option<LinkFlow> {
            let flow = LinkFlow {
                handle: 0u32.into(),
                delivery_count: Some(delivery_count),
                link_credit: Some(link_credit),
                available: Some(0),
                drain,
                echo,
                properties: None,
            };
            self.relay.on_incoming_flow(flow).await.unwrap()
        }

        /// Next flow frame emitted by the receiving link (dispositions are skipped)
        fn next_flow(&mut self) -> Option<LinkFlow> {
            while let Ok(frame) = self.outgoing.try_recv() {
                if let LinkFrame::Flow(flow) = frame {
                    return Some(flow);
                }
            }
            None
        }

        async fn recv(&mut self) -> Result<Delivery<Value>, RecvError> {
            tokio::time::timeout(Duration::from_secs(5), self.rx.recv::<Value>())
                .await
                .expect("recv timed out")
        }
    }

    // ---- F1: a flow from the sender is applied ahead of transfers still queued for recv() ----

    /// Echo answer: credit 10 issued at delivery-count 0; the sender transfers 3 deliveries and
    /// then sends a flow (delivery-count 3, echo). The application has not called recv() yet.
    #[tokio::test]
    async fn c09_f1_echo_regrants_credit_already_used_by_queued_deliveries() {
        let mut r = rig(CreditMode::Manual, 0);
        r.rx.set_credit(10).await.unwrap();
        let f = r.next_flow().unwrap();
        assert_eq!((f.delivery_count, f.link_credit), (Some(0), Some(10)));

        for _ in 0..3 {
            r.peer_transfer(true).await;
        }
        let echo = r.peer_flow(3, 7, false, true).await.expect("echo requested");

        // delivery-limit issued by the receiver is 0 + 10 = 10; whatever split it reports,
        // delivery-count + link-credit must not move past it
        let limit = echo.delivery_count.unwrap() + echo.link_credit.unwrap();
        assert_eq!(
            limit, 10,
            "echo reports delivery-count {:?} and link-credit {:?}: the sender now computes {} \
             credits although only 7 of the 10 issued are left",
            echo.delivery_count,
            echo.link_credit,
            limit - 3
        );
    }

    /// Same history, then the application receives the 3 queued deliveries and issues credit.
    #[tokio::test]
    async fn c09_f1_delivery_count_double_counts_deliveries_queued_before_a_sender_flow() {
        let mut r = rig(CreditMode::Manual, 0);
        r.rx.set_credit(10).await.unwrap();
        let _ = r.next_flow().unwrap();

        for _ in 0..3 {
            r.peer_transfer(true).await;
        }
        // sender reports its state after the 3 transfers (no echo wanted)
        assert!(r.peer_flow(3, 7, false, false).await.is_none());

        for _ in 0..3 {
            r.recv().await.expect("within credit");
        }

        r.rx.set_credit(10).await.unwrap();
        let f = r.next_flow().unwrap();
        // last learnt from the sender: 3 (in its flow); deliveries received since that flow: 0
        assert_eq!(
            f.delivery_count,
            Some(3),
            "receiver flow must carry the sender's delivery-count (3), got {:?}",
            f.delivery_count
        );
    }


    // -----------------------------------------------------------------------------------------
    // End-to-end rig: a client `Receiver` attached over `tokio::io::duplex` to an in-process
    // listener whose link acceptor answers with a (credit respecting) fe2o3 `Sender`.
    // -----------------------------------------------------------------------------------------
    #[cfg(feature = "acceptor")]
    mod e2e {
        use std::time::Duration;

        use crate::acceptor::{
            ConnectionAcceptor, LinkAcceptor, LinkEndpoint, ListenerConnectionHandle,
            ListenerSessionHandle, SessionAcceptor,
        };
        use crate::connection::ConnectionHandle;
        use crate::link::delivery::Sendable;
        use crate::link::{CreditMode, Receiver, Sender};
        use crate::session::SessionHandle;
        use crate::{Connection, Session};

        pub(super) struct Pair {
            pub receiver: Receiver,
            pub sender: Sender,
            pub _client_connection: ConnectionHandle<()>,
            pub _client_session: SessionHandle<()>,
            pub _server_connection: ListenerConnectionHandle,
            pub _server_session: ListenerSessionHandle,
        }

        pub(super) async fn pair(credit_mode: CreditMode) -> Pair {
            let (client_io, server_io) = tokio::io::duplex(64 * 1024);
            let acceptor = ConnectionAcceptor::builder()
                .container_id("c09-listener")
                .build();
            let connection_task = tokio::spawn(async move { acceptor.accept(server_io).await });
            let mut client_connection = Connection::builder()
                .container_id("c09-client")
                .open_with_stream(client_io)
                .await
                .unwrap();
            let mut server_connection = connection_task.await.unwrap().unwrap();

            let session_acceptor = SessionAcceptor::new();
            let (server_session, client_session) = tokio::join!(
                session_acceptor.accept(&mut server_connection),
                Session::begin(&mut client_connection),
            );
            let mut server_session = server_session.unwrap();
            let mut client_session = client_session.unwrap();

            let link_acceptor = LinkAcceptor::builder().build();
            let (endpoint, receiver) = tokio::join!(
                link_acceptor.accept(&mut server_session),
                Receiver::builder()
                    .name("c09-link")
                    .source("q")
                    .credit_mode(credit_mode)
                    .attach(&mut client_session),
            );
            let receiver = receiver.unwrap();
            let sender = match endpoint.unwrap() {
                LinkEndpoint::Sender(sender) => sender,
                LinkEndpoint::Receiver(_) => panic!("expected a sender"),
            };
            Pair {
                receiver,
                sender,
                _client_connection: client_connection,
                _client_session: client_session,
                _server_connection: server_connection,
                _server_session: server_session,
            }
        }

        /// Sends one pre-settled message; `Err` if the sender had no credit for a second
        pub(super) async fn send_settled(sender: &mut Sender, i: u32) -> Result<(), ()> {
            let sendable = Sendable::builder().message(i).settled(true).build();
            match tokio::time::timeout(Duration::from_secs(1), sender.send(sendable)).await {
                Ok(result) => {
                    result.unwrap();
                    Ok(())
                }
                Err(_) => Err(()),
            }
        }

        fn receiver_state(receiver: &Receiver) -> (u32, u32) {
            let guard = receiver.inner.link.flow_state.lock.read();
            (guard.delivery_count, guard.link_credit)
        }

        fn sender_state(sender: &Sender) -> (u32, u32) {
            let guard = sender.inner.link.flow_state.state().lock.read();
            (guard.delivery_count, guard.link_credit)
        }

        /// F1 end to end. Manual credit 10; the sender delivers 3 messages which stay queued
        /// (the application has not called recv() yet); the application drains; the sender's
        /// drain answer (delivery-count 10) is applied by the session at once; the application
        /// then receives the 3 messages and grants 5 fresh credits, which never reach the sender.
        #[tokio::test]
        async fn c09_f1_e2e_credit_granted_after_drain_with_queued_deliveries_stalls_sender() {
            let mut p = pair(CreditMode::Manual).await;
            p.receiver.set_credit(10).await.unwrap();
            for i in 0..3 {
                send_settled(&mut p.sender, i).await.expect("10 credits were granted");
            }
            p.receiver.drain().await.unwrap();
            // wait for the sender's answer to the drain (it follows the 3 transfers on the wire)
            for _ in 0..1000 {
                if receiver_state(&p.receiver).0 == 10 {
                    break;
                }
                tokio::time::sleep(Duration::from_millis(5)).await;
            }
            assert_eq!(receiver_state(&p.receiver).0, 10, "drain answer not seen");
            assert_eq!(sender_state(&p.sender), (10, 0));

            for _ in 0..3 {
                p.receiver.recv::<u32>().await.expect("sent within credit");
            }
            p.receiver.set_credit(5).await.unwrap();

            let outcome = send_settled(&mut p.sender, 3).await;
            assert!(
                outcome.is_ok(),
                "receiver granted 5 credits (its state: delivery-count {}, link-credit {}) but the \
                 credit respecting sender is stalled (its state: delivery-count {}, link-credit {})",
                receiver_state(&p.receiver).0,
                receiver_state(&p.receiver).1,
                sender_state(&p.sender).0,
                sender_state(&p.sender).1,
            );
        }


        /// Control for the harness (passes): same history as the F1 test except that the
        /// application receives the 3 messages before it drains.
        #[tokio::test]
        async fn c09_f1_e2e_control_deliveries_received_before_drain() {
            let mut p = pair(CreditMode::Manual).await;
            p.receiver.set_credit(10).await.unwrap();
            for i in 0..3 {
                send_settled(&mut p.sender, i).await.expect("10 credits were granted");
            }
            for _ in 0..3 {
                p.receiver.recv::<u32>().await.expect("sent within credit");
            }
            p.receiver.drain().await.unwrap();
            for _ in 0..1000 {
                if receiver_state(&p.receiver).0 == 10 {
                    break;
                }
                tokio::time::sleep(Duration::from_millis(5)).await;
            }
            assert_eq!(receiver_state(&p.receiver).0, 10, "drain answer not seen");
            p.receiver.set_credit(5).await.unwrap();
            assert!(send_settled(&mut p.sender, 3).await.is_ok());
            assert_eq!(*p.receiver.recv::<u32>().await.unwrap().body(), 3);
        }


    }
}
