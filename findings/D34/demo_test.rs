// append-to: new module at end of fe2o3-amqp/src/connection/engine.rs
// run: c12_f2   (cargo test -p fe2o3-amqp --offline --lib c12_f2 ; no cargo features needed)

#[cfg(test)]
#[allow(dead_code, unused_imports)]
mod c12_finding_2 {
    //! Scripted-peer tests of the connection open/close state machine (property C12)
    use std::time::Duration;

    use fe2o3_amqp_types::definitions::{self, AmqpError};
    use fe2o3_amqp_types::performatives::{Begin, Close, Flow, Open};
    use futures_util::{SinkExt, StreamExt};
    use tokio::io::{AsyncReadExt, AsyncWriteExt, DuplexStream};

    use crate::connection::{Connection, ConnectionHandle, Error, OpenError, TryCloseError};
    use crate::frames::amqp::{Frame, FrameBody};
    use crate::session::Session;
    use crate::transport::Transport;

    const HEADER: &[u8; 8] = b"AMQP\x00\x01\x00\x00";

    struct Peer {
        t: Transport<DuplexStream, Frame>,
    }

    impl Peer {
        /// Reads the client's protocol header, answers with the same header
        async fn header_exchange(mut io: DuplexStream) -> Self {
            let mut buf = [0u8; 8];
            io.read_exact(&mut buf).await.unwrap();
            assert_eq!(&buf, HEADER, "the protocol header must come first");
            io.write_all(HEADER).await.unwrap();
            Peer {
                t: Transport::bind(io, 64 * 1024, None),
            }
        }

        /// Header exchange, then read the client's Open and answer with an Open
        async fn open(io: DuplexStream) -> Self {
            let mut peer = Self::header_exchange(io).await;
            let frame = peer.recv().await.expect("client Open");
            assert!(matches!(frame.body, FrameBody::Open(_)));
            peer.send(0, FrameBody::Open(peer_open())).await;
            peer
        }

        async fn send(&mut self, channel: u16, body: FrameBody) {
            self.t.send(Frame::new(channel, body)).await.unwrap();
        }

        async fn recv(&mut self) -> Option<Frame> {
            self.t.next().await.map(|r| r.unwrap())
        }
    }

    fn peer_open() -> Open {
        Open {
            container_id: "peer".to_string(),
            hostname: None,
            max_frame_size: Default::default(),
            channel_max: Default::default(),
            idle_time_out: None,
            outgoing_locales: None,
            incoming_locales: None,
            offered_capabilities: None,
            desired_capabilities: None,
            properties: None,
        }
    }

    fn peer_begin(remote_channel: Option<u16>) -> Begin {
        Begin {
            remote_channel,
            next_outgoing_id: 0,
            incoming_window: 2048,
            outgoing_window: 2048,
            handle_max: Default::default(),
            offered_capabilities: None,
            desired_capabilities: None,
            properties: None,
        }
    }

    fn session_flow() -> Flow {
        Flow {
            next_incoming_id: Some(0),
            incoming_window: 2048,
            next_outgoing_id: 0,
            outgoing_window: 2048,
            handle: None,
            delivery_count: None,
            link_credit: None,
            available: None,
            drain: false,
            echo: false,
            properties: None,
        }
    }

    fn peer_error() -> definitions::Error {
        definitions::Error::new(
            AmqpError::NotAllowed,
            Some("go away".to_string()),
            None,
        )
    }

    async fn client_open(io: DuplexStream) -> Result<ConnectionHandle<()>, OpenError> {
        Connection::builder()
            .container_id("client")
            .open_with_stream(io)
            .await
    }

    /// Finding 2: the peer refuses the connection with a Close carrying an error before
    /// sending its Open, waits for the answering Close and then shuts the socket down.
    /// The peer's error must be reported.
    #[tokio::test]
    async fn c12_f2_peer_close_with_error_before_open_is_reported() {
        let (client_io, peer_io) = tokio::io::duplex(64 * 1024);

        let peer = tokio::spawn(async move {
            let mut peer = Peer::header_exchange(peer_io).await;
            let frame = peer.recv().await.expect("client Open");
            assert!(matches!(frame.body, FrameBody::Open(_)));
            peer.send(
                0,
                FrameBody::Close(Close {
                    error: Some(peer_error()),
                }),
            )
            .await;
            // the close is answered
            let frame = peer.recv().await.expect("client Close");
            assert!(matches!(frame.body, FrameBody::Close(_)));
            // close handshake complete: shut the socket down
            drop(peer);
        });

        let result = tokio::time::timeout(Duration::from_secs(5), client_open(client_io))
            .await
            .expect("open must not hang");
        peer.await.unwrap();
        match result {
            Err(OpenError::RemoteClosedWithError(error)) => assert_eq!(error, peer_error()),
            other => panic!(
                "the peer's error must be reported, found {:?}",
                other.map(|_| "a connection handle")
            ),
        }
    }
}
