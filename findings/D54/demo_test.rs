// append-to: new module at end of fe2o3-amqp/src/connection/engine.rs
// run: c17_f1 --features acceptor   (cargo test -p fe2o3-amqp --offline --lib --features acceptor c17_f1)

#[cfg(test)]
#[allow(dead_code, unused_imports)]
mod hunt_c17_f1 {
    //! Scripted-peer tests for property C17 (channel-max and idle time-outs).
    use std::time::Duration;

    use fe2o3_amqp_types::performatives::{Begin, Close, Open};
    use futures_util::{SinkExt, StreamExt};
    use tokio::io::{AsyncReadExt, AsyncWriteExt, DuplexStream};
    use tokio::time::Instant;

    use crate::connection::Connection;
    use crate::frames::amqp::{Frame, FrameBody};
    use crate::transport::Transport;

    const HEADER: &[u8; 8] = b"AMQP\x00\x01\x00\x00";

    fn peer_open(idle_time_out: Option<u32>, channel_max: u16) -> Open {
        Open {
            container_id: "scripted-peer".to_string(),
            hostname: None,
            max_frame_size: 65536.into(),
            channel_max: channel_max.into(),
            idle_time_out,
            outgoing_locales: None,
            incoming_locales: None,
            offered_capabilities: None,
            desired_capabilities: None,
            properties: None,
        }
    }

    fn peer_begin(remote_channel: Option<u16>) -> Begin {
        Begin {
            remote_channel,
            next_outgoing_id: 0,
            incoming_window: 2048,
            outgoing_window: 2048,
            handle_max: Default::default(),
            offered_capabilities: None,
            desired_capabilities: None,
            properties: None,
        }
    }

    /// The scripted peer in the role of the listener: header exchange and open exchange.
    /// Returns the transport and the Open of the endpoint under test
    async fn peer_accept(
        mut io: DuplexStream,
        idle_time_out: Option<u32>,
        channel_max: u16,
    ) -> (Transport<DuplexStream, Frame>, Open) {
        let mut header = [0u8; 8];
        io.read_exact(&mut header).await.unwrap();
        assert_eq!(&header, HEADER);
        io.write_all(HEADER).await.unwrap();
        let mut transport = Transport::<DuplexStream, Frame>::bind(io, 65536, None);
        let open = match transport.next().await.unwrap().unwrap().body {
            FrameBody::Open(open) => open,
            other => panic!("expecting open, found {:?}", other),
        };
        transport
            .send(Frame::new(
                0u16,
                FrameBody::Open(peer_open(idle_time_out, channel_max)),
            ))
            .await
            .unwrap();
        (transport, open)
    }

    /// The scripted peer in the role of the client
    async fn peer_connect(
        mut io: DuplexStream,
        idle_time_out: Option<u32>,
        channel_max: u16,
    ) -> (Transport<DuplexStream, Frame>, Open) {
        io.write_all(HEADER).await.unwrap();
        let mut header = [0u8; 8];
        io.read_exact(&mut header).await.unwrap();
        assert_eq!(&header, HEADER);
        let mut transport = Transport::<DuplexStream, Frame>::bind(io, 65536, None);
        transport
            .send(Frame::new(
                0u16,
                FrameBody::Open(peer_open(idle_time_out, channel_max)),
            ))
            .await
            .unwrap();
        let open = match transport.next().await.unwrap().unwrap().body {
            FrameBody::Open(open) => open,
            other => panic!("expecting open, found {:?}", other),
        };
        (transport, open)
    }

    /// Reads frames until `end` and returns the time between two consecutive frames (the first
    /// one is measured from `start`) and the time between the last frame and `end`
    async fn record_gaps(
        transport: &mut Transport<DuplexStream, Frame>,
        start: Instant,
        end: Instant,
    ) -> Vec<Duration> {
        let mut last = start;
        let mut gaps = Vec::new();
        loop {
            match tokio::time::timeout_at(end, transport.next()).await {
                Ok(Some(Ok(_frame))) => {
                    let now = Instant::now();
                    gaps.push(now - last);
                    last = now;
                }
                Ok(other) => panic!("connection broke: {:?}", other),
                Err(_) => {
                    gaps.push(end - last);
                    break;
                }
            }
        }
        gaps
    }

    /// F1: the peer advertises idle-time-out = 1000 ms and then only listens. Every interval
    /// of 1000 ms has to contain a frame of the endpoint, ie. two consecutive frames are less
    /// than 1000 ms apart.
    #[tokio::test(start_paused = true)]
    async fn c17_f1_frames_are_less_than_the_peers_idle_time_out_apart() {
        let (client_io, peer_io) = tokio::io::duplex(4096);
        let peer = tokio::spawn(async move {
            let (mut transport, _open) = peer_accept(peer_io, Some(1000), 255).await;
            let start = Instant::now();
            let end = start + Duration::from_millis(10_500);
            record_gaps(&mut transport, start, end).await
        });
        let _handle = Connection::builder()
            .container_id("under-test")
            .open_with_stream(client_io)
            .await
            .unwrap();
        let gaps = peer.await.unwrap();
        println!("gaps between frames seen by the peer: {:?}", gaps);
        assert!(gaps.len() > 1, "no frame at all: {:?}", gaps);
        for gap in &gaps {
            assert!(
                *gap < Duration::from_millis(1000),
                "an interval of the peer's idle-time-out (1000 ms) passed without a frame: gaps = {:?}",
                gaps
            );
        }
    }

    /// F1, end to end: a listener of this crate with idle_time_out(1000) (it advertises 1000 and
    /// enforces 1000) and an idle client of this crate. The client has to keep the connection
    /// alive with empty frames.
    #[cfg(feature = "acceptor")]
    #[tokio::test(start_paused = true)]
    async fn c17_f1_idle_client_keeps_listener_with_idle_time_out_alive() {
        use crate::acceptor::ConnectionAcceptor;

        let (client_io, server_io) = tokio::io::duplex(4096);
        let acceptor = ConnectionAcceptor::builder()
            .container_id("listener")
            .idle_time_out(1000u32)
            .build();
        let accept = tokio::spawn(async move { acceptor.accept(server_io).await });
        let mut client = Connection::builder()
            .container_id("client")
            .open_with_stream(client_io)
            .await
            .unwrap();
        let mut listener = accept.await.unwrap().unwrap();

        let start = Instant::now();
        let outcome =
            tokio::time::timeout(Duration::from_millis(10_500), listener.on_close()).await;
        println!("after {:?}: {:?}", start.elapsed(), outcome);
        assert!(
            outcome.is_err(),
            "the listener gave up the connection to an idle but healthy client: {:?}",
            outcome
        );
        assert!(!client.is_closed());
        client.close().await.unwrap();
    }

}
