    // D3 demonstration (C15): a frame whose size field is 4..7 reaches the frame decoder with a body of
    // 0..3 bytes (the length-delimited codec only strips the 4-byte size). Decoding it must be an
    // error, not a panic of the connection engine task.
    #[test]
    fn d3_short_frame_body_is_an_error_not_a_panic() {
        for body in [&[][..], &[0x02][..], &[0x02, 0x00][..], &[0x02, 0x00, 0x00][..]] {
            let mut decoder = FrameDecoder {};
            let mut src = BytesMut::from(body);
            let r = std::panic::catch_unwind(std::panic::AssertUnwindSafe(|| decoder.decode(&mut src)));
            assert!(matches!(r, Ok(Err(_))), "body {:?}: expected Err, got a panic or Ok", body);
        }
    }
