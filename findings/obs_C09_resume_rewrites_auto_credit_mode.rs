// append-to: new module at end of fe2o3-amqp/src/link/receiver.rs
// run: c09_f4 --features acceptor

// ---------------------------------------------------------------------------------------------
// C09 hunt, finding 4 (self-contained module: scripted-peer rig + tests)
// ---------------------------------------------------------------------------------------------
#[cfg(test)]
#[allow(dead_code, unused_imports)]
mod c09_f4 {
    use std::marker::PhantomData;
    use std::time::Duration;

    use fe2o3_amqp_types::{
        definitions::{SenderSettleMode, DeliveryTag},
        messaging::{message::__private::Serializable, Message, Target},
        performatives::Transfer,
        primitives::Value,
    };
    use serde_amqp::to_vec;

    use super::*;
    use crate::endpoint::{InputHandle, LinkFlow, OutputHandle};
    use crate::link::state::{LinkFlowState, LinkFlowStateInner, LinkState};
    use crate::link::LinkRelay;

    /// What a session does for a receiving link: it owns a `LinkRelay::Receiver` that shares the
    /// flow state with the `Receiver`, applies incoming flows at once and forwards transfers
    /// over the link's mpsc channel. The peer is "scripted" by calling the relay directly, and
    /// the frames the receiver emits are read from `outgoing`.
    struct Rig {
        rx: ReceiverInner<ReceiverLink<Target>>,
        relay: LinkRelay<OutputHandle>,
        outgoing: mpsc::Receiver<LinkFrame>,
        _control: mpsc::Receiver<SessionControl>,
        next_id: u32,
    }

    fn rig(credit_mode: CreditMode, initial_delivery_count: u32) -> Rig {
        let (incoming_tx, incoming_rx) = mpsc::channel::<LinkFrame>(1024);
        let (outgoing_tx, outgoing_rx) = mpsc::channel::<LinkFrame>(1024);
        let (control_tx, control_rx) = mpsc::channel::<SessionControl>(16);
        let flow_state: ReceiverFlowState =
            Arc::new(LinkFlowState::receiver(LinkFlowStateInner {
                initial_delivery_count,
                delivery_count: initial_delivery_count,
                link_credit: 0,
                available: 0,
                drain: false,
                properties: None,
            }));
        let unsettled: ArcReceiverUnsettledMap = Arc::new(parking_lot::RwLock::new(None));
        let relay = LinkRelay::new_receiver(
            incoming_tx,
            flow_state.clone(),
            unsettled.clone(),
            ReceiverSettleMode::First,
        )
        .with_output_handle(OutputHandle(0));
        let link = ReceiverLink::<Target> {
            role: PhantomData,
            local_state: LinkState::Attached,
            name: "c09".to_string(),
            output_handle: Some(OutputHandle(0)),
            input_handle: Some(InputHandle(0)),
            snd_settle_mode: SenderSettleMode::Mixed,
            rcv_settle_mode: ReceiverSettleMode::First,
            source: None,
            target: None,
            max_message_size: 0,
            offered_capabilities: None,
            desired_capabilities: None,
            flow_state,
            unsettled,
            session_stop_reason: Arc::new(OnceLock::new()),
            verify_incoming_source: false,
            verify_incoming_target: false,
        };
        let rx = ReceiverInner {
            link,
            buffer_size: 1024,
            credit_mode,
            processed: Arc::new(AtomicU32::new(0)),
            auto_accept: false,
            session: control_tx,
            outgoing: outgoing_tx,
            incoming: incoming_rx,
            incomplete_transfer: None,
        };
        Rig {
            rx,
            relay,
            outgoing: outgoing_rx,
            _control: control_rx,
            next_id: 0,
        }
    }

    impl Rig {
        /// The scripted sender transfers one single-frame delivery
        async fn peer_transfer(&mut self, settled: bool) {
            let id = self.next_id;
            self.next_id += 1;
            let payload = to_vec(&Serializable(Message::from(Value::from(id)))).unwrap();
            let transfer = Transfer {
                handle: 0u32.into(),
                delivery_id: Some(id),
                delivery_tag: Some(DeliveryTag::from(id.to_be_bytes().to_vec())),
                message_format: Some(0),
                settled: Some(settled),
                more: false,
                rcv_settle_mode: None,
                state: None,
                resume: false,
                aborted: false,
                batchable: false,
            };
            self.relay
                .on_incoming_transfer(transfer, Payload::from(payload))
                .await
                .unwrap();
        }

        /// The scripted sender sends a flow; returns the echo (if any) the receiving link
        /// answers with
        async fn peer_flow(
            &mut self,
            delivery_count: u32,
            link_credit: u32,
            drain: bool,
            echo: bool,
        ) -> Option<LinkFlow> {
            let flow = LinkFlow {
                handle: 0u32.into(),
                delivery_count: Some(delivery_count),
                link_credit: Some(link_credit),
                available: Some(0),
                drain,
                echo,
                properties: None,
            };
            self.relay.on_incoming_flow(flow).await.unwrap()
        }

        /// Next flow frame emitted by the receiving link (dispositions are skipped)
        fn next_flow(&mut self) -> Option<LinkFlow> {
            while let Ok(frame) = self.outgoing.try_recv() {
                if let LinkFrame::Flow(flow) = frame {
                    return Some(flow);
                }
            }
            None
        }

        async fn recv(&mut self) -> Result<Delivery<Value>, RecvError> {
            tokio::time::timeout(Duration::from_secs(5), self.rx.recv::<Value>())
                .await
                .expect("recv timed out")
        }
    }


    // -----------------------------------------------------------------------------------------
    // End-to-end rig: a client `Receiver` attached over `tokio::io::duplex` to an in-process
    // listener whose link acceptor answers with a (credit respecting) fe2o3 `Sender`.
    // -----------------------------------------------------------------------------------------
    #[cfg(feature = "acceptor")]
    mod e2e {
        use std::time::Duration;

        use crate::acceptor::{
            ConnectionAcceptor, LinkAcceptor, LinkEndpoint, ListenerConnectionHandle,
            ListenerSessionHandle, SessionAcceptor,
        };
        use crate::connection::ConnectionHandle;
        use crate::link::delivery::Sendable;
        use crate::link::{CreditMode, Receiver, Sender};
        use crate::session::SessionHandle;
        use crate::{Connection, Session};

        pub(super) struct Pair {
            pub receiver: Receiver,
            pub sender: Sender,
            pub _client_connection: ConnectionHandle<()>,
            pub _client_session: SessionHandle<()>,
            pub _server_connection: ListenerConnectionHandle,
            pub _server_session: ListenerSessionHandle,
        }

        pub(super) async fn pair(credit_mode: CreditMode) -> Pair {
            let (client_io, server_io) = tokio::io::duplex(64 * 1024);
            let acceptor = ConnectionAcceptor::builder()
                .container_id("c09-listener")
                .build();
            let connection_task = tokio::spawn(async move { acceptor.accept(server_io).await });
            let mut client_connection = Connection::builder()
                .container_id("c09-client")
                .open_with_stream(client_io)
                .await
                .unwrap();
            let mut server_connection = connection_task.await.unwrap().unwrap();

            let session_acceptor = SessionAcceptor::new();
            let (server_session, client_session) = tokio::join!(
                session_acceptor.accept(&mut server_connection),
                Session::begin(&mut client_connection),
            );
            let mut server_session = server_session.unwrap();
            let mut client_session = client_session.unwrap();

            let link_acceptor = LinkAcceptor::builder().build();
            let (endpoint, receiver) = tokio::join!(
                link_acceptor.accept(&mut server_session),
                Receiver::builder()
                    .name("c09-link")
                    .source("q")
                    .credit_mode(credit_mode)
                    .attach(&mut client_session),
            );
            let receiver = receiver.unwrap();
            let sender = match endpoint.unwrap() {
                LinkEndpoint::Sender(sender) => sender,
                LinkEndpoint::Receiver(_) => panic!("expected a sender"),
            };
            Pair {
                receiver,
                sender,
                _client_connection: client_connection,
                _client_session: client_session,
                _server_connection: server_connection,
                _server_session: server_session,
            }
        }

        /// Sends one pre-settled message; `Err` if the sender had no credit for a second
        pub(super) async fn send_settled(sender: &mut Sender, i: u32) -> Result<(), ()> {
            let sendable = Sendable::builder().message(i).settled(true).build();
            match tokio::time::timeout(Duration::from_secs(1), sender.send(sendable)).await {
                Ok(result) => {
                    result.unwrap();
                    Ok(())
                }
                Err(_) => Err(()),
            }
        }

        fn receiver_state(receiver: &Receiver) -> (u32, u32) {
            let guard = receiver.inner.link.flow_state.lock.read();
            (guard.delivery_count, guard.link_credit)
        }

        fn sender_state(sender: &Sender) -> (u32, u32) {
            let guard = sender.inner.link.flow_state.state().lock.read();
            (guard.delivery_count, guard.link_credit)
        }


        /// F4: Auto(4). Four pre-settled deliveries are received, the application has disposed
        /// of one of them so far (processed 1 < 4/2, link-credit 0) when it detaches the link
        /// and resumes it. After the resume the application disposes of every delivery at once,
        /// yet no credit is ever issued again.
        #[tokio::test]
        async fn c09_f4_e2e_resume_with_zero_credit_turns_auto_n_into_auto_zero() {
            let n = 4u32;
            let mut p = pair(CreditMode::Auto(n)).await;
            let mut first = None;
            for i in 0..n {
                send_settled(&mut p.sender, i).await.unwrap();
                let delivery = p.receiver.recv::<u32>().await.unwrap();
                first.get_or_insert(delivery);
            }
            p.receiver.accept(first.as_ref().unwrap()).await.unwrap();
            assert_eq!(receiver_state(&p.receiver).1, 0);

            let Pair {
                receiver,
                mut sender,
                _server_session: mut server_session,
                _client_connection,
                _client_session,
                _server_connection,
            } = p;
            // listener side answers the detach
            let sender_task = tokio::spawn(async move {
                let _ = sender.on_detach().await;
                let _ = sender.detach().await;
            });
            let detached = receiver.detach().await.map_err(|(_, e)| e).unwrap();
            sender_task.await.unwrap();

            let link_acceptor = LinkAcceptor::builder().build();
            let (endpoint, resumed) =
                tokio::join!(link_acceptor.accept(&mut server_session), detached.resume());
            let mut receiver = resumed.map_err(|e| e.kind).unwrap().into_receiver();
            let mut sender = match endpoint.unwrap() {
                LinkEndpoint::Sender(sender) => sender,
                LinkEndpoint::Receiver(_) => panic!("expected a sender"),
            };

            let mut delivered = 0;
            for i in 0..(3 * n) {
                if send_settled(&mut sender, i).await.is_err() {
                    break;
                }
                let delivery = receiver.recv::<u32>().await.unwrap();
                receiver.accept(&delivery).await.unwrap();
                delivered += 1;
            }
            assert_eq!(
                delivered,
                3 * n,
                "configured Auto({n}); after detach + resume the credit mode is {:?} and the \
                 stream stalled after {delivered} deliveries (receiver link-credit {}, sender \
                 link-credit {})",
                receiver.credit_mode(),
                receiver_state(&receiver).1,
                sender_state(&sender).1,
            );
        }

    }
}
