// append-to: new module at end of fe2o3-amqp/src/connection/engine.rs
// run: c12_f5   (cargo test -p fe2o3-amqp --offline --lib c12_f5 ; no cargo features needed)

#[cfg(test)]
#[allow(dead_code, unused_imports)]
mod c12_finding_5 {
    //! Scripted-peer tests of the connection open/close state machine (property C12)
    use std::time::Duration;

    use fe2o3_amqp_types::definitions::{self, AmqpError};
    use fe2o3_amqp_types::performatives::{Begin, Close, Flow, Open};
    use futures_util::{SinkExt, StreamExt};
    use tokio::io::{AsyncReadExt, AsyncWriteExt, DuplexStream};

    use crate::connection::{Connection, ConnectionHandle, Error, OpenError, TryCloseError};
    use crate::frames::amqp::{Frame, FrameBody};
    use crate::session::Session;
    use crate::transport::Transport;

    const HEADER: &[u8; 8] = b"AMQP\x00\x01\x00\x00";

    struct Peer {
        t: Transport<DuplexStream, Frame>,
    }

    impl Peer {
        /// Reads the client's protocol header, answers with the same header
        async fn header_exchange(mut io: DuplexStream) -> Self {
            let mut buf = [0u8; 8];
            io.read_exact(&mut buf).await.unwrap();
            assert_eq!(&buf, HEADER, "the protocol header must come first");
            io.write_all(HEADER).await.unwrap();
            Peer {
                t: Transport::bind(io, 64 * 1024, None),
            }
        }

        /// Header exchange, then read the client's Open and answer with an Open
        async fn open(io: DuplexStream) -> Self {
            let mut peer = Self::header_exchange(io).await;
            let frame = peer.recv().await.expect("client Open");
            assert!(matches!(frame.body, FrameBody::Open(_)));
            peer.send(0, FrameBody::Open(peer_open())).await;
            peer
        }

        async fn send(&mut self, channel: u16, body: FrameBody) {
            self.t.send(Frame::new(channel, body)).await.unwrap();
        }

        async fn recv(&mut self) -> Option<Frame> {
            self.t.next().await.map(|r| r.unwrap())
        }
    }

    fn peer_open() -> Open {
        Open {
            container_id: "peer".to_string(),
            hostname: None,
            max_frame_size: Default::default(),
            channel_max: Default::default(),
            idle_time_out: None,
            outgoing_locales: None,
            incoming_locales: None,
            offered_capabilities: None,
            desired_capabilities: None,
            properties: None,
        }
    }

    fn peer_begin(remote_channel: Option<u16>) -> Begin {
        Begin {
            remote_channel,
            next_outgoing_id: 0,
            incoming_window: 2048,
            outgoing_window: 2048,
            handle_max: Default::default(),
            offered_capabilities: None,
            desired_capabilities: None,
            properties: None,
        }
    }

    fn session_flow() -> Flow {
        Flow {
            next_incoming_id: Some(0),
            incoming_window: 2048,
            next_outgoing_id: 0,
            outgoing_window: 2048,
            handle: None,
            delivery_count: None,
            link_credit: None,
            available: None,
            drain: false,
            echo: false,
            properties: None,
        }
    }

    fn peer_error() -> definitions::Error {
        definitions::Error::new(
            AmqpError::NotAllowed,
            Some("go away".to_string()),
            None,
        )
    }

    async fn client_open(io: DuplexStream) -> Result<ConnectionHandle<()>, OpenError> {
        Connection::builder()
            .container_id("client")
            .open_with_stream(io)
            .await
    }

    /// Finding 5a: polling `try_close` (its documented use) until the peer has answered.
    /// Exactly one Close must be sent and the clean close must be reported as clean.
    #[tokio::test]
    async fn c12_f5a_try_close_polled_twice_reports_clean_close() {
        let (client_io, peer_io) = tokio::io::duplex(64 * 1024);
        let (go_tx, go_rx) = tokio::sync::oneshot::channel::<()>();

        let peer = tokio::spawn(async move {
            let mut peer = Peer::open(peer_io).await;
            let frame = peer.recv().await.expect("client Close");
            match frame.body {
                FrameBody::Close(close) => assert!(close.error.is_none()),
                other => panic!("expecting Close, found {:?}", other),
            }
            // answer late
            go_rx.await.unwrap();
            peer.send(0, FrameBody::Close(Close { error: None })).await;
            let mut extra = Vec::new();
            while let Some(frame) = peer.recv().await {
                extra.push(frame);
            }
            extra
        });

        let mut connection = client_open(client_io).await.unwrap();
        assert!(matches!(
            connection.try_close(),
            Err(TryCloseError::RemoteCloseNotReceived)
        ));
        tokio::time::sleep(Duration::from_millis(50)).await;
        assert!(matches!(
            connection.try_close(),
            Err(TryCloseError::RemoteCloseNotReceived)
        ));
        tokio::time::sleep(Duration::from_millis(50)).await;
        go_tx.send(()).unwrap();

        let result = tokio::time::timeout(Duration::from_secs(5), connection.on_close())
            .await
            .expect("on_close must not hang");
        drop(connection);
        let extra = peer.await.unwrap();
        assert!(extra.is_empty(), "frames after the Close: {:?}", extra);
        assert!(
            result.is_ok(),
            "a clean close must be reported as clean, found {:?}",
            result
        );
    }

    /// Finding 5b: same with `close()`: the peer is silent, the caller gives up waiting
    /// (timeout drops the `close()` future), calls `close()` again, then the peer answers.
    #[tokio::test]
    async fn c12_f5b_close_retried_after_timeout_reports_clean_close() {
        let (client_io, peer_io) = tokio::io::duplex(64 * 1024);
        let (go_tx, go_rx) = tokio::sync::oneshot::channel::<()>();

        let peer = tokio::spawn(async move {
            let mut peer = Peer::open(peer_io).await;
            let frame = peer.recv().await.expect("client Close");
            assert!(matches!(frame.body, FrameBody::Close(_)));
            go_rx.await.unwrap();
            peer.send(0, FrameBody::Close(Close { error: None })).await;
            let mut extra = Vec::new();
            while let Some(frame) = peer.recv().await {
                extra.push(frame);
            }
            extra
        });

        let mut connection = client_open(client_io).await.unwrap();
        assert!(
            tokio::time::timeout(Duration::from_millis(50), connection.close())
                .await
                .is_err(),
            "the peer is silent"
        );
        let second = tokio::spawn(async move {
            tokio::time::sleep(Duration::from_millis(50)).await;
            go_tx.send(()).unwrap();
        });
        let result = tokio::time::timeout(Duration::from_secs(5), connection.close())
            .await
            .expect("close must not hang");
        second.await.unwrap();
        drop(connection);
        let extra = peer.await.unwrap();
        assert!(extra.is_empty(), "frames after the Close: {:?}", extra);
        assert!(
            result.is_ok(),
            "a clean close must be reported as clean, found {:?}",
            result
        );
    }
}
