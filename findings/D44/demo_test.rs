// append-to: new module at end of fe2o3-amqp/src/transaction/session.rs
// run: hunt_c18_f1 --features acceptor,transaction
#[cfg(test)]
#[allow(unused_imports, dead_code)]
mod hunt_c18_f1 {
    use std::time::Duration;

    use fe2o3_amqp_types::primitives::Value;
    use tokio::time::timeout;

    use crate::{
        acceptor::{
            ConnectionAcceptor, LinkAcceptor, LinkEndpoint, ListenerConnectionHandle,
            ListenerSessionHandle, SessionAcceptor,
        },
        connection::{Connection, ConnectionHandle},
        session::SessionHandle,
        transaction::{
            coordinator::ControlLinkAcceptor, Controller, Transaction, TransactionDischarge,
            TransactionPosting,
        },
        Receiver, Sender, Session,
    };

    const T: Duration = Duration::from_secs(5);

    async fn setup() -> (
        ConnectionHandle<()>,
        SessionHandle<()>,
        ListenerConnectionHandle,
        ListenerSessionHandle,
    ) {
        let (client_io, server_io) = tokio::io::duplex(64 * 1024);
        let acceptor = ConnectionAcceptor::builder()
            .container_id("hunt-listener")
            .build();
        let connection_task = tokio::spawn(async move { acceptor.accept(server_io).await });
        let mut client_connection = Connection::builder()
            .container_id("hunt-client")
            .open_with_stream(client_io)
            .await
            .unwrap();
        let mut server_connection = connection_task.await.unwrap().unwrap();
        let session_acceptor = SessionAcceptor::builder()
            .control_link_acceptor(ControlLinkAcceptor::default())
            .build();
        let (session_result, begin_result) = tokio::join!(
            session_acceptor.accept(&mut server_connection),
            Session::begin(&mut client_connection),
        );
        (
            client_connection,
            begin_result.unwrap(),
            server_connection,
            session_result.unwrap(),
        )
    }

    /// Attach a client sender and accept the matching listener receiver
    async fn attach_pair(
        client_session: &mut SessionHandle<()>,
        listener_session: &mut ListenerSessionHandle,
        name: &str,
        addr: &str,
    ) -> (Sender, Receiver) {
        let link_acceptor = LinkAcceptor::new();
        let (snd, rcv) = tokio::join!(
            Sender::attach(client_session, name.to_string(), addr.to_string()),
            link_acceptor.accept(listener_session),
        );
        let rcv = match rcv.unwrap() {
            LinkEndpoint::Receiver(r) => r,
            LinkEndpoint::Sender(_) => panic!("expected receiver"),
        };
        (snd.unwrap(), rcv)
    }

    /// Finding 1a: the posting link is closed by the controller after the post was acknowledged
    /// and before the commit.
    #[tokio::test]
    async fn commit_after_posting_link_closed_loses_message() {
        let (_cc, mut cs, _lc, mut ls) = setup().await;
        let (mut sender, mut receiver) = attach_pair(&mut cs, &mut ls, "l1", "q1").await;
        let controller = Controller::attach(&mut cs, "ctrl").await.unwrap();

        let txn = Transaction::declare(&controller, None).await.unwrap();
        let outcome = txn.post(&mut sender, "m1").await.unwrap();
        assert!(matches!(
            outcome,
            fe2o3_amqp_types::messaging::Outcome::Accepted(_)
        ));

        // listener application answers the close of the posting link, but keeps the receiver
        let lst = tokio::spawn(async move {
            let mut got = Vec::new();
            for _ in 0..4 {
                match timeout(Duration::from_millis(500), receiver.recv::<Value>()).await {
                    Ok(Ok(d)) => got.push(d.body().clone()),
                    Ok(Err(_e)) => {
                        // remote closed: complete the handshake, nothing more can be received
                        let _ = receiver.close().await;
                        break;
                    }
                    Err(_) => {}
                }
            }
            got
        });
        timeout(T, sender.close()).await.unwrap().unwrap();

        let commit = timeout(T, txn.commit()).await.unwrap();
        let got = lst.await.unwrap();
        // Property: after a *successful* commit all posted messages are delivered.
        if commit.is_ok() {
            assert_eq!(
                got,
                vec![Value::from("m1")],
                "commit was reported successful but the posted message was never delivered"
            );
        }
    }

    /// Finding 1b: as above, but the controller re-uses the freed handle for a link to a different node
    #[tokio::test]
    async fn commit_after_handle_reuse_misdelivers() {
        let (_cc, mut cs, _lc, mut ls) = setup().await;
        let (mut sender, mut receiver) = attach_pair(&mut cs, &mut ls, "l1", "q1").await;
        let controller = Controller::attach(&mut cs, "ctrl").await.unwrap();

        let txn = Transaction::declare(&controller, None).await.unwrap();
        txn.post(&mut sender, "for-q1").await.unwrap();

        let lst = tokio::spawn(async move {
            let r = receiver.recv::<Value>().await;
            assert!(r.is_err());
            let _ = receiver.close().await;
        });
        timeout(T, sender.close()).await.unwrap().unwrap();
        lst.await.unwrap();

        // new link to another node
        let (_sender2, mut receiver2) = attach_pair(&mut cs, &mut ls, "l2", "q2").await;

        timeout(T, txn.commit()).await.unwrap().unwrap();
        let r = timeout(Duration::from_millis(500), receiver2.recv::<Value>()).await;
        assert!(
            r.is_err(),
            "message posted to q1 on link l1 was delivered to the application of link l2/q2: {:?}",
            r.map(|r| r.map(|d| d.body().clone()))
        );
    }
}
