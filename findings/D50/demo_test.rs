// append-to: new module at end of fe2o3-amqp/src/lib.rs
// run: c13_f4 --features acceptor

#[cfg(all(test, feature = "acceptor"))]
mod hunt_c13_finding_4 {
    mod h {
    // ---------------------------------------------------------------------------------------
    // Scripted AMQP peer speaking real frames over `tokio::io::duplex`
    // ---------------------------------------------------------------------------------------
    #![allow(dead_code, unused_imports)]
    use std::time::Duration;

    use fe2o3_amqp_types::{
        definitions::{self, AmqpError, Handle, ReceiverSettleMode, Role},
        messaging::{Accepted, DeliveryState},
        performatives::{Attach, Begin, Detach, Disposition, End, Flow, Open, Transfer},
    };
    use futures_util::{SinkExt, StreamExt};
    use tokio::io::{AsyncReadExt, AsyncWriteExt, DuplexStream};

    use crate::{
        connection::{Connection, ConnectionHandle},
        frames::amqp::{Frame, FrameBody},
        session::{Session, SessionHandle},
        transport::Transport,
    };

    pub(super) const T: Duration = Duration::from_secs(5);

    pub(super) struct Peer {
        pub t: Transport<DuplexStream, Frame>,
        /// every non-empty frame the library wrote, in order
        pub trace: Vec<String>,
    }

    impl Peer {
        pub async fn accept(mut io: DuplexStream) -> Self {
            let mut hdr = [0u8; 8];
            io.read_exact(&mut hdr).await.unwrap();
            assert_eq!(&hdr, b"AMQP\x00\x01\x00\x00");
            io.write_all(&hdr).await.unwrap();
            let t = Transport::<_, Frame>::bind(io, 1 << 20, None);
            let mut peer = Peer { t, trace: Vec::new() };
            match peer.recv().await {
                (0, FrameBody::Open(_)) => {}
                other => panic!("expected open, got {:?}", other),
            }
            peer.send(
                0,
                FrameBody::Open(Open {
                    container_id: "scripted-peer".into(),
                    hostname: None,
                    max_frame_size: Default::default(),
                    channel_max: Default::default(),
                    idle_time_out: None,
                    outgoing_locales: None,
                    incoming_locales: None,
                    offered_capabilities: None,
                    desired_capabilities: None,
                    properties: None,
                }),
            )
            .await;
            peer
        }


        /// the scripted peer acts as the connecting client towards a listener of the library
        pub async fn connect(mut io: DuplexStream) -> Self {
            io.write_all(b"AMQP\x00\x01\x00\x00").await.unwrap();
            let mut hdr = [0u8; 8];
            io.read_exact(&mut hdr).await.unwrap();
            assert_eq!(&hdr, b"AMQP\x00\x01\x00\x00");
            let t = Transport::<_, Frame>::bind(io, 1 << 20, None);
            let mut peer = Peer { t, trace: Vec::new() };
            peer.send(
                0,
                FrameBody::Open(Open {
                    container_id: "scripted-client".into(),
                    hostname: None,
                    max_frame_size: Default::default(),
                    channel_max: Default::default(),
                    idle_time_out: None,
                    outgoing_locales: None,
                    incoming_locales: None,
                    offered_capabilities: None,
                    desired_capabilities: None,
                    properties: None,
                }),
            )
            .await;
            match peer.recv().await {
                (0, FrameBody::Open(_)) => {}
                other => panic!("expected open, got {:?}", other),
            }
            peer
        }

        pub async fn send_begin(&mut self, ch: u16) {
            self.send(
                ch,
                FrameBody::Begin(Begin {
                    remote_channel: None,
                    next_outgoing_id: 0,
                    incoming_window: 2048,
                    outgoing_window: 2048,
                    handle_max: Default::default(),
                    offered_capabilities: None,
                    desired_capabilities: None,
                    properties: None,
                }),
            )
            .await;
        }

        pub async fn send(&mut self, channel: u16, body: FrameBody) {
            self.t.send(Frame::new(channel, body)).await.unwrap();
        }

        /// next non-empty frame, panics after `T`
        pub async fn recv(&mut self) -> (u16, FrameBody) {
            match self.try_recv(T).await {
                Some(f) => f,
                None => panic!("peer: no frame within {:?}; trace so far {:#?}", T, self.trace),
            }
        }

        /// next non-empty frame or `None` if nothing arrives within `d` / stream closed
        pub async fn try_recv(&mut self, d: Duration) -> Option<(u16, FrameBody)> {
            loop {
                match tokio::time::timeout(d, self.t.next()).await {
                    Err(_) => return None,
                    Ok(None) => return None,
                    Ok(Some(Err(e))) => panic!("peer transport error {:?}", e),
                    Ok(Some(Ok(frame))) => {
                        let channel = frame.channel();
                        let body = frame.into_body();
                        if matches!(body, FrameBody::Empty) {
                            continue;
                        }
                        self.trace.push(format!("ch{} {:?}", channel, body));
                        return Some((channel, body));
                    }
                }
            }
        }

        /// answers the library's begin on `channel` (the peer uses the same channel number)
        pub async fn expect_begin_and_answer(&mut self) -> u16 {
            self.expect_begin_and_answer_with_window(2048).await
        }

        pub async fn expect_begin_and_answer_with_window(&mut self, incoming_window: u32) -> u16 {
            match self.recv().await {
                (ch, FrameBody::Begin(_)) => {
                    self.send(
                        ch,
                        FrameBody::Begin(Begin {
                            remote_channel: Some(ch),
                            next_outgoing_id: 0,
                            incoming_window,
                            outgoing_window: 2048,
                            handle_max: Default::default(),
                            offered_capabilities: None,
                            desired_capabilities: None,
                            properties: None,
                        }),
                    )
                    .await;
                    ch
                }
                other => panic!("expected begin, got {:?}", other),
            }
        }

        /// waits for the library's attach and answers it with the mirrored attach using `peer_handle`
        pub async fn expect_attach_and_answer(&mut self, peer_handle: u32) -> Attach {
            match self.recv().await {
                (ch, FrameBody::Attach(attach)) => {
                    let mut reply = attach.clone();
                    reply.handle = Handle(peer_handle);
                    reply.role = match attach.role {
                        Role::Sender => Role::Receiver,
                        Role::Receiver => Role::Sender,
                    };
                    reply.initial_delivery_count = match reply.role {
                        Role::Sender => Some(0),
                        Role::Receiver => None,
                    };
                    self.send(ch, FrameBody::Attach(reply)).await;
                    attach
                }
                other => panic!("expected attach, got {:?}", other),
            }
        }

        /// session-only flow (re)opening the peer's incoming window
        pub async fn send_session_flow(&mut self, ch: u16, next_incoming_id: u32, incoming_window: u32) {
            self.send(
                ch,
                FrameBody::Flow(Flow {
                    next_incoming_id: Some(next_incoming_id),
                    incoming_window,
                    next_outgoing_id: 0,
                    outgoing_window: 2048,
                    handle: None,
                    delivery_count: None,
                    link_credit: None,
                    available: None,
                    drain: false,
                    echo: false,
                    properties: None,
                }),
            )
            .await;
        }

        pub async fn send_credit(&mut self, ch: u16, peer_handle: u32, credit: u32) {
            self.send(
                ch,
                FrameBody::Flow(Flow {
                    next_incoming_id: Some(0),
                    incoming_window: 2048,
                    next_outgoing_id: 0,
                    outgoing_window: 2048,
                    handle: Some(Handle(peer_handle)),
                    delivery_count: Some(0),
                    link_credit: Some(credit),
                    available: None,
                    drain: false,
                    echo: false,
                    properties: None,
                }),
            )
            .await;
        }

        pub async fn send_transfer(&mut self, ch: u16, peer_handle: u32, delivery_id: u32) {
            use serde::Serialize;
            let message = fe2o3_amqp_types::messaging::Message::builder()
                .value(String::from("hello"))
                .build();
            let mut buf = Vec::new();
            let mut ser = serde_amqp::ser::Serializer::new(&mut buf);
            fe2o3_amqp_types::messaging::message::__private::Serializable(message)
                .serialize(&mut ser)
                .unwrap();
            self.send(
                ch,
                FrameBody::Transfer {
                    performative: Transfer {
                        handle: Handle(peer_handle),
                        delivery_id: Some(delivery_id),
                        delivery_tag: Some(definitions::DeliveryTag::from(
                            delivery_id.to_be_bytes().to_vec(),
                        )),
                        message_format: Some(0),
                        settled: Some(false),
                        more: false,
                        rcv_settle_mode: None,
                        state: None,
                        resume: false,
                        aborted: false,
                        batchable: false,
                    },
                    payload: bytes::Bytes::from(buf),
                },
            )
            .await;
        }
    }

    pub(super) fn some_error() -> definitions::Error {
        definitions::Error::new(
            AmqpError::ResourceLimitExceeded,
            Some("scripted peer error".to_string()),
            None,
        )
    }

    /// client connection of the library opened against a scripted peer
    pub(super) async fn open_pair() -> (ConnectionHandle<()>, Peer) {
        let (client_io, peer_io) = tokio::io::duplex(1 << 16);
        let (conn, peer) = tokio::join!(
            async {
                Connection::builder()
                    .container_id("client")
                    .open_with_stream(client_io)
                    .await
                    .expect("open")
            },
            Peer::accept(peer_io)
        );
        (conn, peer)
    }

    pub(super) async fn begin_pair(conn: &mut ConnectionHandle<()>, peer: &mut Peer) -> (SessionHandle<()>, u16) {
        let (session, ch) = tokio::join!(async { Session::begin(conn).await.expect("begin") }, peer.expect_begin_and_answer());
        (session, ch)
    }
    }

    use self::h::*;
    use crate::acceptor::{ConnectionAcceptor, LinkAcceptor, SessionAcceptor};
    use crate::frames::amqp::FrameBody;
    use fe2o3_amqp_types::definitions::{Handle, Role};
    use fe2o3_amqp_types::messaging::{Source, Target};
    use fe2o3_amqp_types::performatives::{Attach, Detach};
    use std::time::Duration;

    /// History (listener side): the peer pipelines attach(handle 0) and detach(handle 0, closed) before
    /// the application has called LinkAcceptor::accept ; then the application accepts.
    /// Property: a peer's detach is answered in kind ; ... never tears down the enclosing session.
    #[tokio::test]
    async fn c13_f4_listener_attach_then_detach_before_accept() {
        let (listener_io, peer_io) = tokio::io::duplex(1 << 16);
        let acceptor = ConnectionAcceptor::builder().container_id("listener").build();
        let (conn, mut peer) = tokio::join!(
            async { acceptor.accept(listener_io).await.expect("accept") },
            Peer::connect(peer_io)
        );
        let mut conn = conn;
        peer.send_begin(0).await;
        let mut session = SessionAcceptor::new().accept(&mut conn).await.expect("session");
        match peer.recv().await {
            (_, FrameBody::Begin(_)) => {}
            o => panic!("{:?}", o),
        }

        let attach = Attach {
            name: "peer-sender".into(),
            handle: Handle(0),
            role: Role::Sender,
            snd_settle_mode: Default::default(),
            rcv_settle_mode: Default::default(),
            source: Some(Box::new(Source::builder().address("s").build())),
            target: Some(Box::new(Target::builder().address("q").build().into())),
            unsettled: None,
            incomplete_unsettled: false,
            initial_delivery_count: Some(0),
            max_message_size: None,
            offered_capabilities: None,
            desired_capabilities: None,
            properties: None,
        };
        peer.send(0, FrameBody::Attach(attach)).await;
        peer.send(0, FrameBody::Detach(Detach { handle: Handle(0), closed: true, error: None })).await;
        tokio::time::sleep(Duration::from_millis(100)).await;

        let link = tokio::time::timeout(Duration::from_secs(1), LinkAcceptor::new().accept(&mut session)).await;
        println!("LinkAcceptor::accept -> {:?}", link.as_ref().map(|r| r.as_ref().map(|_| "link")));
        let mut frames = Vec::new();
        while let Some((_, f)) = peer.try_recv(Duration::from_millis(300)).await {
            frames.push(f);
        }
        println!("frames written by the listener: {:?}", frames);
        assert!(
            !frames.iter().any(|f| matches!(f, FrameBody::End(_))),
            "the listener ended the session because of attach+detach"
        );
        assert!(
            frames.iter().any(|f| matches!(f, FrameBody::Detach(Detach { closed: true, .. }))),
            "the peer's closing detach was never answered with a closing detach"
        );
    }
}
