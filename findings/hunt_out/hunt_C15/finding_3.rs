// append-to: new module at end of fe2o3-amqp/src/connection/engine.rs
// run: hunt_c15_f3

#[cfg(test)]
mod hunt_c15_f3 {
    #![allow(dead_code, unused_imports)]
    //! A scripted hostile peer talking raw frames to an unmodified endpoint over
    //! `tokio::io::duplex`. Virtual time (`start_paused`): the runtime advances the clock only
    //! when every task is idle, so a time-out of one hour that fires means that nothing in the
    //! process could make progress any more.
    use std::time::Duration;

    use bytes::Bytes;
    use fe2o3_amqp_types::{
        definitions::{ReceiverSettleMode, Role, SenderSettleMode},
        messaging::{Source, Target},
        performatives::{Attach, Begin, Close, Detach, End, Flow, Open, Transfer},
    };
    use futures_util::{SinkExt, StreamExt};
    use tokio::io::{AsyncReadExt, AsyncWriteExt, DuplexStream};

    use crate::{
        connection::Connection,
        frames::amqp::{Frame, FrameBody},
        link::receiver::CreditMode,
        session::Session,
        transport::Transport,
        Receiver,
    };

    type Peer = Transport<DuplexStream, Frame>;

    fn peer_open_frame() -> Frame {
        let open = Open {
            container_id: "hostile-peer".into(),
            hostname: None,
            max_frame_size: (256 * 1024).into(),
            channel_max: 255.into(),
            idle_time_out: None,
            outgoing_locales: None,
            incoming_locales: None,
            offered_capabilities: None,
            desired_capabilities: None,
            properties: None,
        };
        Frame::new(0u16, FrameBody::Open(open))
    }

    /// Header and Open exchange of the scripted peer when it plays the server
    async fn peer_open(mut io: DuplexStream) -> Peer {
        let mut header = [0u8; 8];
        io.read_exact(&mut header).await.unwrap();
        io.write_all(b"AMQP\x00\x01\x00\x00").await.unwrap();
        let mut peer = Transport::<_, Frame>::bind(io, 256 * 1024, None);
        match peer.next().await.unwrap().unwrap().body {
            FrameBody::Open(_) => {}
            other => panic!("expecting Open, found {:?}", other),
        }
        peer.send(peer_open_frame()).await.unwrap();
        peer
    }

    fn peer_begin_frame(channel: u16, remote_channel: Option<u16>) -> Frame {
        let begin = Begin {
            remote_channel,
            next_outgoing_id: 0,
            incoming_window: u32::MAX,
            outgoing_window: u32::MAX,
            handle_max: u32::MAX.into(),
            offered_capabilities: None,
            desired_capabilities: None,
            properties: None,
        };
        Frame::new(channel, FrameBody::Begin(begin))
    }

    /// Answers the Begin the endpoint sends on `channel`
    async fn peer_begin(peer: &mut Peer, channel: u16) {
        loop {
            let frame = peer.next().await.unwrap().unwrap();
            if let FrameBody::Begin(_) = frame.body {
                assert_eq!(frame.channel, channel);
                break;
            }
        }
        peer.send(peer_begin_frame(channel, Some(channel)))
            .await
            .unwrap();
    }

    /// Answers the Attach of a receiving link of the endpoint (the peer is the sender)
    async fn peer_attach_sender(peer: &mut Peer, channel: u16, handle: u32) {
        let attach = loop {
            let frame = peer.next().await.unwrap().unwrap();
            if let FrameBody::Attach(attach) = frame.body {
                break attach;
            }
        };
        let attach = Attach {
            name: attach.name,
            handle: handle.into(),
            role: Role::Sender,
            snd_settle_mode: SenderSettleMode::Mixed,
            rcv_settle_mode: ReceiverSettleMode::First,
            source: Some(Box::new(Source::builder().address("q").build())),
            target: Some(Box::new(Target::builder().address("q").build().into())),
            unsettled: None,
            incomplete_unsettled: false,
            initial_delivery_count: Some(0),
            max_message_size: None,
            offered_capabilities: None,
            desired_capabilities: None,
            properties: None,
        };
        peer.send(Frame::new(channel, FrameBody::Attach(attach)))
            .await
            .unwrap();
    }

    /// Waits for the first link flow (the credit) of the endpoint
    async fn peer_wait_for_flow(peer: &mut Peer) {
        loop {
            let frame = peer.next().await.unwrap().unwrap();
            if let FrameBody::Flow(_) = frame.body {
                break;
            }
        }
    }

    fn small_transfer(channel: u16, handle: u32, id: u32) -> Frame {
        let performative = Transfer {
            handle: handle.into(),
            delivery_id: Some(id),
            delivery_tag: Some(id.to_be_bytes().to_vec().into()),
            message_format: Some(0),
            settled: Some(true),
            more: false,
            rcv_settle_mode: None,
            state: None,
            resume: false,
            aborted: false,
            batchable: false,
        };
        // amqp-value section holding `true`
        let payload = Bytes::from_static(&[0x00, 0x53, 0x77, 0x41]);
        Frame::new(
            channel,
            FrameBody::Transfer {
                performative,
                payload,
            },
        )
    }

    fn flow_frame(channel: u16, handle: Option<u32>, echo: bool) -> Frame {
        let flow = Flow {
            next_incoming_id: Some(0),
            incoming_window: u32::MAX,
            next_outgoing_id: 0,
            outgoing_window: u32::MAX,
            handle: handle.map(Into::into),
            delivery_count: handle.map(|_| 0),
            link_credit: None,
            available: handle.map(|_| 0),
            drain: false,
            echo,
            properties: None,
        };
        Frame::new(channel, FrameBody::Flow(flow))
    }

    /// After its misbehaviour the peer is perfectly cooperative: it reads everything and
    /// answers every Detach, End and Close
    async fn peer_cooperate(mut peer: Peer) {
        while let Some(Ok(frame)) = peer.next().await {
            let channel = frame.channel;
            let answer = match frame.body {
                FrameBody::Detach(detach) => FrameBody::Detach(Detach {
                    handle: detach.handle,
                    closed: detach.closed,
                    error: None,
                }),
                FrameBody::End(_) => FrameBody::End(End { error: None }),
                FrameBody::Close(_) => {
                    let _ = peer
                        .send(Frame::new(0u16, FrameBody::Close(Close { error: None })))
                        .await;
                    break;
                }
                _ => continue,
            };
            if peer.send(Frame::new(channel, answer)).await.is_err() {
                break;
            }
        }
    }

    /// The peer keeps the connection alive with empty frames and reads everything, but it never
    /// answers an End or a Close
    async fn peer_never_answers(mut peer: Peer) {
        loop {
            tokio::select! {
                frame = peer.next() => match frame {
                    Some(Ok(_)) => {}
                    _ => break,
                },
                _ = tokio::time::sleep(Duration::from_millis(500)) => {
                    if peer.send(Frame::empty()).await.is_err() {
                        break;
                    }
                }
            }
        }
    }

    /// One delivery in many transfer frames: the first frame with the section header, `bulk`
    /// frames of 200 kB, then `tiny` continuation frames with one octet of payload each, then
    /// the last frame. If `with_state` is set every tiny frame carries the delivery state
    /// `received(section-number, section-offset)`, which a sender may put on any transfer.
    ///
    /// Returns the wall clock time `recv()` needed for the delivery, all frames of which were
    /// already waiting in the buffer of the link.
    async fn reassemble(bulk: usize, tiny: usize, with_state: bool) -> Duration {
        use fe2o3_amqp_types::messaging::{DeliveryState, Received};

        let (client_io, peer_io) = tokio::io::duplex(64 * 1024 * 1024);
        let peer = tokio::spawn(async move {
            let mut peer = peer_open(peer_io).await;
            peer_begin(&mut peer, 0).await;
            peer_attach_sender(&mut peer, 0, 0).await;
            peer_wait_for_flow(&mut peer).await;

            let mut performative = Transfer {
                handle: 0.into(),
                delivery_id: Some(0),
                delivery_tag: Some(vec![0u8, 0, 0, 1].into()),
                message_format: Some(0),
                settled: Some(true),
                more: true,
                rcv_settle_mode: None,
                state: None,
                resume: false,
                aborted: false,
                batchable: false,
            };
            let transfer = |performative: &Transfer, payload: Bytes| {
                Frame::new(
                    0u16,
                    FrameBody::Transfer {
                        performative: performative.clone(),
                        payload,
                    },
                )
            };
            // a data section with a vbin32 body, the octets are zero
            let total = bulk * 200_000 + tiny + 1;
            let mut first = vec![0x00, 0x53, 0x75, 0xb0];
            first.extend_from_slice(&(total as u32).to_be_bytes());
            peer.feed(transfer(&performative, Bytes::from(first))).await.unwrap();
            for _ in 0..bulk {
                peer.feed(transfer(&performative, Bytes::from(vec![0u8; 200_000])))
                    .await
                    .unwrap();
            }
            if with_state {
                performative.state = Some(DeliveryState::Received(Received {
                    section_number: u32::MAX,
                    section_offset: u64::MAX,
                }));
            }
            for _ in 0..tiny {
                peer.feed(transfer(&performative, Bytes::from_static(&[0u8])))
                    .await
                    .unwrap();
            }
            performative.state = None;
            performative.more = false;
            peer.feed(transfer(&performative, Bytes::from_static(&[0u8])))
                .await
                .unwrap();
            peer.flush().await.unwrap();
            peer_cooperate(peer).await;
        });

        let mut connection = Connection::builder()
            .container_id("client")
            .open_with_stream(client_io)
            .await
            .unwrap();
        let mut session = Session::begin(&mut connection).await.unwrap();
        let mut receiver = Receiver::builder()
            .name("rx")
            .source("q")
            .attach(&mut session)
            .await
            .unwrap();

        // all the frames arrive in the buffer of the link
        tokio::time::sleep(Duration::from_secs(10)).await;

        let start = std::time::Instant::now();
        let delivery = receiver
            .recv::<fe2o3_amqp_types::messaging::Body<fe2o3_amqp_types::primitives::Value>>()
            .await
            .unwrap();
        let elapsed = start.elapsed();
        drop(delivery);

        peer.abort();
        elapsed
    }

    /// 20 continuation frames with one octet of payload each. With the delivery state on them
    /// `recv()` scans everything that has been buffered so far (1 MB) for every one of them
    /// (`IncompleteTransfer::position_of_section_number_and_offset`). The same delivery without
    /// the state is the yardstick; the margin is a factor of ten plus 250 ms.
    #[tokio::test(start_paused = true)]
    async fn work_per_continuation_frame_is_proportional_to_the_frame() {
        let without_state = reassemble(5, 20, false).await;
        let with_state = reassemble(5, 20, true).await;
        println!("without state: {:?}, with state: {:?}", without_state, with_state);
        assert!(
            with_state < without_state * 10 + Duration::from_millis(250),
            "recv() of the same 1 MB delivery: {:?} without, {:?} with a `received` state on the \
             20 one-octet continuation frames",
            without_state,
            with_state
        );
    }
}
