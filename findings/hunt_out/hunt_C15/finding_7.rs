// append-to: new module at end of fe2o3-amqp/src/connection/engine.rs
// run: hunt_c15_f7

#[cfg(test)]
mod hunt_c15_f7 {
    #![allow(dead_code, unused_imports)]
    //! A scripted hostile peer talking raw frames to an unmodified endpoint over
    //! `tokio::io::duplex`. Virtual time (`start_paused`): the runtime advances the clock only
    //! when every task is idle, so a time-out of one hour that fires means that nothing in the
    //! process could make progress any more.
    use std::time::Duration;

    use bytes::Bytes;
    use fe2o3_amqp_types::{
        definitions::{ReceiverSettleMode, Role, SenderSettleMode},
        messaging::{Source, Target},
        performatives::{Attach, Begin, Close, Detach, End, Flow, Open, Transfer},
    };
    use futures_util::{SinkExt, StreamExt};
    use tokio::io::{AsyncReadExt, AsyncWriteExt, DuplexStream};

    use crate::{
        connection::Connection,
        frames::amqp::{Frame, FrameBody},
        link::receiver::CreditMode,
        session::Session,
        transport::Transport,
        Receiver,
    };

    type Peer = Transport<DuplexStream, Frame>;

    fn peer_open_frame() -> Frame {
        let open = Open {
            container_id: "hostile-peer".into(),
            hostname: None,
            max_frame_size: (256 * 1024).into(),
            channel_max: 255.into(),
            idle_time_out: None,
            outgoing_locales: None,
            incoming_locales: None,
            offered_capabilities: None,
            desired_capabilities: None,
            properties: None,
        };
        Frame::new(0u16, FrameBody::Open(open))
    }

    /// Header and Open exchange of the scripted peer when it plays the server
    async fn peer_open(mut io: DuplexStream) -> Peer {
        let mut header = [0u8; 8];
        io.read_exact(&mut header).await.unwrap();
        io.write_all(b"AMQP\x00\x01\x00\x00").await.unwrap();
        let mut peer = Transport::<_, Frame>::bind(io, 256 * 1024, None);
        match peer.next().await.unwrap().unwrap().body {
            FrameBody::Open(_) => {}
            other => panic!("expecting Open, found {:?}", other),
        }
        peer.send(peer_open_frame()).await.unwrap();
        peer
    }

    fn peer_begin_frame(channel: u16, remote_channel: Option<u16>) -> Frame {
        let begin = Begin {
            remote_channel,
            next_outgoing_id: 0,
            incoming_window: u32::MAX,
            outgoing_window: u32::MAX,
            handle_max: u32::MAX.into(),
            offered_capabilities: None,
            desired_capabilities: None,
            properties: None,
        };
        Frame::new(channel, FrameBody::Begin(begin))
    }

    /// Answers the Begin the endpoint sends on `channel`
    async fn peer_begin(peer: &mut Peer, channel: u16) {
        loop {
            let frame = peer.next().await.unwrap().unwrap();
            if let FrameBody::Begin(_) = frame.body {
                assert_eq!(frame.channel, channel);
                break;
            }
        }
        peer.send(peer_begin_frame(channel, Some(channel)))
            .await
            .unwrap();
    }

    /// Answers the Attach of a receiving link of the endpoint (the peer is the sender)
    async fn peer_attach_sender(peer: &mut Peer, channel: u16, handle: u32) {
        let attach = loop {
            let frame = peer.next().await.unwrap().unwrap();
            if let FrameBody::Attach(attach) = frame.body {
                break attach;
            }
        };
        let attach = Attach {
            name: attach.name,
            handle: handle.into(),
            role: Role::Sender,
            snd_settle_mode: SenderSettleMode::Mixed,
            rcv_settle_mode: ReceiverSettleMode::First,
            source: Some(Box::new(Source::builder().address("q").build())),
            target: Some(Box::new(Target::builder().address("q").build().into())),
            unsettled: None,
            incomplete_unsettled: false,
            initial_delivery_count: Some(0),
            max_message_size: None,
            offered_capabilities: None,
            desired_capabilities: None,
            properties: None,
        };
        peer.send(Frame::new(channel, FrameBody::Attach(attach)))
            .await
            .unwrap();
    }

    /// Waits for the first link flow (the credit) of the endpoint
    async fn peer_wait_for_flow(peer: &mut Peer) {
        loop {
            let frame = peer.next().await.unwrap().unwrap();
            if let FrameBody::Flow(_) = frame.body {
                break;
            }
        }
    }

    fn small_transfer(channel: u16, handle: u32, id: u32) -> Frame {
        let performative = Transfer {
            handle: handle.into(),
            delivery_id: Some(id),
            delivery_tag: Some(id.to_be_bytes().to_vec().into()),
            message_format: Some(0),
            settled: Some(true),
            more: false,
            rcv_settle_mode: None,
            state: None,
            resume: false,
            aborted: false,
            batchable: false,
        };
        // amqp-value section holding `true`
        let payload = Bytes::from_static(&[0x00, 0x53, 0x77, 0x41]);
        Frame::new(
            channel,
            FrameBody::Transfer {
                performative,
                payload,
            },
        )
    }

    fn flow_frame(channel: u16, handle: Option<u32>, echo: bool) -> Frame {
        let flow = Flow {
            next_incoming_id: Some(0),
            incoming_window: u32::MAX,
            next_outgoing_id: 0,
            outgoing_window: u32::MAX,
            handle: handle.map(Into::into),
            delivery_count: handle.map(|_| 0),
            link_credit: None,
            available: handle.map(|_| 0),
            drain: false,
            echo,
            properties: None,
        };
        Frame::new(channel, FrameBody::Flow(flow))
    }

    /// After its misbehaviour the peer is perfectly cooperative: it reads everything and
    /// answers every Detach, End and Close
    async fn peer_cooperate(mut peer: Peer) {
        while let Some(Ok(frame)) = peer.next().await {
            let channel = frame.channel;
            let answer = match frame.body {
                FrameBody::Detach(detach) => FrameBody::Detach(Detach {
                    handle: detach.handle,
                    closed: detach.closed,
                    error: None,
                }),
                FrameBody::End(_) => FrameBody::End(End { error: None }),
                FrameBody::Close(_) => {
                    let _ = peer
                        .send(Frame::new(0u16, FrameBody::Close(Close { error: None })))
                        .await;
                    break;
                }
                _ => continue,
            };
            if peer.send(Frame::new(channel, answer)).await.is_err() {
                break;
            }
        }
    }

    /// The peer keeps the connection alive with empty frames and reads everything, but it never
    /// answers an End or a Close
    async fn peer_never_answers(mut peer: Peer) {
        loop {
            tokio::select! {
                frame = peer.next() => match frame {
                    Some(Ok(_)) => {}
                    _ => break,
                },
                _ = tokio::time::sleep(Duration::from_millis(500)) => {
                    if peer.send(Frame::empty()).await.is_err() {
                        break;
                    }
                }
            }
        }
    }

    /// The peer reads everything and is silent: it answers neither End nor Close
    async fn peer_only_reads(mut peer: Peer) {
        while let Some(Ok(_)) = peer.next().await {}
    }

    /// Runs `scenario` on a current-thread runtime whose clock is paused. Such a clock is
    /// advanced by the runtime if and only if there is nothing left to run, i.e. when every task
    /// waits for an event. The scenario ends with a time-out of a few virtual seconds, so it
    /// returns at once if the endpoint *waits* for its peer, and it never returns if some task of
    /// the endpoint is runnable all the time (busy polling).
    ///
    /// Returns whether the scenario finished within 20 s of wall clock time.
    fn finishes_on_a_paused_clock<F, Fut>(scenario: F) -> bool
    where
        F: FnOnce() -> Fut + Send + 'static,
        Fut: std::future::Future<Output = ()>,
    {
        use std::sync::{
            atomic::{AtomicBool, Ordering},
            Arc,
        };

        let finished = Arc::new(AtomicBool::new(false));
        let finished2 = finished.clone();
        std::thread::spawn(move || {
            let rt = tokio::runtime::Builder::new_current_thread()
                .enable_all()
                .start_paused(true)
                .build()
                .unwrap();
            rt.block_on(scenario());
            finished2.store(true, Ordering::SeqCst);
        });
        let start = std::time::Instant::now();
        while !finished.load(Ordering::SeqCst) && start.elapsed() < Duration::from_secs(20) {
            std::thread::sleep(Duration::from_millis(50));
        }
        finished.load(Ordering::SeqCst)
    }

    /// Control: an established session that waits for frames is idle (this one passes)
    #[test]
    fn control_idle_session_does_not_spin() {
        assert!(finishes_on_a_paused_clock(|| async {
            let (client_io, peer_io) = tokio::io::duplex(1024 * 1024);
            tokio::spawn(async move {
                let mut peer = peer_open(peer_io).await;
                peer_begin(&mut peer, 0).await;
                peer_only_reads(peer).await;
            });
            let mut connection = Connection::builder()
                .container_id("client")
                .open_with_stream(client_io)
                .await
                .unwrap();
            let mut session = Session::begin(&mut connection).await.unwrap();
            let _ = tokio::time::timeout(Duration::from_secs(5), session.on_end()).await;
        }));
    }

    /// The application ends the session, the peer takes its time to answer the End (here: for
    /// ever). While it waits the session engine must be idle.
    #[test]
    fn waiting_for_the_end_of_the_peer_does_not_spin() {
        let finished = finishes_on_a_paused_clock(|| async {
            let (client_io, peer_io) = tokio::io::duplex(1024 * 1024);
            tokio::spawn(async move {
                let mut peer = peer_open(peer_io).await;
                peer_begin(&mut peer, 0).await;
                peer_only_reads(peer).await;
            });
            let mut connection = Connection::builder()
                .container_id("client")
                .open_with_stream(client_io)
                .await
                .unwrap();
            let mut session = Session::begin(&mut connection).await.unwrap();
            let _ = tokio::time::timeout(Duration::from_secs(5), session.end()).await;
        });
        assert!(
            finished,
            "5 s of virtual time do not pass while session.end() waits for the End of the peer: \
             the session engine is runnable all the time (it polls a closed channel in a loop)"
        );
    }

    /// The same for the connection: the application closes it, the peer does not answer the
    /// Close
    #[test]
    fn waiting_for_the_close_of_the_peer_does_not_spin() {
        let finished = finishes_on_a_paused_clock(|| async {
            let (client_io, peer_io) = tokio::io::duplex(1024 * 1024);
            tokio::spawn(async move {
                let peer = peer_open(peer_io).await;
                peer_only_reads(peer).await;
            });
            let mut connection = Connection::builder()
                .container_id("client")
                .open_with_stream(client_io)
                .await
                .unwrap();
            let _ = tokio::time::timeout(Duration::from_secs(5), connection.close()).await;
        });
        assert!(
            finished,
            "5 s of virtual time do not pass while connection.close() waits for the Close of the \
             peer: the connection engine is runnable all the time (it polls a closed channel in a \
             loop)"
        );
    }
}
