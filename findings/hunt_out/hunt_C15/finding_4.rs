// append-to: new module at end of fe2o3-amqp/src/acceptor/session.rs
// run: hunt_c15_f4 --features acceptor

#[cfg(test)]
mod hunt_c15_f4 {
    use std::collections::HashMap;
    use std::sync::{Arc, OnceLock};

    use fe2o3_amqp_types::{performatives::Flow, states::SessionState};
    use tokio::sync::mpsc;

    use super::ListenerSession;
    use crate::endpoint::{OutgoingChannel, Session as _};

    fn flow_for_handle(handle: u32) -> Flow {
        Flow {
            next_incoming_id: Some(0),
            incoming_window: 5000,
            next_outgoing_id: 0,
            outgoing_window: 5000,
            handle: Some(handle.into()),
            delivery_count: Some(0),
            link_credit: Some(1),
            available: None,
            drain: false,
            echo: false,
            properties: None,
        }
    }

    /// Flows for handles on which no attach has ever been received (there is neither an
    /// attached link nor an attach that waits to be accepted by the application).
    /// `amqp:session:unattached-handle` is the error the protocol has for this; at the very
    /// least nothing may be kept for such frames.
    #[tokio::test]
    async fn listener_session_flows_for_unattached_handles() {
        let (link_listener, _link_listener_rx) = mpsc::channel(16);
        let session = crate::session::Builder::new().into_session(
            OutgoingChannel(0),
            SessionState::Mapped,
            Arc::new(OnceLock::new()),
        );
        let mut session = ListenerSession {
            session,
            link_listener,
            pending_link_flows: HashMap::new(),
        };

        let n = 10_000u32;
        let mut refused = 0;
        for i in 0..n {
            // every flow names another handle, none of them has ever been attached
            if session
                .on_incoming_flow(flow_for_handle(1000 + i))
                .await
                .is_err()
            {
                refused += 1;
            }
        }

        let retained: usize = session.pending_link_flows.values().map(Vec::len).sum();
        assert!(
            refused > 0 || retained == 0,
            "{} flows for handles that were never attached: {} refused, {} retained by the session \
             ({} map entries), session state {:?}",
            n,
            refused,
            retained,
            session.pending_link_flows.len(),
            session.local_state(),
        );
    }

    /// The same over the wire: the peer begins a session, sends the flows and then ends the
    /// session in an orderly way. The listener must have refused them: either the peer has
    /// received an End with an error, or the application sees an error on the session handle.
    #[tokio::test(start_paused = true)]
    async fn listener_flows_for_unattached_handles_over_the_wire() {
        use std::time::Duration;

        use fe2o3_amqp_types::performatives::{Begin, End, Open};
        use futures_util::{SinkExt, StreamExt};
        use tokio::io::{AsyncReadExt, AsyncWriteExt};

        use crate::{
            acceptor::{ConnectionAcceptor, SessionAcceptor},
            frames::amqp::{Frame, FrameBody},
            transport::Transport,
        };

        let (listener_io, mut peer_io) = tokio::io::duplex(16 * 1024 * 1024);

        let peer = tokio::spawn(async move {
            peer_io.write_all(b"AMQP\x00\x01\x00\x00").await.unwrap();
            let mut header = [0u8; 8];
            peer_io.read_exact(&mut header).await.unwrap();
            let mut peer = Transport::<_, Frame>::bind(peer_io, 256 * 1024, None);
            let open = Open {
                container_id: "hostile-peer".into(),
                hostname: None,
                max_frame_size: (256 * 1024).into(),
                channel_max: 255.into(),
                idle_time_out: None,
                outgoing_locales: None,
                incoming_locales: None,
                offered_capabilities: None,
                desired_capabilities: None,
                properties: None,
            };
            peer.send(Frame::new(0u16, FrameBody::Open(open))).await.unwrap();
            let begin = Begin {
                remote_channel: None,
                next_outgoing_id: 0,
                incoming_window: 5000,
                outgoing_window: 5000,
                handle_max: u32::MAX.into(),
                offered_capabilities: None,
                desired_capabilities: None,
                properties: None,
            };
            peer.send(Frame::new(0u16, FrameBody::Begin(begin))).await.unwrap();
            for i in 0..10_000u32 {
                peer.feed(Frame::new(0u16, FrameBody::Flow(flow_for_handle(1000 + i))))
                    .await
                    .unwrap();
            }
            peer.send(Frame::new(0u16, FrameBody::End(End { error: None })))
                .await
                .unwrap();
            // the first End the listener sends
            loop {
                match peer.next().await {
                    Some(Ok(frame)) => {
                        if let FrameBody::End(end) = frame.body {
                            break end.error;
                        }
                    }
                    _ => break None,
                }
            }
        });

        let mut connection = ConnectionAcceptor::new("listener")
            .accept(listener_io)
            .await
            .unwrap();
        let mut session = SessionAcceptor::new().accept(&mut connection).await.unwrap();

        let outcome = tokio::time::timeout(Duration::from_secs(3600), session.on_end())
            .await
            .expect("the peer ends the session");
        let error_sent_to_peer = peer.await.unwrap();

        // A peer-initiated clean end is reported as Err(RemoteEnded) (known), that is not an
        // error about the flows
        let refused_locally = matches!(
            outcome,
            Err(crate::session::Error::UnattachedHandle)
        );
        assert!(
            refused_locally || error_sent_to_peer.is_some(),
            "10000 flows for handles that were never attached: the session handle reports {:?}, \
             the End sent to the peer carries {:?}",
            outcome,
            error_sent_to_peer
        );
    }
}
