// append-to: new module at end of fe2o3-amqp/src/connection/engine.rs
// run: hunt_c15_f5

#[cfg(test)]
mod hunt_c15_f5 {
    #![allow(dead_code, unused_imports)]
    //! A scripted hostile peer talking raw frames to an unmodified endpoint over
    //! `tokio::io::duplex`. Virtual time (`start_paused`): the runtime advances the clock only
    //! when every task is idle, so a time-out of one hour that fires means that nothing in the
    //! process could make progress any more.
    use std::time::Duration;

    use bytes::Bytes;
    use fe2o3_amqp_types::{
        definitions::{ReceiverSettleMode, Role, SenderSettleMode},
        messaging::{Source, Target},
        performatives::{Attach, Begin, Close, Detach, End, Flow, Open, Transfer},
    };
    use futures_util::{SinkExt, StreamExt};
    use tokio::io::{AsyncReadExt, AsyncWriteExt, DuplexStream};

    use crate::{
        connection::Connection,
        frames::amqp::{Frame, FrameBody},
        link::receiver::CreditMode,
        session::Session,
        transport::Transport,
        Receiver,
    };

    type Peer = Transport<DuplexStream, Frame>;

    fn peer_open_frame() -> Frame {
        let open = Open {
            container_id: "hostile-peer".into(),
            hostname: None,
            max_frame_size: (256 * 1024).into(),
            channel_max: 255.into(),
            idle_time_out: None,
            outgoing_locales: None,
            incoming_locales: None,
            offered_capabilities: None,
            desired_capabilities: None,
            properties: None,
        };
        Frame::new(0u16, FrameBody::Open(open))
    }

    /// Header and Open exchange of the scripted peer when it plays the server
    async fn peer_open(mut io: DuplexStream) -> Peer {
        let mut header = [0u8; 8];
        io.read_exact(&mut header).await.unwrap();
        io.write_all(b"AMQP\x00\x01\x00\x00").await.unwrap();
        let mut peer = Transport::<_, Frame>::bind(io, 256 * 1024, None);
        match peer.next().await.unwrap().unwrap().body {
            FrameBody::Open(_) => {}
            other => panic!("expecting Open, found {:?}", other),
        }
        peer.send(peer_open_frame()).await.unwrap();
        peer
    }

    fn peer_begin_frame(channel: u16, remote_channel: Option<u16>) -> Frame {
        let begin = Begin {
            remote_channel,
            next_outgoing_id: 0,
            incoming_window: u32::MAX,
            outgoing_window: u32::MAX,
            handle_max: u32::MAX.into(),
            offered_capabilities: None,
            desired_capabilities: None,
            properties: None,
        };
        Frame::new(channel, FrameBody::Begin(begin))
    }

    /// Answers the Begin the endpoint sends on `channel`
    async fn peer_begin(peer: &mut Peer, channel: u16) {
        loop {
            let frame = peer.next().await.unwrap().unwrap();
            if let FrameBody::Begin(_) = frame.body {
                assert_eq!(frame.channel, channel);
                break;
            }
        }
        peer.send(peer_begin_frame(channel, Some(channel)))
            .await
            .unwrap();
    }

    /// Answers the Attach of a receiving link of the endpoint (the peer is the sender)
    async fn peer_attach_sender(peer: &mut Peer, channel: u16, handle: u32) {
        let attach = loop {
            let frame = peer.next().await.unwrap().unwrap();
            if let FrameBody::Attach(attach) = frame.body {
                break attach;
            }
        };
        let attach = Attach {
            name: attach.name,
            handle: handle.into(),
            role: Role::Sender,
            snd_settle_mode: SenderSettleMode::Mixed,
            rcv_settle_mode: ReceiverSettleMode::First,
            source: Some(Box::new(Source::builder().address("q").build())),
            target: Some(Box::new(Target::builder().address("q").build().into())),
            unsettled: None,
            incomplete_unsettled: false,
            initial_delivery_count: Some(0),
            max_message_size: None,
            offered_capabilities: None,
            desired_capabilities: None,
            properties: None,
        };
        peer.send(Frame::new(channel, FrameBody::Attach(attach)))
            .await
            .unwrap();
    }

    /// Waits for the first link flow (the credit) of the endpoint
    async fn peer_wait_for_flow(peer: &mut Peer) {
        loop {
            let frame = peer.next().await.unwrap().unwrap();
            if let FrameBody::Flow(_) = frame.body {
                break;
            }
        }
    }

    fn small_transfer(channel: u16, handle: u32, id: u32) -> Frame {
        let performative = Transfer {
            handle: handle.into(),
            delivery_id: Some(id),
            delivery_tag: Some(id.to_be_bytes().to_vec().into()),
            message_format: Some(0),
            settled: Some(true),
            more: false,
            rcv_settle_mode: None,
            state: None,
            resume: false,
            aborted: false,
            batchable: false,
        };
        // amqp-value section holding `true`
        let payload = Bytes::from_static(&[0x00, 0x53, 0x77, 0x41]);
        Frame::new(
            channel,
            FrameBody::Transfer {
                performative,
                payload,
            },
        )
    }

    fn flow_frame(channel: u16, handle: Option<u32>, echo: bool) -> Frame {
        let flow = Flow {
            next_incoming_id: Some(0),
            incoming_window: u32::MAX,
            next_outgoing_id: 0,
            outgoing_window: u32::MAX,
            handle: handle.map(Into::into),
            delivery_count: handle.map(|_| 0),
            link_credit: None,
            available: handle.map(|_| 0),
            drain: false,
            echo,
            properties: None,
        };
        Frame::new(channel, FrameBody::Flow(flow))
    }

    /// After its misbehaviour the peer is perfectly cooperative: it reads everything and
    /// answers every Detach, End and Close
    async fn peer_cooperate(mut peer: Peer) {
        while let Some(Ok(frame)) = peer.next().await {
            let channel = frame.channel;
            let answer = match frame.body {
                FrameBody::Detach(detach) => FrameBody::Detach(Detach {
                    handle: detach.handle,
                    closed: detach.closed,
                    error: None,
                }),
                FrameBody::End(_) => FrameBody::End(End { error: None }),
                FrameBody::Close(_) => {
                    let _ = peer
                        .send(Frame::new(0u16, FrameBody::Close(Close { error: None })))
                        .await;
                    break;
                }
                _ => continue,
            };
            if peer.send(Frame::new(channel, answer)).await.is_err() {
                break;
            }
        }
    }

    /// The peer keeps the connection alive with empty frames and reads everything, but it never
    /// answers an End or a Close
    async fn peer_never_answers(mut peer: Peer) {
        loop {
            tokio::select! {
                frame = peer.next() => match frame {
                    Some(Ok(_)) => {}
                    _ => break,
                },
                _ = tokio::time::sleep(Duration::from_millis(500)) => {
                    if peer.send(Frame::empty()).await.is_err() {
                        break;
                    }
                }
            }
        }
    }

    /// The peer sends `flows` flows with `echo` (each is answered with a flow) and does not
    /// read. Then it falls silent. The endpoint has an idle time-out of 2 s configured, so the
    /// silence has to end the connection with an error that the application sees.
    ///
    /// Returns whether `connection.on_close()` returned within one hour.
    async fn silent_peer_that_does_not_read(flows: usize) -> bool {
        let (client_io, peer_io) = tokio::io::duplex(4096);

        let peer = tokio::spawn(async move {
            let mut peer = peer_open(peer_io).await;
            peer_begin(&mut peer, 0).await;
            peer_attach_sender(&mut peer, 0, 0).await;
            peer_wait_for_flow(&mut peer).await;
            // from here on nothing is read any more
            for _ in 0..flows {
                // blocks once the endpoint has stopped reading
                peer.send(flow_frame(0, Some(0), true)).await.unwrap();
            }
            std::future::pending::<()>().await;
        });

        let mut connection = Connection::builder()
            .container_id("client")
            .idle_time_out(2000u32)
            .open_with_stream(client_io)
            .await
            .unwrap();
        let mut session = Session::begin(&mut connection).await.unwrap();
        let _receiver = Receiver::builder()
            .name("rx")
            .source("q")
            .attach(&mut session)
            .await
            .unwrap();

        let closed = tokio::time::timeout(Duration::from_secs(3600), connection.on_close()).await;
        peer.abort();
        closed.is_ok()
    }

    /// Control: a peer that is merely silent is detected by the idle time-out (this one passes)
    #[tokio::test(start_paused = true)]
    async fn control_silent_peer() {
        assert!(silent_peer_that_does_not_read(0).await);
    }

    #[tokio::test(start_paused = true)]
    async fn peer_that_does_not_read_cannot_wedge_the_connection() {
        assert!(
            silent_peer_that_does_not_read(2000).await,
            "the peer has been silent for one hour, the idle time-out is 2 s, and the connection \
             engine has not stopped (it is blocked writing the answer to a flow)"
        );
    }
}
