// append-to: new module at end of fe2o3-amqp/src/sasl_profile/mod.rs
// run: hunt_c15_f2 --features scram

#[cfg(all(test, feature = "scram"))]
mod hunt_c15_f2 {
    use std::sync::{
        atomic::{AtomicBool, AtomicU64, Ordering},
        Arc,
    };
    use std::time::{Duration, Instant};

    use fe2o3_amqp_types::{
        primitives::{Array, Binary, Symbol},
        sasl::{SaslChallenge, SaslMechanisms},
    };
    use futures_util::{SinkExt, StreamExt};
    use tokio::io::{AsyncReadExt, AsyncWriteExt};

    use crate::{
        connection::Connection, frames::sasl, sasl_profile::SaslScramSha256, transport::Transport,
    };

    /// A hostile SASL server answers the client's SCRAM-SHA-256 sasl-init with a server-first
    /// message that asks for `iterations` PBKDF2 iterations. The client runs on a current-thread
    /// runtime together with a 10 ms ticker that stands for everything else in the process
    /// (other connections).
    ///
    /// Returns whether `open_with_stream` returned (with whatever result) within 10 s of wall
    /// clock time, and how often the ticker ran in the 2 s after that.
    fn scram_client_against_hostile_server(iterations: u32) -> (bool, u64) {
        let finished = Arc::new(AtomicBool::new(false));
        let ticks = Arc::new(AtomicU64::new(0));

        let finished2 = finished.clone();
        let ticks2 = ticks.clone();
        std::thread::spawn(move || {
            let rt = tokio::runtime::Builder::new_current_thread()
                .enable_all()
                .build()
                .unwrap();
            rt.block_on(async move {
                let (client_io, mut server_io) = tokio::io::duplex(64 * 1024);

                tokio::spawn(async move {
                    loop {
                        tokio::time::sleep(Duration::from_millis(10)).await;
                        ticks2.fetch_add(1, Ordering::SeqCst);
                    }
                });

                // the hostile server
                tokio::spawn(async move {
                    let mut header = [0u8; 8];
                    server_io.read_exact(&mut header).await.unwrap();
                    assert_eq!(&header, b"AMQP\x03\x01\x00\x00");
                    server_io.write_all(&header).await.unwrap();
                    let mut server = Transport::<_, sasl::Frame>::bind(server_io, 512, None);
                    let mechanisms = SaslMechanisms {
                        sasl_server_mechanisms: Array::from(vec![Symbol::from("SCRAM-SHA-256")]),
                    };
                    server
                        .send(sasl::Frame::Mechanisms(mechanisms))
                        .await
                        .unwrap();
                    let init = match server.next().await.unwrap().unwrap() {
                        sasl::Frame::Init(init) => init,
                        other => panic!("expecting sasl-init, found {:?}", other),
                    };
                    // client-first-message: n,,n=user,r=<client nonce>
                    let client_first =
                        String::from_utf8(init.initial_response.unwrap().into_vec()).unwrap();
                    let client_nonce = client_first.split("r=").nth(1).unwrap().to_string();
                    let server_first =
                        format!("r={}srv,s=c2FsdA==,i={}", client_nonce, iterations);
                    let challenge = SaslChallenge {
                        challenge: Binary::from(server_first.into_bytes()),
                    };
                    server
                        .send(sasl::Frame::Challenge(challenge))
                        .await
                        .unwrap();
                    // whatever the client answers, the negotiation is over
                    let _ = server.next().await;
                });

                let result = Connection::builder()
                    .container_id("client")
                    .sasl_profile(SaslScramSha256::new("user", "password"))
                    .open_with_stream(client_io)
                    .await;
                // either outcome is fine as long as there is one
                drop(result);
                finished2.store(true, Ordering::SeqCst);
                // keep the ticker running
                tokio::time::sleep(Duration::from_secs(5)).await;
            });
        });

        let start = Instant::now();
        while !finished.load(Ordering::SeqCst) && start.elapsed() < Duration::from_secs(10) {
            std::thread::sleep(Duration::from_millis(50));
        }
        let finished_in_time = finished.load(Ordering::SeqCst);
        let before = ticks.load(Ordering::SeqCst);
        std::thread::sleep(Duration::from_secs(2));
        let after = ticks.load(Ordering::SeqCst);
        (finished_in_time, after - before)
    }

    /// Control: the usual iteration count (this one passes)
    #[test]
    fn control_scram_iteration_count_4096() {
        let (finished, ticks) = scram_client_against_hostile_server(4096);
        assert!(finished && ticks > 50, "finished: {}, ticks: {}", finished, ticks);
    }

    /// `i=4294967295` in a sasl-challenge of some 60 octets: the client must not do work out of
    /// proportion to that frame, and the rest of the process must be unaffected
    #[test]
    fn scram_iteration_count_of_a_hostile_server() {
        let (finished, ticks) = scram_client_against_hostile_server(u32::MAX);
        assert!(
            finished && ticks > 50,
            "10 s after the sasl-challenge with i=4294967295: open_with_stream() returned: {}; a \
             10 ms ticker on the same runtime ran {} times in the following 2 s",
            finished,
            ticks
        );
    }
}
