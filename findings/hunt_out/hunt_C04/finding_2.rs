// append-to: fe2o3-amqp-types/src/messaging/message/mod.rs (inside `mod tests`)
// run: c04_lazy_body_then_footer
//
// C04 finding 2 (same root cause as finding 1, observed end to end on a message):
// `Message<Body<LazyValue>>` is the documented way of receiving a message lazily
// (`receiver.recv::<Body<LazyValue>>()`). After the lazy body has been scanned the decoder keeps
// `non_native_type == LazyValue`; a footer whose key is a ulong (the reserved key space of
// annotations) and whose value is a binary is then decoded as the *raw encoding* of the binary
// (constructor + size + octets). The result differs from what `Message<Body<Value>>` reads from
// the same bytes and does not survive encode + decode.
//
// violated: "When decoding succeeds, re-encoding the result and decoding again gives the same value."
// where: as finding 1 (serde_amqp/src/de.rs l.739, l.856-858); a symbol key resets the marker by
//   accident (deserialize_string l.703), OwnedKey::Ulong (deserialize_u64) does not.
// observed on the unmodified tree (both readers):
//   first decode : footer {Ulong(5): Binary([160, 2, 222, 173])}
//   after re-encode + decode: footer {Ulong(5): Binary([160, 4, 160, 2, 222, 173])}
//   Message<Body<Value>> reads Binary([222, 173]) from the same bytes.
// minimal repair: as finding 1.

    #[test]
    fn c04_lazy_body_then_footer_binary_round_trips() {
        use serde_amqp::lazy::LazyValue;

        // 00 53 77 a1 04 "body"                       amqp-value section, str8 "body"
        // 00 53 78 c1 07 02  53 05  a0 02 de ad        footer { ulong 5 : vbin8 [de ad] }
        let buf: &[u8] = &[
            0x00, 0x53, 0x77, 0xa1, 0x04, b'b', b'o', b'd', b'y', //
            0x00, 0x53, 0x78, 0xc1, 0x07, 0x02, 0x53, 0x05, 0xa0, 0x02, 0xde, 0xad,
        ];

        // reference decoding
        let eager: Deserializable<Message<Body<Value>>> = from_slice(buf).unwrap();
        let eager_footer = eager.0.footer.clone().expect("footer");

        for via_io in [false, true] {
            let lazy: Deserializable<Message<Body<LazyValue>>> = if via_io {
                from_reader(buf).unwrap()
            } else {
                from_slice(buf).unwrap()
            };
            let lazy = lazy.0;

            // re-encode, decode again: same value
            let encoded = to_vec(&Serializable(lazy.clone())).unwrap();
            let again: Deserializable<Message<Body<LazyValue>>> = from_slice(&encoded).unwrap();
            assert_eq!(
                lazy, again.0,
                "re-encoding and decoding again gave a different message (io reader: {via_io})"
            );

            // and the footer is what is on the wire
            assert_eq!(
                lazy.footer.clone().expect("footer"),
                eager_footer,
                "footer read after a lazy body differs from the footer read after an eager body"
            );
        }
    }
