// append-to: fe2o3-amqp-types/src/messaging/message/mod.rs (inside `mod tests`)
// run: c04_message_without_body_section
//
// C04 finding 5: bytes that hold no body section (a bare header, a bare footer, even the empty
// byte string) decode as `Message<Body<Value>>` with `body == Body::Empty`. `Body::Empty` is
// re-encoded as an amqp-value section holding null (`00 53 77 40`), which decodes as
// `Body::Value(AmqpValue(Value::Null))`: the value after decode -> encode -> decode differs from
// the value after the first decode.
//
// violated: "When decoding succeeds, re-encoding the result and decoding again gives the same value."
// where: fe2o3-amqp-types/src/messaging/message/mod.rs l.351-354 (from_empty_body) ->
//   message/body.rs l.307-311 (Body::Empty); body.rs l.169 serializes Body::Empty as AmqpValue(()).
// observed on the unmodified tree:
//   input 00 53 70 c0 02 01 41 re-encoded as 00 53 70 c0 02 01 41 00 53 77 40
//   left  body: Empty      right  body: Value(AmqpValue(Null))
// minimal repair (not implemented): do not write a body section for Body::Empty (skip the field in
//   Message::serialize when body.is_empty()), as the doc comment of Body::Empty says.

    #[test]
    fn c04_message_without_body_section_round_trips() {
        // header { durable: true } only; the empty input and a bare footer behave alike
        let inputs: [&[u8]; 3] = [
            &[0x00, 0x53, 0x70, 0xc0, 0x02, 0x01, 0x41],
            &[],
            &[0x00, 0x53, 0x78, 0xc1, 0x01, 0x00],
        ];
        for buf in inputs {
            for via_io in [false, true] {
                let first: Deserializable<Message<Body<Value>>> = if via_io {
                    from_reader(buf).unwrap()
                } else {
                    from_slice(buf).unwrap()
                };
                let first = first.0;
                let encoded = to_vec(&Serializable(first.clone())).unwrap();
                let second: Deserializable<Message<Body<Value>>> = from_slice(&encoded).unwrap();
                assert_eq!(
                    first, second.0,
                    "input {:02x?} re-encoded as {:02x?} (io reader: {})",
                    buf, encoded, via_io
                );
            }
        }
    }
