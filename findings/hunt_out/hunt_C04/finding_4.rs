// append-to: serde_amqp/src/de.rs (inside `mod tests`)
// run: c04_array_of_lists --features derive
//
// C04 finding 4: an array whose elements are lists decodes, but the decoded value does not survive
// re-encoding as soon as the elements would not all pick the same constructor when encoded on
// their own: the serializer chooses list0 / list8 / list32 per element (0x45 for every empty list,
// the width by the size of each element), writes only the constructor of the first element into
// the array header and writes the later elements in *their* encoding. The decoder reads all elements
// with the constructor of the header. (Same for map8/map32 and array8/array32 elements.)
// This is not the known "arrays of described values / of nulls" case.
//
// violated: "When decoding succeeds, re-encoding the result and decoding again gives the same value."
// where: serde_amqp/src/ser.rs write_list l.1026-1067 (len 0 -> 0x45 even for OtherElement; 8 vs 32 bit
//   by the element's own size), same in write_map and write_array (l.944-978); the decoder
//   (de.rs ArrayAccess / elem_format_code) reads all elements with the header's constructor.
// observed on the unmodified tree:
//   [[0], []]   re-encoded as e0 07 02 c0 03 01 54 00 45 -> Err(Io(UnexpectedEof "Expecting count"))
//   [[[],[]],9] re-encoded as c0 08 02 e0 03 02 45 45 50 09 -> List([Array([[],[]]), List([])])  (ubyte 9 lost)
//   [short list32, 300 element list32] re-encoded with header f0 .. c0 03 01 54 00 00 00 .. -> Err(InvalidLength)
// minimal repair (not implemented): write compound array elements with one fixed constructor
//   (list32/map32/array32, never list0), as already done for integer elements, or pick the widest
//   constructor after buffering the elements.

    #[test]
    fn c04_array_of_lists_with_an_empty_list_round_trips() {
        use crate::Value;

        // array8 size 8 count 2 ctor list8 : [ list8{size 3,count 1, smallint 0} , list8{size 1,count 0} ]
        let buf: &[u8] = &[0xe0, 0x08, 0x02, 0xc0, 0x03, 0x01, 0x54, 0x00, 0x01, 0x00];
        let first: Value = from_slice(buf).unwrap();
        assert_eq!(
            first,
            Value::Array(crate::primitives::Array(vec![
                Value::List(vec![Value::Int(0)]),
                Value::List(vec![]),
            ]))
        );
        let encoded = crate::to_vec(&first).unwrap();
        let second: Result<Value, _> = from_slice(&encoded);
        assert_eq!(
            second.as_ref().ok(),
            Some(&first),
            "re-encoded as {:02x?}, which decodes to {:?}",
            encoded,
            second
        );
    }

    #[test]
    fn c04_array_of_lists_only_empty_lists_round_trips_inside_a_list() {
        use crate::Value;

        // list8 [ array8{size 2, count 2, ctor list0} , ubyte 9 ]
        let buf: &[u8] = &[0xc0, 0x07, 0x02, 0xe0, 0x02, 0x02, 0x45, 0x50, 0x09];
        let first: Value = from_slice(buf).unwrap();
        assert_eq!(
            first,
            Value::List(vec![
                Value::Array(crate::primitives::Array(vec![
                    Value::List(vec![]),
                    Value::List(vec![])
                ])),
                Value::Ubyte(9),
            ])
        );
        let encoded = crate::to_vec(&first).unwrap();
        let second: Result<Value, _> = from_slice(&encoded);
        assert_eq!(
            second.as_ref().ok(),
            Some(&first),
            "re-encoded as {:02x?}, which decodes to {:?}",
            encoded,
            second
        );
    }

    #[test]
    fn c04_array_of_lists_of_different_width_round_trips() {
        use crate::Value;

        // array32, ctor list32: [ list32 [smallint 0] , list32 [300 x smallint] ]
        let mut short = Vec::new();
        short.extend_from_slice(&(4u32 + 2).to_be_bytes()); // size: count + one element
        short.extend_from_slice(&1u32.to_be_bytes());
        short.extend_from_slice(&[0x54, 0x00]);
        let mut long = Vec::new();
        long.extend_from_slice(&(4u32 + 600).to_be_bytes());
        long.extend_from_slice(&300u32.to_be_bytes());
        for i in 0..300u32 {
            long.extend_from_slice(&[0x54, (i % 100) as u8]);
        }
        let mut buf = vec![0xf0];
        buf.extend_from_slice(&((4 + 1 + short.len() + long.len()) as u32).to_be_bytes());
        buf.extend_from_slice(&2u32.to_be_bytes());
        buf.push(0xd0);
        buf.extend_from_slice(&short);
        buf.extend_from_slice(&long);

        let first: Value = from_slice(&buf).unwrap();
        match &first {
            Value::Array(a) => {
                assert_eq!(a.len(), 2);
                assert_eq!(a[0], Value::List(vec![Value::Int(0)]));
                assert!(matches!(&a[1], Value::List(l) if l.len() == 300));
            }
            other => panic!("unexpected {:?}", other),
        }
        let encoded = crate::to_vec(&first).unwrap();
        let second: Result<Value, _> = from_slice(&encoded);
        assert!(
            second.as_ref().ok() == Some(&first),
            "re-encoded array header {:02x?} does not decode back to the same value: {:?}",
            &encoded[..16],
            second.as_ref().map(|_| ())
        );
    }
