// append-to: serde_amqp/src/de.rs (inside `mod tests`)
// run: c04_zero_width_array --features derive
//
// C04 finding 3: the guard `count > MAX_ARRAY_COUNT || count > len` of `deserialize_seq` compares
// the element count with the *declared* size of the array, i.e. with another attacker chosen wire
// field, never with the octets that are really there. With a zero-width element constructor
// (list0 0x45, true 0x41, false 0x42, uint0 0x43, ulong0 0x44, null 0x40) an array32 header of
// 10 octets that declares size = count = 65536 yields 65536 elements without consuming any further
// input, and such headers can be repeated as the elements of an outer array (9 octets each).
// The memory held by the result (and the number of loop iterations that consume no input) is
// ~500_000 times the input length.
//
// violated: "never allocates memory out of proportion to the input length"; "never loops without
//   consuming input".
// where: serde_amqp/src/de.rs deserialize_seq l.891 / l.922 (`count > MAX_ARRAY_COUNT || count > len`,
//   `len` being the declared size), ArrayAccess::next_element_seed l.1416-1423 (only an *overrun* check).
//   Reachable before authentication through any `Value` (e.g. open.properties) via FrameDecoder::decode.
// observed on the unmodified tree (identical for from_slice and from_reader):
//   10 input octets decoded into a value holding 4718592 heap octets
//   82 input octets decoded into a value holding 37749312 heap octets
//   (=> ~520_000 heap octets and ~7_280 input-free iterations per input octet; a 512 octet frame can
//   ask for ~250 MB, a 64 KiB frame for ~34 GB)
// minimal repair (not implemented): check the declared size against the octets really available
//   (SliceReader: remaining length; IoReader: buffer the body with fill_buffer first) and bound the
//   count of zero-width elements by the input length / a small constant, or charge every yielded
//   element to a per-Deserializer budget derived from the input length.

    /// `f0 <size> <count> <ctor>` without the leading format code (as it appears as the element of an
    /// outer array32 whose element constructor is 0xf0)
    fn c04_zero_width_array32_body(count: u32, ctor: u8) -> Vec<u8> {
        let mut v = Vec::new();
        v.extend_from_slice(&(count + 5).to_be_bytes()); // declared size: count(4) + ctor(1) + `count` octets that are not there
        v.extend_from_slice(&count.to_be_bytes());
        v.push(ctor);
        v
    }

    fn c04_heap_held_by(value: &crate::Value) -> usize {
        use crate::Value;
        match value {
            Value::Array(a) => {
                a.0.capacity() * std::mem::size_of::<Value>()
                    + a.0.iter().map(c04_heap_held_by).sum::<usize>()
            }
            Value::List(l) => {
                l.capacity() * std::mem::size_of::<Value>()
                    + l.iter().map(c04_heap_held_by).sum::<usize>()
            }
            _ => 0,
        }
    }

    #[test]
    fn c04_zero_width_array_ten_octets_give_65536_elements() {
        use crate::Value;

        // array32, size 0x0001_0005, count 0x0001_0000, element constructor list0
        let mut buf = vec![0xf0];
        buf.extend(c04_zero_width_array32_body(65_536, 0x45));
        assert_eq!(buf.len(), 10);

        for via_io in [false, true] {
            let result: Result<Value, _> = if via_io {
                from_reader(&buf[..])
            } else {
                from_slice(&buf)
            };
            // an error is fine (the declared size is a lie: the input ends after the constructor);
            // a value that is out of proportion to the input is not
            if let Ok(value) = result {
                let held = c04_heap_held_by(&value);
                // generous: 64 KiB flat plus 1 KiB per input octet
                let budget = 64 * 1024 + 1024 * buf.len();
                assert!(
                    held <= budget,
                    "{} input octets decoded into a value holding {} heap octets (io reader: {})",
                    buf.len(),
                    held,
                    via_io
                );
            }
        }
    }

    #[test]
    fn c04_zero_width_array_nested_allocation_is_out_of_proportion() {
        use crate::Value;

        // outer array32 of K inner array32, each inner one being 9 octets that declare 65536 empty lists
        const K: u32 = 8;
        let mut buf = vec![0xf0];
        buf.extend_from_slice(&(4 + 1 + K * 9).to_be_bytes()); // outer size (this one is honest)
        buf.extend_from_slice(&K.to_be_bytes()); // outer count
        buf.push(0xf0); // outer element constructor: array32
        for _ in 0..K {
            buf.extend(c04_zero_width_array32_body(65_536, 0x45));
        }
        assert_eq!(buf.len(), 10 + 9 * K as usize); // 82 octets

        for via_io in [false, true] {
            let result: Result<Value, _> = if via_io {
                from_reader(&buf[..])
            } else {
                from_slice(&buf)
            };
            if let Ok(value) = result {
                let held = c04_heap_held_by(&value);
                let budget = 64 * 1024 + 1024 * buf.len();
                assert!(
                    held <= budget,
                    "{} input octets decoded into a value holding {} heap octets (io reader: {})",
                    buf.len(),
                    held,
                    via_io
                );
            }
        }
    }
