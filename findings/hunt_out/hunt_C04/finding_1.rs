// append-to: serde_amqp/src/de.rs (inside `mod tests`)
// run: c04_sticky_non_native_type --features derive
//
// C04 finding 1: `Deserializer::non_native_type` is left set after a `SymbolRef` (SYMBOL_REF) or a
// `LazyValue` (LAZY_VALUE) has been decoded, and the next value decoded through the same
// `Deserializer` is interpreted under the stale marker:
//  * stale `SymbolRef` + a binary  -> `unreachable!()` in `deserialize_byte_buf` (panic)
//  * stale `LazyValue` + `&[u8]`   -> `unreachable!()` in `deserialize_bytes`    (panic)
//  * stale `LazyValue` + a binary  -> the binary is returned *with* its constructor and size octets
//    (wrong value, and the value does not survive encode + decode)
//
// violated: "it never panics"; "When decoding succeeds, re-encoding the result and decoding again
//   gives the same value."
// where: serde_amqp/src/de.rs deserialize_newtype_struct l.835-837 (SYMBOL_REF) and l.856-858
//   (LAZY_VALUE) set the marker; deserialize_str (l.711-730) and the LazyValue arm of
//   deserialize_byte_buf (l.739) never clear it (Symbol/Decimal/Uuid/Timestamp paths do);
//   unreachable!() at l.740 and l.762.
// observed on the unmodified tree:
//   symbol_ref_then_binary: panicked at serde_amqp/src/de.rs:740:18: internal error: entered
//     unreachable code: Only Binary and LazyValue are expected in deserialize_byte_buf
//   lazy_value_then_bytes:  panicked at serde_amqp/src/de.rs:762:17: internal error: entered unreachable code
//   lazy_value_then_binary: left (LazyValue(b"@"), [160, 1, 255]) right (LazyValue(b"@"), [160, 3, 160, 1, 255])
// minimal repair (not implemented): `take()` the marker at the top of deserialize_str /
//   deserialize_byte_buf / deserialize_bytes (or reset it in the SymbolRef and LazyValue paths), and
//   turn the two unreachable!() arms into Err(Error::InvalidFormatCode).

    #[test]
    fn c04_sticky_non_native_type_symbol_ref_then_binary_panics() {
        use crate::primitives::{OrderedMap, SymbolRef};
        use crate::Value;

        // map8 { sym8 "k" : vbin8 [0x01] }  -- a well formed AMQP map
        let buf: &[u8] = &[0xc1, 0x07, 0x02, 0xa3, 0x01, b'k', 0xa0, 0x01, 0x01];

        // reference: the owned key type decodes it
        let owned: OrderedMap<crate::primitives::Symbol, Value> = from_slice(buf).unwrap();
        assert_eq!(owned.len(), 1);

        let result = std::panic::catch_unwind(|| {
            from_slice::<OrderedMap<SymbolRef<'_>, Value>>(buf).map(|m| m.len())
        });
        assert!(
            result.is_ok(),
            "decoding untrusted bytes panicked instead of returning a value or an error"
        );
        assert_eq!(result.unwrap().unwrap(), 1);
    }

    #[test]
    fn c04_sticky_non_native_type_lazy_value_then_bytes_panics() {
        use crate::lazy::LazyValue;

        // list8 [ null, vbin8 [0x01, 0x02] ]
        let buf: &[u8] = &[0xc0, 0x06, 0x02, 0x40, 0xa0, 0x02, 0x01, 0x02];

        // reference: without the LazyValue in front the borrowed bytes decode
        let plain: ((), &[u8]) = from_slice(buf).unwrap();
        assert_eq!(plain.1, &[0x01, 0x02]);

        let result = std::panic::catch_unwind(|| {
            from_slice::<(LazyValue, &[u8])>(buf).map(|(_, b)| b.to_vec())
        });
        assert!(
            result.is_ok(),
            "decoding untrusted bytes panicked instead of returning a value or an error"
        );
        assert_eq!(result.unwrap().unwrap(), vec![0x01, 0x02]);
    }

    #[test]
    fn c04_sticky_non_native_type_lazy_value_then_binary_is_wrong_and_does_not_round_trip() {
        use crate::lazy::LazyValue;
        use serde_bytes::ByteBuf;

        // list8 [ null, vbin8 [0xff] ]
        let buf: &[u8] = &[0xc0, 0x05, 0x02, 0x40, 0xa0, 0x01, 0xff];

        for via_io in [false, true] {
            let first: (LazyValue, ByteBuf) = if via_io {
                from_reader(buf).unwrap()
            } else {
                from_slice(buf).unwrap()
            };

            // re-encode and decode again: must give the same value
            let encoded = crate::to_vec(&first).unwrap();
            let second: (LazyValue, ByteBuf) = from_slice(&encoded).unwrap();
            assert_eq!(
                first, second,
                "re-encoding and decoding again gave a different value (io reader: {via_io})"
            );

            // and the binary is the one octet that is on the wire
            assert_eq!(first.1.as_ref(), &[0xff], "(io reader: {via_io})");
        }
    }
