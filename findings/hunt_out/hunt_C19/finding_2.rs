// append-to: new module at end of fe2o3-amqp/src/acceptor/connection.rs
// run: hunt_c19_plain_mechanism_name --features acceptor
#[cfg(test)]
mod hunt_c19_plain_mechanism_name {
    //! C19, quantifier "every mechanism name": a listener that offers only PLAIN completes the
    //! SASL exchange with outcome OK for a sasl-init that selects a mechanism the listener never
    //! offered (and that does not exist), as long as the initial-response happens to parse as
    //! PLAIN. (AMQP 1.0 5.3.3.2: "If the selected mechanism is not supported by the receiving
    //! peer, it MUST close the connection with the authentication-failure close-code".)
    use super::*;
    use crate::acceptor::SaslPlainMechanism;
    use bytes::BytesMut;
    use fe2o3_amqp_types::primitives::{Binary, Symbol};
    use fe2o3_amqp_types::sasl::SaslInit;
    use tokio::io::{AsyncReadExt, AsyncWriteExt};
    use tokio_util::codec::{Decoder, Encoder};

    fn enc(frame: sasl::Frame) -> Vec<u8> {
        let mut body = BytesMut::new();
        sasl::FrameCodec {}.encode(frame, &mut body).unwrap();
        let mut out = Vec::new();
        out.extend_from_slice(&(body.len() as u32 + 4).to_be_bytes());
        out.extend_from_slice(&body);
        out
    }

    async fn read_sasl_frame<R: AsyncReadExt + Unpin>(r: &mut R) -> sasl::Frame {
        let mut len = [0u8; 4];
        r.read_exact(&mut len).await.unwrap();
        let mut body = vec![0u8; u32::from_be_bytes(len) as usize - 4];
        r.read_exact(&mut body).await.unwrap();
        let mut b = BytesMut::from(&body[..]);
        sasl::FrameCodec {}.decode(&mut b).unwrap().unwrap()
    }

    async fn attempt(mechanism: &str) -> (Vec<String>, Result<(), String>, SaslCode) {
        let (mut client_io, server_io) = tokio::io::duplex(65536);
        let acceptor = ConnectionAcceptor::builder()
            .container_id("listener")
            .sasl_acceptor(SaslPlainMechanism::new("guest", "guest"))
            .build();
        let server = tokio::spawn(async move { acceptor.accept(server_io).await });

        client_io.write_all(b"AMQP\x03\x01\x00\x00").await.unwrap();
        let init = SaslInit {
            mechanism: Symbol::from(mechanism),
            initial_response: Some(Binary::from(b"\0guest\0guest".to_vec())),
            hostname: None,
        };
        client_io.write_all(&enc(sasl::Frame::Init(init))).await.unwrap();
        client_io.write_all(b"AMQP\x00\x01\x00\x00").await.unwrap();
        client_io
            .write_all(&[
                0x00, 0x00, 0x00, 0x11, 0x02, 0x00, 0x00, 0x00, 0x00, 0x53, 0x10, 0xc0, 0x04, 0x01,
                0xa1, 0x01, b'c',
            ])
            .await
            .unwrap();

        let mut hdr = [0u8; 8];
        client_io.read_exact(&mut hdr).await.unwrap();
        let offered = match read_sasl_frame(&mut client_io).await {
            sasl::Frame::Mechanisms(m) => m
                .sasl_server_mechanisms
                .0
                .iter()
                .map(|s| s.as_str().to_string())
                .collect::<Vec<_>>(),
            other => panic!("expected mechanisms, got {:?}", other),
        };
        let code = match read_sasl_frame(&mut client_io).await {
            sasl::Frame::Outcome(outcome) => outcome.code,
            other => panic!("expected outcome, got {:?}", other),
        };
        let res = tokio::time::timeout(Duration::from_secs(5), server)
            .await
            .expect("accept() hangs")
            .unwrap();
        (offered, res.map(|_| ()).map_err(|e| format!("{:?}", e)), code)
    }

    #[tokio::test]
    async fn init_with_a_mechanism_that_was_not_offered_is_refused() {
        for mechanism in ["BOGUS", "ANONYMOUS", "SCRAM-SHA-256", "plain", ""] {
            let (offered, res, code) = attempt(mechanism).await;
            assert_eq!(offered, vec!["PLAIN".to_string()]);
            assert!(
                res.is_err() && code != SaslCode::Ok,
                "listener offered {:?}; sasl-init selecting {:?} ended with outcome {:?} and accept() = {:?}",
                offered,
                mechanism,
                code,
                res
            );
        }
    }
}
