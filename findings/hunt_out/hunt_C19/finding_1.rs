// append-to: new module at end of fe2o3-amqp/src/acceptor/connection.rs
// run: hunt_c19_plain_trailing_nul --features acceptor
#[cfg(test)]
mod hunt_c19_plain_trailing_nul {
    //! C19: "wrong passwords ... embedded NULs ... all end in failure on both sides".
    //!
    //! RFC 4616: message = [authzid] NUL authcid NUL passwd, and passwd is everything behind the
    //! second NUL (and must not contain NUL). The listener is configured with guest/guest. A peer
    //! whose password field is `guest\0<anything>` (the configured password is a strict prefix of
    //! it, followed by an embedded NUL) is authenticated.
    use super::*;
    use crate::acceptor::SaslPlainMechanism;
    use bytes::BytesMut;
    use fe2o3_amqp_types::primitives::{Binary, Symbol};
    use fe2o3_amqp_types::sasl::SaslInit;
    use tokio::io::{AsyncReadExt, AsyncWriteExt};
    use tokio_util::codec::{Decoder, Encoder};

    fn enc(frame: sasl::Frame) -> Vec<u8> {
        let mut body = BytesMut::new();
        sasl::FrameCodec {}.encode(frame, &mut body).unwrap();
        let mut out = Vec::new();
        out.extend_from_slice(&(body.len() as u32 + 4).to_be_bytes());
        out.extend_from_slice(&body);
        out
    }

    async fn read_sasl_frame<R: AsyncReadExt + Unpin>(r: &mut R) -> sasl::Frame {
        let mut len = [0u8; 4];
        r.read_exact(&mut len).await.unwrap();
        let mut body = vec![0u8; u32::from_be_bytes(len) as usize - 4];
        r.read_exact(&mut body).await.unwrap();
        let mut b = BytesMut::from(&body[..]);
        sasl::FrameCodec {}.decode(&mut b).unwrap().unwrap()
    }

    /// Scripted client: SASL header, sasl-init(PLAIN, `response`), then (pipelined) AMQP header
    /// and an open frame. Returns (what accept() returned, the sasl-outcome code the client saw).
    async fn attempt(response: &[u8]) -> (Result<(), String>, SaslCode) {
        let (mut client_io, server_io) = tokio::io::duplex(65536);
        let acceptor = ConnectionAcceptor::builder()
            .container_id("listener")
            .sasl_acceptor(SaslPlainMechanism::new("guest", "guest"))
            .build();
        let server = tokio::spawn(async move { acceptor.accept(server_io).await });

        client_io.write_all(b"AMQP\x03\x01\x00\x00").await.unwrap();
        let init = SaslInit {
            mechanism: Symbol::from("PLAIN"),
            initial_response: Some(Binary::from(response.to_vec())),
            hostname: None,
        };
        client_io.write_all(&enc(sasl::Frame::Init(init))).await.unwrap();
        client_io.write_all(b"AMQP\x00\x01\x00\x00").await.unwrap();
        // open(container-id = "c")
        client_io
            .write_all(&[
                0x00, 0x00, 0x00, 0x11, 0x02, 0x00, 0x00, 0x00, 0x00, 0x53, 0x10, 0xc0, 0x04, 0x01,
                0xa1, 0x01, b'c',
            ])
            .await
            .unwrap();

        let mut hdr = [0u8; 8];
        client_io.read_exact(&mut hdr).await.unwrap();
        assert_eq!(&hdr, b"AMQP\x03\x01\x00\x00");
        match read_sasl_frame(&mut client_io).await {
            sasl::Frame::Mechanisms(_) => {}
            other => panic!("expected mechanisms, got {:?}", other),
        }
        let code = match read_sasl_frame(&mut client_io).await {
            sasl::Frame::Outcome(outcome) => outcome.code,
            other => panic!("expected outcome, got {:?}", other),
        };

        let res = tokio::time::timeout(Duration::from_secs(5), server)
            .await
            .expect("accept() hangs")
            .unwrap();
        (res.map(|_| ()).map_err(|e| format!("{:?}", e)), code)
    }

    #[tokio::test]
    async fn plain_password_with_embedded_nul_is_refused() {
        // sanity: the harness authenticates with the right password and is refused with a
        // password that differs in the last byte / is a prefix of the configured one
        let (res, code) = attempt(b"\0guest\0guest").await;
        assert!(res.is_ok() && code == SaslCode::Ok, "{:?} {:?}", res, code);
        let (res, code) = attempt(b"\0guest\0guesu").await;
        assert!(res.is_err() && code == SaslCode::Auth, "{:?} {:?}", res, code);
        let (res, code) = attempt(b"\0guest\0gues").await;
        assert!(res.is_err() && code == SaslCode::Auth, "{:?} {:?}", res, code);

        // passwd = "guest\0" and "guest\0junk": not the configured password
        for response in [&b"\0guest\0guest\0"[..], &b"\0guest\0guest\0junk"[..]] {
            let (res, code) = attempt(response).await;
            assert!(
                res.is_err() && code != SaslCode::Ok,
                "PLAIN response {:?} (password field {:?} != configured \"guest\") was authenticated: \
                 accept() = {:?}, outcome seen by the client = {:?}",
                String::from_utf8_lossy(response),
                String::from_utf8_lossy(&response[7..]),
                res,
                code
            );
        }
    }
}
