// append-to: new module at end of serde_amqp/src/size_ser.rs
// run: c20_hunt_array_of_tuple_structs --features derive
#[cfg(test)]
mod c20_hunt_array_of_tuple_structs {
    //! C20, sentence 1.  An array whose elements are plain tuple structs:
    //! `ser::TupleStructSerializer::end` always writes the list with `IsArrayElement::False`
    //! (constructor byte on every element), `size_ser::TupleStructSerializer::end` uses the
    //! inherited `is_array_element` (no constructor byte from the second element on).
    use serde::Serialize;

    use crate::{primitives::Array, serialized_size, to_vec};

    #[derive(Debug, Serialize)]
    struct PlainTuple(i32, i32);

    #[test]
    fn array_of_plain_tuple_structs() {
        let value = Array::from(vec![PlainTuple(1, 2), PlainTuple(3, 4), PlainTuple(5, 6)]);
        let buf = to_vec(&value).unwrap();
        assert_eq!(serialized_size(&value).unwrap(), buf.len(), "encoding: {:x?}", buf);
    }
}
