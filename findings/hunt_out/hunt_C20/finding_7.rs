// append-to: new module at end of serde_amqp/src/value/de.rs
// run: c20_hunt_array_of_lists_through_value --features derive
#[cfg(test)]
mod c20_hunt_array_of_lists_through_value {
    //! C20, sentence 3.  An array whose elements are lists (Vec, tuple): through bytes it
    //! round-trips, through the value tree it is refused.  `value::de::SeqAccess` hands every
    //! element of an array to `Deserializer::array(elem)`, i.e. with `seq_type = Some(Array)`,
    //! so `deserialize_seq` / `deserialize_tuple` on the element insist on `Value::Array` and
    //! reject the `Value::List` that `to_value` put there.
    use crate::{from_slice, from_value, primitives::Array, to_value, to_vec};

    fn check<T>(v: T)
    where
        T: serde::Serialize + serde::de::DeserializeOwned + std::fmt::Debug + PartialEq,
    {
        let buf = to_vec(&v).unwrap();
        let bytes: Result<T, String> = from_slice(&buf).map_err(|e| e.to_string());
        assert_eq!(bytes.as_ref(), Ok(&v), "sanity: the byte path round-trips");
        let tree = to_value(&v).unwrap();
        let shown = format!("{:?}", tree);
        let value: Result<T, String> = from_value(tree).map_err(|e| e.to_string());
        assert_eq!(value, bytes, "value tree was {}", shown);
    }

    #[test]
    fn array_of_vecs() {
        check(Array::from(vec![vec![1i32], vec![2i32]]));
    }

    #[test]
    fn array_of_tuples() {
        check(Array::from(vec![(1i32, 2i32), (3, 4)]));
    }
}
