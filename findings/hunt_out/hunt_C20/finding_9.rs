// append-to: new module at end of fe2o3-amqp-types/src/performatives/disposition.rs
// run: c20_hunt_protocol_types
#[cfg(test)]
mod c20_hunt_protocol_types {
    //! The root causes of finding 1 (size of a described list is computed over descriptor + body)
    //! and finding 6 (no described type can be read back from a value tree), shown on the protocol
    //! types themselves.
    use serde_amqp::{from_slice, from_value, serialized_size, to_value, to_vec};

    use crate::{
        definitions::Role,
        messaging::{Accepted, DeliveryState, Header, Properties},
        performatives::{Disposition, End},
    };

    fn accepted_disposition() -> Disposition {
        Disposition {
            role: Role::Receiver,
            first: 1,
            last: Some(2),
            settled: true,
            state: Some(DeliveryState::Accepted(Accepted {})),
            batchable: false,
        }
    }

    #[test]
    fn size_of_accepted() {
        let buf = to_vec(&Accepted {}).unwrap();
        assert_eq!(serialized_size(&Accepted {}).unwrap(), buf.len(), "{:x?}", buf);
    }

    #[test]
    fn size_of_disposition_with_accepted() {
        let value = accepted_disposition();
        let buf = to_vec(&value).unwrap();
        assert_eq!(serialized_size(&value).unwrap(), buf.len(), "{:x?}", buf);
    }

    #[test]
    fn size_of_end_header_properties() {
        let buf = to_vec(&End { error: None }).unwrap();
        assert_eq!(serialized_size(&End { error: None }).unwrap(), buf.len(), "end {:x?}", buf);
        let buf = to_vec(&Header::default()).unwrap();
        assert_eq!(serialized_size(&Header::default()).unwrap(), buf.len(), "header {:x?}", buf);
        let buf = to_vec(&Properties::default()).unwrap();
        assert_eq!(serialized_size(&Properties::default()).unwrap(), buf.len(), "properties {:x?}", buf);
    }

    #[test]
    fn disposition_through_value_vs_through_bytes() {
        let value = accepted_disposition();
        let buf = to_vec(&value).unwrap();
        let bytes: Result<Disposition, String> = from_slice(&buf).map_err(|e| e.to_string());
        assert_eq!(bytes.as_ref(), Ok(&value));
        let through_value: Result<Disposition, String> = to_value(&value)
            .and_then(from_value)
            .map_err(|e| e.to_string());
        assert_eq!(through_value, bytes);
    }
}
