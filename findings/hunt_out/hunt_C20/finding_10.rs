// append-to: new module at end of serde_amqp/src/lazy.rs
// run: c20_hunt_lazy_value_marker --features derive
#[cfg(test)]
mod c20_hunt_lazy_value_marker {
    //! C20, sentence 3 (through the value tree == through bytes).  The byte deserializer keeps
    //! `non_native_type = Some(LazyValue)` after it has read a `LazyValue`
    //! (`de::Deserializer::deserialize_byte_buf` never clears it), so the next `binary` that is
    //! read with `deserialize_byte_buf` (ByteBuf, `Value::Binary`) is captured raw, constructor
    //! and length byte included.  The value deserializer has one deserializer per element and
    //! gives the right answer.
    use serde_bytes::ByteBuf;

    use super::{to_lazy_value, LazyValue};
    use crate::{from_slice, from_value, to_value, to_vec, Value};

    #[test]
    fn lazy_value_followed_by_binary() {
        let v = (to_lazy_value(&5i32).unwrap(), ByteBuf::from(vec![1u8, 2, 3]));

        let buf = to_vec(&v).unwrap();
        let through_bytes: Result<(LazyValue, ByteBuf), String> =
            from_slice(&buf).map_err(|e| e.to_string());
        let through_value: Result<(LazyValue, ByteBuf), String> =
            to_value(&v).and_then(from_value).map_err(|e| e.to_string());

        assert_eq!(through_value.as_ref(), Ok(&v));
        assert_eq!(through_bytes, through_value, "encoding was {:x?}", buf);
    }

    /// The same bytes read with two target types that only differ in the first element
    #[test]
    fn binary_depends_on_how_the_previous_element_was_read() {
        let v = (5i32, ByteBuf::from(vec![1u8, 2, 3]));
        let buf = to_vec(&v).unwrap();
        let as_value: (Value, ByteBuf) = from_slice(&buf).unwrap();
        let as_lazy: (LazyValue, ByteBuf) = from_slice(&buf).unwrap();
        assert_eq!(as_value.1, as_lazy.1);
    }
}
