// append-to: new module at end of serde_amqp/src/size_ser.rs
// run: c20_hunt_map_array_key --features derive
#[cfg(test)]
mod c20_hunt_map_array_key {
    //! C20, sentence 1 (size == length of encoding) and sentence 3 (through the value tree ==
    //! through bytes), for a map that has an array as a key.  `ser::MapSerializer::serialize_entry`
    //! (and `value::ser::MapSerializer::serialize_entry`) write key and value with ONE
    //! serializer; an array key leaves `seq_type = Some(Array)` behind, so a list value behind it
    //! is written as an array.  `size_ser::MapSerializer::serialize_entry` uses a fresh
    //! serializer for the value.
    use std::collections::BTreeMap;

    use crate::{
        from_slice, from_value,
        primitives::{Array, OrderedMap},
        serialized_size, to_value, to_vec, Value,
    };

    #[test]
    fn size_of_value_map_with_array_key() {
        let mut map = OrderedMap::new();
        map.insert(
            Value::Array(Array::from(vec![Value::Int(1)])),
            Value::List(vec![Value::Int(1000), Value::Int(2)]),
        );
        let value = Value::Map(map);
        let buf = to_vec(&value).unwrap();
        assert_eq!(serialized_size(&value).unwrap(), buf.len(), "encoding: {:x?}", buf);
    }

    #[test]
    fn size_of_smallest_case() {
        // { array[] : list[] }
        let mut map = OrderedMap::new();
        map.insert(Value::Array(Array::from(vec![])), Value::List(vec![]));
        let value = Value::Map(map);
        let buf = to_vec(&value).unwrap();
        assert_eq!(serialized_size(&value).unwrap(), buf.len(), "encoding: {:x?}", buf);
    }

    #[test]
    fn typed_map_through_value_vs_through_bytes() {
        let mut map: BTreeMap<Array<i32>, Vec<i32>> = BTreeMap::new();
        map.insert(Array::from(vec![1]), vec![1000, 2]);

        let buf = to_vec(&map).unwrap();
        let through_bytes: Result<BTreeMap<Array<i32>, Vec<i32>>, _> = from_slice(&buf);
        let through_value: Result<BTreeMap<Array<i32>, Vec<i32>>, _> =
            to_value(&map).and_then(from_value);
        assert_eq!(
            through_bytes.map_err(|e| e.to_string()),
            through_value.map_err(|e| e.to_string())
        );
    }
}
