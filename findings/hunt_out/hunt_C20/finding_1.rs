// append-to: new module at end of serde_amqp/src/size_ser.rs
// run: c20_hunt_described_header --features derive
#[cfg(all(test, feature = "serde_amqp_derive"))]
mod c20_hunt_described_header {
    //! C20, sentence 1: "The size reported for a value without encoding it equals the length of
    //! its encoding."  Violated for every described list / described map composite whose body is
    //! empty, or whose body is at most 254 bytes while descriptor + body exceed 254 bytes.
    use crate as serde_amqp;
    use crate::macros::SerializeComposite;
    use crate::{serialized_size, to_vec};
    use serde_bytes::ByteBuf;

    #[derive(Debug, SerializeComposite)]
    #[amqp_contract(code = "0x00:0x24", encoding = "list")]
    struct NoFields {}

    #[derive(Debug, SerializeComposite)]
    #[amqp_contract(code = "0x00:0x13", encoding = "list")]
    struct ListBody {
        a: Option<ByteBuf>,
    }

    #[derive(Debug, SerializeComposite)]
    #[amqp_contract(code = "0x00:0x13", encoding = "list")]
    struct TupleBody(Option<ByteBuf>);

    #[derive(Debug, SerializeComposite)]
    #[amqp_contract(code = "0x00:0x13", encoding = "map")]
    struct MapBody {
        a: Option<ByteBuf>,
    }

    /// A composite with no (or only absent) fields is encoded as descriptor + list0 = 4 bytes,
    /// the size calculator says 6.  (This is `Accepted`, `Released`, `End { error: None }`,
    /// `Header::default()`, `Properties::default()`, ... and everything that contains one.)
    #[test]
    fn empty_described_list() {
        let value = NoFields {};
        assert_eq!(to_vec(&value).unwrap(), vec![0x00, 0x53, 0x24, 0x45]);
        assert_eq!(
            serialized_size(&value).unwrap(),
            to_vec(&value).unwrap().len(),
            "unit composite"
        );
    }

    #[test]
    fn described_list_with_only_absent_fields() {
        let value = ListBody { a: None };
        assert_eq!(
            serialized_size(&value).unwrap(),
            to_vec(&value).unwrap().len()
        );
    }

    /// Body sizes on both sides of the list8 / list32 boundary.
    #[test]
    fn described_list_around_the_list8_boundary() {
        let mut bad = Vec::new();
        for n in 240..=260usize {
            let value = ListBody {
                a: Some(ByteBuf::from(vec![0u8; n])),
            };
            let size = serialized_size(&value).unwrap();
            let len = to_vec(&value).unwrap().len();
            if size != len {
                bad.push((n, size, len));
            }
            let value = TupleBody(Some(ByteBuf::from(vec![0u8; n])));
            let size = serialized_size(&value).unwrap();
            let len = to_vec(&value).unwrap().len();
            if size != len {
                bad.push((n, size, len));
            }
        }
        assert!(bad.is_empty(), "(binary length, serialized_size, to_vec().len()): {:?}", bad);
    }

    #[test]
    fn described_map_around_the_map8_boundary() {
        let mut bad = Vec::new();
        for n in 240..=260usize {
            let value = MapBody {
                a: Some(ByteBuf::from(vec![0u8; n])),
            };
            let size = serialized_size(&value).unwrap();
            let len = to_vec(&value).unwrap().len();
            if size != len {
                bad.push((n, size, len));
            }
        }
        assert!(bad.is_empty(), "(binary length, serialized_size, to_vec().len()): {:?}", bad);
    }
}
