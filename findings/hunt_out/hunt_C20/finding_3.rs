// append-to: new module at end of serde_amqp/src/size_ser.rs
// run: c20_hunt_described_plain_struct --features derive
#[cfg(test)]
mod c20_hunt_described_plain_struct {
    //! C20, sentence 1.  `Described<T>` (serialize_struct(DESCRIBED_BASIC)) around a plain serde
    //! struct or tuple struct: `ser::StructSerializer` hands the value to the *parent* serializer,
    //! whose struct-encoding stack still has `DescribedBasic` on top; the inner struct inherits
    //! it, writes its fields without a list header and pops the entry, and the outer `end()` then
    //! finds `StructEncoding::None` and appends an empty list (0x45).  `size_ser::StructSerializer`
    //! gives the value a fresh serializer and counts a list.
    use serde::Serialize;

    use crate::{described::Described, descriptor::Descriptor, serialized_size, to_vec};

    #[derive(Debug, Serialize)]
    struct Plain {
        a: i32,
        b: String,
    }

    #[derive(Debug, Serialize)]
    struct PlainTuple(i32, i32);

    #[test]
    fn described_plain_struct() {
        let value = Described {
            descriptor: Descriptor::Code(1),
            value: Plain { a: 1, b: "x".into() },
        };
        let buf = to_vec(&value).unwrap();
        assert_eq!(serialized_size(&value).unwrap(), buf.len(), "encoding: {:x?}", buf);
    }

    #[test]
    fn described_plain_tuple_struct() {
        let value = Described {
            descriptor: Descriptor::Code(1),
            value: PlainTuple(1, 2),
        };
        let buf = to_vec(&value).unwrap();
        assert_eq!(serialized_size(&value).unwrap(), buf.len(), "encoding: {:x?}", buf);
    }
}
