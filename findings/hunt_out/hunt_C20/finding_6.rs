// append-to: new module at end of serde_amqp/src/value/de.rs
// run: c20_hunt_described_through_value --features derive
#[cfg(all(test, feature = "serde_amqp_derive"))]
mod c20_hunt_described_through_value {
    //! C20, sentence 3.  No described type survives `to_value` / `from_value`: `to_value` produces
    //! `Value::Described`, and `value::de::Deserializer::{deserialize_struct,
    //! deserialize_tuple_struct}` go straight to `deserialize_seq`, which only accepts
    //! `Value::List`.  Through bytes all of these round-trip.
    use crate as serde_amqp;
    use crate::{
        described::Described, descriptor::Descriptor, from_slice, from_value, to_value, to_vec,
    };
    use serde_amqp_derive::{DeserializeComposite, SerializeComposite};

    #[derive(Debug, PartialEq, SerializeComposite, DeserializeComposite)]
    #[amqp_contract(code = "0x00:0x13", encoding = "list")]
    struct ListComposite {
        a: i32,
        b: Option<String>,
    }

    #[derive(Debug, PartialEq, SerializeComposite, DeserializeComposite)]
    #[amqp_contract(code = "0x00:0x14", encoding = "list")]
    struct TupleComposite(i32, bool);

    #[derive(Debug, PartialEq, SerializeComposite, DeserializeComposite)]
    #[amqp_contract(code = "0x00:0x16", encoding = "basic")]
    struct BasicComposite(i32);

    fn check<T>(v: T)
    where
        T: serde::Serialize + serde::de::DeserializeOwned + std::fmt::Debug + PartialEq,
    {
        let buf = to_vec(&v).unwrap();
        let bytes: Result<T, String> = from_slice(&buf).map_err(|e| e.to_string());
        assert_eq!(bytes.as_ref(), Ok(&v), "sanity: the byte path round-trips");
        let tree = to_value(&v).unwrap();
        let shown = format!("{:?}", tree);
        let value: Result<T, String> = from_value(tree).map_err(|e| e.to_string());
        assert_eq!(value, bytes, "value tree was {}", shown);
    }

    #[test]
    fn list_composite() {
        check(ListComposite { a: 1, b: Some("x".into()) });
    }

    #[test]
    fn tuple_composite() {
        check(TupleComposite(1, true));
    }

    #[test]
    fn basic_composite() {
        check(BasicComposite(7));
    }

    #[test]
    fn described_wrapper() {
        check(Described { descriptor: Descriptor::Code(1), value: 5i32 });
    }

    #[test]
    fn descriptor() {
        check(Descriptor::Code(3));
        check(Descriptor::Name(crate::primitives::Symbol::from("a:b")));
    }
}
