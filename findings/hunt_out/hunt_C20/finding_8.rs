// append-to: new module at end of serde_amqp/src/read/ioread.rs
// run: c20_hunt_transparent_vec_lookahead --features derive,extensions
#[cfg(all(test, feature = "extensions"))]
mod c20_hunt_transparent_vec_lookahead {
    //! C20, sentence 2: "Decoding from an in-memory slice and decoding from a stream give the same
    //! result and consume the same number of bytes, so that whatever follows an encoded value ...
    //! is left untouched."  `TransparentVecAccess::next_element_seed` finds the end of the
    //! sequence by peeking at the constructor of the NEXT value.  With the slice reader that is
    //! free; the io reader has to pull the byte(s) out of the stream into `IoReader.buf`, and they
    //! are gone for whoever reads the stream next.
    use std::io::Cursor;

    use crate::{
        de::Deserializer,
        extensions::TransparentVec,
        from_reader,
        read::SliceReader,
        to_vec,
    };
    use serde::Deserialize;

    #[test]
    fn primitive_elements_followed_by_another_value() {
        let v = TransparentVec::new(vec![1i32, 2, 3]);
        let mut bytes = to_vec(&v).unwrap();
        let encoded_len = bytes.len();
        bytes.extend_from_slice(&[0xa1, 0x02, b'h', b'i']); // the string "hi" follows

        // slice reader
        let mut de = Deserializer::new(SliceReader::new(&bytes));
        let from_slice: TransparentVec<i32> = Deserialize::deserialize(&mut de).unwrap();
        let slice_consumed = {
            // what is left can still be decoded
            let rest: String = Deserialize::deserialize(&mut de).unwrap();
            assert_eq!(rest, "hi");
            encoded_len
        };

        // io reader over a stream
        let mut stream = Cursor::new(&bytes[..]);
        let from_stream: TransparentVec<i32> = from_reader(&mut stream).unwrap();
        assert_eq!(from_stream, from_slice);
        assert_eq!(
            stream.position() as usize,
            slice_consumed,
            "the io reader took bytes of the following value out of the stream"
        );
        let rest: String = from_reader(&mut stream).unwrap();
        assert_eq!(rest, "hi");
    }
}
