// append-to: new module at end of serde_amqp/src/value/de.rs
// run: c20_hunt_value_through_value --features derive
#[cfg(test)]
mod c20_hunt_value_through_value {
    //! C20, sentence 3: "Converting a typed value to the untyped value tree and back is equivalent
    //! to going through bytes."  Taken with T = `Value` itself (default features, i.e. without
    //! `json`): through bytes every one of these values comes back unchanged; through
    //! `to_value` / `from_value` they are refused or come back as a different value.
    use crate::{
        described::Described,
        descriptor::Descriptor,
        from_slice, from_value,
        primitives::{Array, Dec32, OrderedMap, Symbol, Timestamp, Uuid},
        to_value, to_vec, Value,
    };

    fn through_bytes(v: &Value) -> Result<Value, String> {
        let buf = to_vec(v).map_err(|e| e.to_string())?;
        from_slice(&buf).map_err(|e| e.to_string())
    }

    fn through_value(v: &Value) -> Result<Value, String> {
        let tree = to_value(v).map_err(|e| e.to_string())?;
        from_value(tree).map_err(|e| e.to_string())
    }

    fn check(v: Value) {
        // sanity: the byte path is the identity on these
        assert_eq!(through_bytes(&v), Ok(v.clone()));
        assert_eq!(through_value(&v), through_bytes(&v));
    }

    #[test]
    fn list() {
        check(Value::List(vec![Value::Int(1), Value::Bool(true)]));
    }

    #[test]
    fn array() {
        check(Value::Array(Array::from(vec![Value::Int(1), Value::Int(2)])));
    }

    #[test]
    fn described() {
        check(Value::Described(Box::new(Described {
            descriptor: Descriptor::Code(0x24),
            value: Value::List(vec![]),
        })));
    }

    #[test]
    fn symbol_in_map() {
        // comes back as a String
        let mut map = OrderedMap::new();
        map.insert(Value::Symbol(Symbol::from("a")), Value::Int(1));
        check(Value::Map(map));
    }

    #[test]
    fn timestamp_in_map() {
        // comes back as a Long
        let mut map = OrderedMap::new();
        map.insert(Value::Int(1), Value::Timestamp(Timestamp::from(5)));
        check(Value::Map(map));
    }

    #[test]
    fn decimal_and_uuid_in_map() {
        // come back as Binary
        let mut map = OrderedMap::new();
        map.insert(Value::Int(1), Value::Decimal32(Dec32::from([1, 2, 3, 4])));
        map.insert(Value::Int(2), Value::Uuid(Uuid::from([7; 16])));
        check(Value::Map(map));
    }

    /// The same through a typed container that holds `Value`s: the `properties` / `info` maps of
    /// the performatives are `OrderedMap<Symbol, Value>`.
    #[test]
    fn fields_map() {
        let mut fields: OrderedMap<Symbol, Value> = OrderedMap::new();
        fields.insert(Symbol::from("k"), Value::Symbol(Symbol::from("v")));

        let buf = to_vec(&fields).unwrap();
        let bytes: Result<OrderedMap<Symbol, Value>, String> =
            from_slice(&buf).map_err(|e| e.to_string());
        let value: Result<OrderedMap<Symbol, Value>, String> = to_value(&fields)
            .and_then(from_value)
            .map_err(|e| e.to_string());
        assert_eq!(bytes, Ok(fields));
        assert_eq!(value, bytes);
    }
}
