// append-to: new module at end of serde_amqp/src/value/mod.rs
// run: hunt_c03_f3 --features derive
// full command: cd /tmp/hunt_C03 && CARGO_TARGET_DIR=/tmp/hunt_C03/target cargo test -p serde_amqp --offline --lib --features derive hunt_c03_f3
//
// C03 finding 3: the encoder writes list32 / map32 / array32 with any count, the decoder refuses
// every count above de::MAX_ARRAY_COUNT (65 536) with Error::InvalidValue.
#[cfg(test)]
mod hunt_c03_f3 {
    use super::*;
    use crate::{from_slice, to_vec};

    fn round_trip(v: &Value) -> Value {
        let buf = to_vec(v).expect("encode");
        from_slice::<Value>(&buf).unwrap_or_else(|e| {
            panic!("decode failed: {:?}; {} bytes, head {:x?}", e, buf.len(), &buf[..12])
        })
    }

    /// control: 65 536 elements survive
    #[test]
    fn list_of_65536_nulls() {
        let v = Value::List(vec![Value::Null; 65_536]);
        assert_eq!(round_trip(&v), v);
    }

    #[test]
    fn list_of_65537_nulls() {
        let v = Value::List(vec![Value::Null; 65_537]);
        assert_eq!(round_trip(&v), v);
    }

    /// 32 769 entries = count 65 538
    #[test]
    fn map_of_32769_entries() {
        let m: OrderedMap<Value, Value> =
            (0..32_769u32).map(|i| (Value::Uint(i), Value::Null)).collect();
        let v = Value::Map(m);
        assert_eq!(round_trip(&v), v);
    }

    /// count (65 537) is far below the size (65 537 octets + header), so this is the cap, not the
    /// known count > size check
    #[test]
    fn array_of_65537_ubytes() {
        let v = Value::Array(Array(vec![Value::Ubyte(1); 65_537]));
        assert_eq!(round_trip(&v), v);
    }

    /// typed: Vec<u8> (a list of ubyte)
    #[test]
    fn typed_vec_of_70000_ubytes() {
        let v: Vec<u8> = vec![7; 70_000];
        let buf = to_vec(&v).unwrap();
        let out: Vec<u8> = from_slice(&buf).unwrap_or_else(|e| panic!("decode failed: {:?}", e));
        assert_eq!(out, v);
    }
}
