// append-to: new module at end of serde_amqp/src/de.rs
// run: hunt_c03_f4 --features derive
// full command: cd /tmp/hunt_C03 && CARGO_TARGET_DIR=/tmp/hunt_C03/target cargo test -p serde_amqp --offline --lib --features derive hunt_c03_f4
//
// C03 finding 4: a composite derived with `encoding = "map"` (described map, documented in
// serde_amqp_derive) is encoded fine but never decodes: after the descriptor key has been read,
// Deserializer.enum_type is left at EnumType::Descriptor, so the first field-name key is expected
// to start with 0x00 and is refused with InvalidFormatCode.
#[cfg(all(test, feature = "serde_amqp_derive"))]
#[allow(unused_macros)]
mod hunt_c03_f4 {
    use crate as serde_amqp;
    use crate::macros::{DeserializeComposite, SerializeComposite};
    use crate::primitives::Symbol;
    use crate::{from_slice, to_vec, Value};

    #[derive(Debug, PartialEq, SerializeComposite, DeserializeComposite)]
    #[amqp_contract(code = "0x00:0x13", encoding = "map", rename_all = "kebab-case")]
    struct Foo {
        is_fool: bool,
        a: Option<i32>,
        #[amqp_contract(default)]
        b: u32,
        name: Option<Symbol>,
    }

    #[test]
    fn map_encoded_composite_one_field() {
        let foo = Foo { is_fool: true, a: None, b: 0, name: None };
        let buf = to_vec(&foo).unwrap();
        // 00 53 13 | c1 0b 02 | a1 07 "is-fool" | 41
        assert_eq!(&buf[..6], &[0x00, 0x53, 0x13, 0xc1, 0x0b, 0x02]);
        // the bytes are a well-formed described map
        let as_value: Value = from_slice(&buf).unwrap();
        assert!(matches!(as_value, Value::Described(_)));
        let out: Foo =
            from_slice(&buf).unwrap_or_else(|e| panic!("decode failed: {:?}; bytes {:x?}", e, buf));
        assert_eq!(out, foo);
    }

    #[test]
    fn map_encoded_composite_all_fields() {
        let foo = Foo { is_fool: false, a: Some(-200), b: 70_000, name: Some(Symbol::from("n")) };
        let buf = to_vec(&foo).unwrap();
        let out: Foo =
            from_slice(&buf).unwrap_or_else(|e| panic!("decode failed: {:?}; bytes {:x?}", e, buf));
        assert_eq!(out, foo);
    }
}
