// append-to: new module at end of serde_amqp/src/de.rs
// run: hunt_c03_f5 --features derive
// full command: cd /tmp/hunt_C03 && CARGO_TARGET_DIR=/tmp/hunt_C03/target cargo test -p serde_amqp --offline --lib --features derive hunt_c03_f5
//
// C03 finding 5: the decoder's one-shot marker Deserializer.non_native_type is cleared for
// Symbol / Timestamp / Uuid / DecimalN, but NOT for SymbolRef (deserialize_str) and LazyValue
// (deserialize_byte_buf). It leaks into the next value: a binary that follows is either refused
// by `unreachable!()` (after a SymbolRef) or silently read as "raw bytes of the next value", i.e.
// including its constructor and size octets (after a LazyValue).
#[cfg(test)]
mod hunt_c03_f5 {
    use crate::lazy::{to_lazy_value, LazyValue};
    use crate::primitives::*;
    use crate::{from_slice, to_vec, Value};
    use serde_bytes::ByteBuf;

    /// list[ sym "key", vbin 01 02 03 ] as (SymbolRef, ByteBuf): panics in the decoder
    #[test]
    fn symbol_ref_then_binary() {
        let v = (SymbolRef("key"), ByteBuf::from(vec![1u8, 2, 3]));
        let buf = to_vec(&v).unwrap();
        assert_eq!(buf, [0xc0, 0x0b, 0x02, 0xa3, 0x03, b'k', b'e', b'y', 0xa0, 0x03, 1, 2, 3]);
        let out: (SymbolRef, ByteBuf) = from_slice(&buf).unwrap();
        assert_eq!(out, v);
    }

    /// a fields-like map with borrowed symbol keys: { sym "key" => vbin }: panics in the decoder
    #[test]
    fn symbol_ref_keyed_map_with_binary_value() {
        let mut m: OrderedMap<SymbolRef, Value> = OrderedMap::new();
        m.insert(SymbolRef("key"), Value::Binary(ByteBuf::from(vec![1u8, 2, 3])));
        let buf = to_vec(&m).unwrap();
        let out: OrderedMap<SymbolRef, Value> = from_slice(&buf).unwrap();
        assert_eq!(out, m);
    }

    /// list[ <lazy: str "hello">, vbin 01 02 03 ]: the binary comes back as a0 03 01 02 03
    #[test]
    fn lazy_value_then_binary() {
        let lazy: LazyValue = to_lazy_value(&"hello").unwrap();
        let v = (lazy, ByteBuf::from(vec![1u8, 2, 3]));
        let buf = to_vec(&v).unwrap();
        let out: (LazyValue, ByteBuf) = from_slice(&buf).unwrap();
        assert_eq!(out, v);
    }
}
