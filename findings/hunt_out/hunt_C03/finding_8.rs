// append-to: new module at end of serde_amqp/src/de.rs
// run: hunt_c03_f8 --features derive
// full command: cd /tmp/hunt_C03 && CARGO_TARGET_DIR=/tmp/hunt_C03/target cargo test -p serde_amqp --offline --lib --features derive hunt_c03_f8
//
// C03 finding 8 (minor, LazyValue only): a LazyValue that carries a described value whose value is
// itself a described value is encoded (the bytes are copied) but cannot be decoded again:
// read::read_described_bytes refuses a described type in the value position.
#[cfg(test)]
mod hunt_c03_f8 {
    use crate::described::Described;
    use crate::descriptor::Descriptor;
    use crate::lazy::{to_lazy_value, LazyValue};
    use crate::{from_slice, to_vec, Value};

    fn described(code: u64, value: Value) -> Value {
        Value::Described(Box::new(Described { descriptor: Descriptor::Code(code), value }))
    }

    /// control: one level of description
    #[test]
    fn lazy_described() {
        let v = described(5, Value::Int(1));
        let lazy = to_lazy_value(&v).unwrap();
        let buf = to_vec(&lazy).unwrap();
        let out: LazyValue = from_slice(&buf).unwrap();
        assert_eq!(out, lazy);
    }

    /// 00 53 05 | 00 53 06 | 54 01 : InvalidFormatCode
    #[test]
    fn lazy_described_described() {
        let v = described(5, described(6, Value::Int(1)));
        // as a Value the bytes round-trip
        let bytes = to_vec(&v).unwrap();
        assert_eq!(from_slice::<Value>(&bytes).unwrap(), v);
        let lazy = to_lazy_value(&v).unwrap();
        let buf = to_vec(&lazy).unwrap();
        assert_eq!(buf, bytes);
        let out: LazyValue =
            from_slice(&buf).unwrap_or_else(|e| panic!("decode failed: {:?}; bytes {:x?}", e, buf));
        assert_eq!(out, lazy);
    }
}
