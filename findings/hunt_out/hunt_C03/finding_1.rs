// append-to: new module at end of serde_amqp/src/value/mod.rs
// run: hunt_c03_f1 --features derive
// full command: cd /tmp/hunt_C03 && CARGO_TARGET_DIR=/tmp/hunt_C03/target cargo test -p serde_amqp --offline --lib --features derive hunt_c03_f1
//
// C03 finding 1: the "next sequence is an array" marker (Serializer.seq_type) set by an array that
// is the KEY of a map entry is never cleared, so a list that is the VALUE of that entry is written
// as an array.
#[cfg(test)]
mod hunt_c03_f1 {
    use super::*;
    use crate::{descriptor::Descriptor, from_slice, to_vec};

    fn round_trip(v: &Value) -> Value {
        let buf = to_vec(v).expect("encode");
        from_slice::<Value>(&buf).unwrap_or_else(|e| panic!("decode failed: {:?}; bytes {:x?}", e, buf))
    }

    /// map { array[1u8, 2u8] => list[7i32] }: decodes as { array => ARRAY[7] }
    #[test]
    fn array_key_then_homogeneous_list_value() {
        let mut m = OrderedMap::new();
        m.insert(
            Value::Array(Array(vec![Value::Ubyte(1), Value::Ubyte(2)])),
            Value::List(vec![Value::Int(7)]),
        );
        let v = Value::Map(m);
        assert_eq!(round_trip(&v), v);
    }

    /// map { array[] => list[] }: the empty list comes back as an empty array
    #[test]
    fn empty_array_key_then_empty_list_value() {
        let mut m = OrderedMap::new();
        m.insert(Value::Array(Array(vec![])), Value::List(vec![]));
        let v = Value::Map(m);
        assert_eq!(round_trip(&v), v);
    }

    /// map { array[1u8] => list[true, "abc"] }: the heterogeneous list is written with one
    /// constructor for all elements; the bytes do not decode at all (or decode to something else)
    #[test]
    fn array_key_then_heterogeneous_list_value() {
        let mut m = OrderedMap::new();
        m.insert(
            Value::Array(Array(vec![Value::Ubyte(1)])),
            Value::List(vec![Value::Bool(true), Value::String("abc".into())]),
        );
        let v = Value::Map(m);
        assert_eq!(round_trip(&v), v);
    }

    /// the same through a described key: map { described(0x01, array[1u8]) => list[7i32] }
    #[test]
    fn described_array_key_then_list_value() {
        let mut m = OrderedMap::new();
        m.insert(
            Value::Described(Box::new(Described {
                descriptor: Descriptor::Code(1),
                value: Value::Array(Array(vec![Value::Ubyte(1)])),
            })),
            Value::List(vec![Value::Int(7)]),
        );
        let v = Value::Map(m);
        assert_eq!(round_trip(&v), v);
    }
}
