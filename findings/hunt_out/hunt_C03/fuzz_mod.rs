
#[cfg(test)]
mod hunt_fuzz {
    use super::*;
    use crate::{from_slice, to_vec, from_reader};
    use crate::descriptor::Descriptor;

    struct Rng(u64);
    impl Rng {
        fn next(&mut self) -> u64 {
            let mut x = self.0;
            x ^= x << 13;
            x ^= x >> 7;
            x ^= x << 17;
            self.0 = x;
            x
        }
        fn below(&mut self, n: u64) -> u64 {
            self.next() % n
        }
    }

    fn gen_len(r: &mut Rng) -> usize {
        match r.below(10) {
            0 => 0,
            1 => 1,
            2 => 253,
            3 => 254,
            4 => 255,
            5 => 256,
            6 => 257,
            7 => 300,
            _ => r.below(20) as usize,
        }
    }

    fn gen_string(r: &mut Rng) -> String {
        let n = gen_len(r);
        let mut s = String::new();
        let uni = r.below(3) == 0;
        while s.len() < n {
            if uni {
                let c = match r.below(4) {
                    0 => 'a',
                    1 => 'é',
                    2 => '中',
                    _ => '😀',
                };
                if s.len() + c.len_utf8() > n { s.push('a'); } else { s.push(c); }
            } else {
                s.push((b'a' + r.below(26) as u8) as char);
            }
        }
        s
    }

    fn gen_int_i64(r: &mut Rng) -> i64 {
        match r.below(8) {
            0 => 0, 1 => -1, 2 => 127, 3 => 128, 4 => -128, 5 => -129, 6 => i64::MAX, _ => r.next() as i64,
        }
    }

    fn gen_prim(r: &mut Rng, kind: u64) -> Value {
        match kind {
            0 => Value::Null,
            1 => Value::Bool(r.below(2) == 0),
            2 => Value::Ubyte(r.next() as u8),
            3 => Value::Ushort(r.next() as u16),
            4 => Value::Uint(match r.below(5) { 0 => 0, 1 => 255, 2 => 256, 3 => u32::MAX, _ => r.next() as u32 }),
            5 => Value::Ulong(match r.below(5) { 0 => 0, 1 => 255, 2 => 256, 3 => u64::MAX, _ => r.next() }),
            6 => Value::Byte(r.next() as i8),
            7 => Value::Short(r.next() as i16),
            8 => Value::Int(gen_int_i64(r) as i32),
            9 => Value::Long(gen_int_i64(r)),
            10 => Value::Float(OrderedFloat(f32::from_bits(r.next() as u32))),
            11 => Value::Double(OrderedFloat(f64::from_bits(r.next()))),
            12 => Value::Decimal32(Dec32::from((r.next() as u32).to_be_bytes())),
            13 => Value::Decimal64(Dec64::from(r.next().to_be_bytes())),
            14 => { let mut b = [0u8; 16]; b[..8].copy_from_slice(&r.next().to_be_bytes()); b[8..].copy_from_slice(&r.next().to_be_bytes()); Value::Decimal128(Dec128::from(b)) }
            15 => Value::Char(match r.below(4) { 0 => 'a', 1 => '\u{10FFFF}', 2 => '\0', _ => '中' }),
            16 => Value::Timestamp(Timestamp::from(gen_int_i64(r))),
            17 => { let mut b = [0u8; 16]; b[..8].copy_from_slice(&r.next().to_be_bytes()); b[8..].copy_from_slice(&r.next().to_be_bytes()); Value::Uuid(Uuid::from(b)) }
            18 => { let n = gen_len(r); Value::Binary(ByteBuf::from((0..n).map(|_| r.next() as u8).collect::<Vec<u8>>())) }
            19 => Value::String(gen_string(r)),
            _ => Value::Symbol(Symbol::from(gen_string(r))),
        }
    }

    const NPRIM: u64 = 21;

    fn gen_of_kind(r: &mut Rng, kind: u64, depth: u32) -> Value {
        match kind {
            k if k < NPRIM => gen_prim(r, k),
            21 => {
                let n = if depth == 0 { 0 } else { r.below(5) as usize };
                Value::List((0..n).map(|_| gen_value(r, depth - 1)).collect())
            }
            22 => {
                let n = if depth == 0 { 0 } else { r.below(4) as usize };
                let mut m = OrderedMap::new();
                for _ in 0..n {
                    let k = loop { let k = gen_value(r, depth - 1); if !top_is_array(&k) { break k; } };
                    let v = gen_value(r, depth - 1);
                    m.insert(k, v);
                }
                Value::Map(m)
            }
            23 => {
                let n = if depth == 0 { 0 } else { r.below(5) as usize };
                // homogeneous
                let ek = loop {
                    let k = r.below(25);
                    if k == 0 || k >= 21 { continue; } // null / compounds known
                    break k;
                };
                Value::Array(Array((0..n).map(|_| gen_of_kind(r, ek, depth - 1)).collect()))
            }
            _ => {
                let d = if r.below(2) == 0 {
                    Descriptor::Code(match r.below(4) { 0 => 0, 1 => 255, 2 => 256, _ => r.next() })
                } else {
                    Descriptor::Name(Symbol::from(gen_string(r)))
                };
                let pk = r.next() % NPRIM; let v = if depth == 0 { gen_prim(r, pk) } else { gen_value(r, depth - 1) };
                Value::Described(Box::new(Described { descriptor: d, value: v }))
            }
        }
    }

    fn top_is_array(v: &Value) -> bool {
        match v { Value::Array(_) => true, Value::Described(d) => top_is_array(&d.value), _ => false }
    }

    fn gen_value(r: &mut Rng, depth: u32) -> Value {
        let k = if depth == 0 { r.below(NPRIM) } else { r.below(25) };
        gen_of_kind(r, k, depth)
    }

    fn shape(v: &Value, out: &mut String, depth: u32) {
        if depth == 0 { out.push('_'); return; }
        match v {
            Value::List(l) => { out.push_str("L["); for e in l { shape(e, out, depth-1); out.push(','); } out.push(']'); }
            Value::Map(m) => { out.push_str("M{"); for (k, e) in m { shape(k, out, depth-1); out.push(':'); shape(e, out, depth-1); out.push(','); } out.push('}'); }
            Value::Array(a) => { out.push_str("A["); for e in a.iter() { shape(e, out, depth-1); out.push(','); } out.push(']'); }
            Value::Described(d) => { out.push_str("D("); shape(&d.value, out, depth-1); out.push(')'); }
            other => { let s = format!("{:?}", other); out.push_str(s.split('(').next().unwrap()); }
        }
    }

    #[test]
    fn fuzz_value_round_trip() {
        let mut r = Rng(0x9E3779B97F4A7C15);
        let mut fails: std::collections::BTreeMap<String, (Value, String)> = Default::default();
        let mut total = 0;
        for _ in 0..1000000 {
            let v = gen_value(&mut r, 4);
            total += 1;
            let res = std::panic::catch_unwind(|| {
                let buf = match to_vec(&v) { Ok(b) => b, Err(e) => return Err(format!("ser err {:?}", e)) };
                let out: Result<Value, _> = from_slice(&buf);
                match out {
                    Ok(o) if o == v => {}
                    Ok(o) => return Err(format!("mismatch: got {:?}", o)),
                    Err(e) => return Err(format!("de err {:?}", e)),
                }
                let out: Result<Value, _> = from_reader(&buf[..]);
                match out {
                    Ok(o) if o == v => Ok(()),
                    Ok(o) => Err(format!("reader mismatch: got {:?}", o)),
                    Err(e) => Err(format!("reader de err {:?}", e)),
                }
            });
            let err = match res { Ok(Ok(())) => continue, Ok(Err(e)) => e, Err(_) => "panic".to_string() };
            let mut s = String::new();
            shape(&v, &mut s, 4);
            let e = fails.entry(s).or_insert((v.clone(), err.clone()));
            if format!("{:?}", v).len() < format!("{:?}", e.0).len() { *e = (v, err); }
        }
        println!("total {} failing shapes {}", total, fails.len());
        let mut items: Vec<_> = fails.into_iter().collect();
        items.sort_by_key(|(s, _)| s.len());
        for (s, (v, e)) in items.iter().take(60) {
            let vs = format!("{:?}", v);
            let vs: String = vs.chars().take(300).collect();
            let es: String = e.chars().take(200).collect();
            println!("SHAPE {}\n   VALUE {}\n   ERR {}", s, vs, es);
        }
        assert!(items.is_empty());
    }
}
