
#[cfg(test)]
mod hunt_typed_fuzz {
    use serde::{de::DeserializeOwned, Serialize};
    use serde_amqp::{
        described::Described, descriptor::Descriptor, from_reader, from_slice,
        primitives::*, to_vec, Value,
    };
    use serde_bytes::ByteBuf;
    use ordered_float::OrderedFloat;
    use std::fmt::Debug;

    use crate::definitions::*;
    use crate::messaging::message::__private::{Deserializable, Serializable};
    use crate::messaging::*;
    use crate::performatives::*;
    use crate::primitives::SimpleValue;
    use crate::sasl::*;
    #[cfg(feature = "transaction")]
    use crate::transaction::*;

    struct Rng(u64);
    impl Rng {
        fn next(&mut self) -> u64 {
            let mut x = self.0;
            x ^= x << 13;
            x ^= x >> 7;
            x ^= x << 17;
            self.0 = x;
            x
        }
        fn below(&mut self, n: u64) -> u64 { self.next() % n }
        fn coin(&mut self) -> bool { self.next() & 1 == 0 }
        fn opt<T>(&mut self, f: impl FnOnce(&mut Rng) -> T) -> Option<T> {
            if self.below(3) == 0 { None } else { Some(f(self)) }
        }
    }

    fn g_len(r: &mut Rng) -> usize {
        match r.below(12) { 0 => 0, 1 => 1, 2 => 254, 3 => 255, 4 => 256, 5 => 300, _ => r.below(12) as usize }
    }
    fn g_string(r: &mut Rng) -> String {
        let n = g_len(r);
        let mut s = String::new();
        let uni = r.below(4) == 0;
        while s.len() < n {
            if uni && s.len() + 4 <= n { s.push(['é', '中', '😀'][r.below(3) as usize]); } else { s.push((b'a' + r.below(26) as u8) as char); }
        }
        s
    }
    fn g_symbol(r: &mut Rng) -> Symbol { Symbol::from(g_string(r)) }
    fn g_binary(r: &mut Rng) -> ByteBuf { let n = g_len(r); ByteBuf::from((0..n).map(|_| r.next() as u8).collect::<Vec<u8>>()) }
    fn g_u32(r: &mut Rng) -> u32 { match r.below(6) { 0 => 0, 1 => 1, 2 => 255, 3 => 256, 4 => u32::MAX, _ => r.next() as u32 } }
    fn g_u64(r: &mut Rng) -> u64 { match r.below(6) { 0 => 0, 1 => 1, 2 => 255, 3 => 256, 4 => u64::MAX, _ => r.next() } }
    fn g_i64(r: &mut Rng) -> i64 { match r.below(6) { 0 => 0, 1 => -1, 2 => 127, 3 => 128, 4 => i64::MIN, _ => r.next() as i64 } }
    fn g_uuid(r: &mut Rng) -> Uuid { let mut b = [0u8; 16]; b[..8].copy_from_slice(&r.next().to_be_bytes()); b[8..].copy_from_slice(&r.next().to_be_bytes()); Uuid::from(b) }

    fn g_prim(r: &mut Rng) -> Value {
        match r.below(21) {
            0 => Value::Null,
            1 => Value::Bool(r.coin()),
            2 => Value::Ubyte(r.next() as u8),
            3 => Value::Ushort(r.next() as u16),
            4 => Value::Uint(g_u32(r)),
            5 => Value::Ulong(g_u64(r)),
            6 => Value::Byte(r.next() as i8),
            7 => Value::Short(r.next() as i16),
            8 => Value::Int(g_i64(r) as i32),
            9 => Value::Long(g_i64(r)),
            10 => Value::Float(OrderedFloat(f32::from_bits(r.next() as u32))),
            11 => Value::Double(OrderedFloat(f64::from_bits(r.next()))),
            12 => Value::Decimal32(Dec32::from((r.next() as u32).to_be_bytes())),
            13 => Value::Decimal64(Dec64::from(r.next().to_be_bytes())),
            14 => Value::Decimal128(Dec128::from(g_uuid(r).into_inner())),
            15 => Value::Char(['a', '\0', '中', '\u{10FFFF}'][r.below(4) as usize]),
            16 => Value::Timestamp(Timestamp::from(g_i64(r))),
            17 => Value::Uuid(g_uuid(r)),
            18 => Value::Binary(g_binary(r)),
            19 => Value::String(g_string(r)),
            _ => Value::Symbol(g_symbol(r)),
        }
    }
    fn g_value(r: &mut Rng, depth: u32) -> Value {
        if depth == 0 { return g_prim(r); }
        match r.below(8) {
            0 => Value::List((0..r.below(4)).map(|_| g_value(r, depth - 1)).collect()),
            1 => { let mut m = OrderedMap::new(); for _ in 0..r.below(3) { let k = g_prim(r); let v = g_value(r, depth - 1); m.insert(k, v); } Value::Map(m) }
            2 => { let n = r.below(4); let proto = loop { let p = g_prim(r); if p != Value::Null { break p; } };
                   let mut v = vec![]; for _ in 0..n { loop { let p = g_prim(r); if std::mem::discriminant(&p) == std::mem::discriminant(&proto) { v.push(p); break; } } }
                   Value::Array(Array(v)) }
            3 => Value::Described(Box::new(Described { descriptor: if r.coin() { Descriptor::Code(g_u64(r)) } else { Descriptor::Name(g_symbol(r)) }, value: g_value(r, depth - 1) })),
            _ => g_prim(r),
        }
    }
    fn g_simple(r: &mut Rng) -> SimpleValue {
        loop { if let Ok(v) = SimpleValue::try_from(g_prim(r)) { return v; } }
    }
    fn g_fields(r: &mut Rng) -> Fields {
        let mut m = Fields::new();
        for _ in 0..r.below(4) { let k = g_symbol(r); let v = g_value(r, 2); m.insert(k, v); }
        m
    }
    fn g_sym_array(r: &mut Rng) -> Array<Symbol> {
        // at least one element: an empty `multiple` array is deliberately normalized
        Array((0..1 + r.below(3)).map(|_| g_symbol(r)).collect())
    }
    fn g_error_condition(r: &mut Rng) -> ErrorCondition {
        match r.below(6) {
            0 => ErrorCondition::AmqpError([AmqpError::InternalError, AmqpError::NotFound, AmqpError::DecodeError, AmqpError::FrameSizeTooSmall][r.below(4) as usize].clone()),
            1 => ErrorCondition::ConnectionError([ConnectionError::ConnectionForced, ConnectionError::FramingError, ConnectionError::Redirect][r.below(3) as usize].clone()),
            2 => ErrorCondition::SessionError([SessionError::WindowViolation, SessionError::ErrantLink, SessionError::HandleInUse, SessionError::UnattachedHandle][r.below(4) as usize].clone()),
            3 => ErrorCondition::LinkError([LinkError::DetachForced, LinkError::TransferLimitExceeded, LinkError::MessageSizeExceeded, LinkError::Redirect, LinkError::Stolen][r.below(5) as usize].clone()),
            #[cfg(feature = "transaction")]
            4 => ErrorCondition::TransactionError([TransactionError::UnknownId, TransactionError::Rollback, TransactionError::Timeout][r.below(3) as usize].clone()),
            _ => ErrorCondition::Custom(Symbol::from(format!("x:{}", g_string(r)))),
        }
    }
    fn g_error(r: &mut Rng) -> Error {
        Error { condition: g_error_condition(r), description: r.opt(g_string), info: r.opt(|r| Box::new(g_fields(r))) }
    }
    fn g_outcome(r: &mut Rng) -> Outcome {
        match r.below(5) {
            0 => Outcome::Accepted(Accepted {}),
            1 => Outcome::Rejected(Rejected { error: r.opt(g_error) }),
            2 => Outcome::Released(Released {}),
            #[cfg(feature = "transaction")]
            3 => Outcome::Declared(Declared { txn_id: g_binary(r) }),
            _ => Outcome::Modified(Modified { delivery_failed: r.opt(|r| r.coin()), undeliverable_here: r.opt(|r| r.coin()), message_annotations: r.opt(g_fields) }),
        }
    }
    fn g_delivery_state(r: &mut Rng) -> DeliveryState {
        match r.below(4) {
            0 => DeliveryState::Received(Received { section_number: g_u32(r), section_offset: g_u64(r) }),
            #[cfg(feature = "transaction")]
            1 => DeliveryState::TransactionalState(TransactionalState { txn_id: g_binary(r), outcome: r.opt(g_outcome) }),
            _ => g_outcome(r).into(),
        }
    }
    fn g_durability(r: &mut Rng) -> TerminusDurability { [TerminusDurability::None, TerminusDurability::Configuration, TerminusDurability::UnsettledState][r.below(3) as usize].clone() }
    fn g_expiry(r: &mut Rng) -> TerminusExpiryPolicy { [TerminusExpiryPolicy::LinkDetach, TerminusExpiryPolicy::SessionEnd, TerminusExpiryPolicy::ConnectionClose, TerminusExpiryPolicy::Never][r.below(4) as usize].clone() }
    fn g_source(r: &mut Rng) -> Source {
        Source {
            address: r.opt(g_string), durable: g_durability(r), expiry_policy: g_expiry(r), timeout: g_u32(r), dynamic: r.coin(),
            dynamic_node_properties: r.opt(g_fields),
            distribution_mode: r.opt(|r| if r.coin() { DistributionMode::Move } else { DistributionMode::Copy }),
            filter: r.opt(g_fields), default_outcome: r.opt(g_outcome), outcomes: r.opt(g_sym_array), capabilities: r.opt(g_sym_array),
        }
    }
    fn g_target(r: &mut Rng) -> Target {
        Target { address: r.opt(g_string), durable: g_durability(r), expiry_policy: g_expiry(r), timeout: g_u32(r), dynamic: r.coin(), dynamic_node_properties: r.opt(g_fields), capabilities: r.opt(g_sym_array) }
    }
    fn g_target_archetype(r: &mut Rng) -> TargetArchetype {
        #[cfg(feature = "transaction")]
        if r.below(3) == 0 {
            return TargetArchetype::Coordinator(Coordinator { capabilities: r.opt(|r| Array((0..1 + r.below(3)).map(|_| [TxnCapability::LocalTransactions, TxnCapability::DistributedTransactions, TxnCapability::PromotableTransactions, TxnCapability::MultiTxnsPerSsn, TxnCapability::MultiSsnsPerTxn][r.below(5) as usize].clone()).collect())) });
        }
        TargetArchetype::Target(g_target(r))
    }
    fn g_role(r: &mut Rng) -> Role { if r.coin() { Role::Sender } else { Role::Receiver } }
    fn g_rsm(r: &mut Rng) -> ReceiverSettleMode { if r.coin() { ReceiverSettleMode::First } else { ReceiverSettleMode::Second } }
    fn g_ssm(r: &mut Rng) -> SenderSettleMode { [SenderSettleMode::Unsettled, SenderSettleMode::Settled, SenderSettleMode::Mixed][r.below(3) as usize].clone() }

    fn g_performative(r: &mut Rng) -> Performative {
        match r.below(9) {
            0 => Performative::Open(Open {
                container_id: g_string(r), hostname: r.opt(g_string), max_frame_size: MaxFrameSize(g_u32(r)), channel_max: ChannelMax(r.next() as u16 | if r.coin() { 0xffff } else { 0 }),
                idle_time_out: r.opt(g_u32), outgoing_locales: r.opt(g_sym_array), incoming_locales: r.opt(g_sym_array), offered_capabilities: r.opt(g_sym_array), desired_capabilities: r.opt(g_sym_array), properties: r.opt(g_fields),
            }),
            1 => Performative::Begin(Begin { remote_channel: r.opt(|r| r.next() as u16), next_outgoing_id: g_u32(r), incoming_window: g_u32(r), outgoing_window: g_u32(r), handle_max: Handle(g_u32(r)), offered_capabilities: r.opt(g_sym_array), desired_capabilities: r.opt(g_sym_array), properties: r.opt(g_fields) }),
            2 => Performative::Attach(Attach {
                name: g_string(r), handle: Handle(g_u32(r)), role: g_role(r), snd_settle_mode: g_ssm(r), rcv_settle_mode: g_rsm(r),
                source: r.opt(|r| Box::new(g_source(r))), target: r.opt(|r| Box::new(g_target_archetype(r))),
                unsettled: r.opt(|r| { let mut m = OrderedMap::new(); for _ in 0..r.below(3) { let k = g_binary(r); let v = r.opt(g_delivery_state); m.insert(k, v); } m }),
                incomplete_unsettled: r.coin(), initial_delivery_count: r.opt(g_u32), max_message_size: r.opt(g_u64), offered_capabilities: r.opt(g_sym_array), desired_capabilities: r.opt(g_sym_array), properties: r.opt(g_fields),
            }),
            3 => Performative::Flow(Flow { next_incoming_id: r.opt(g_u32), incoming_window: g_u32(r), next_outgoing_id: g_u32(r), outgoing_window: g_u32(r), handle: r.opt(|r| Handle(g_u32(r))), delivery_count: r.opt(g_u32), link_credit: r.opt(g_u32), available: r.opt(g_u32), drain: r.coin(), echo: r.coin(), properties: r.opt(g_fields) }),
            4 => Performative::Transfer(Transfer { handle: Handle(g_u32(r)), delivery_id: r.opt(g_u32), delivery_tag: r.opt(g_binary), message_format: r.opt(g_u32), settled: r.opt(|r| r.coin()), more: r.coin(), rcv_settle_mode: r.opt(g_rsm), state: r.opt(g_delivery_state), resume: r.coin(), aborted: r.coin(), batchable: r.coin() }),
            5 => Performative::Disposition(Disposition { role: g_role(r), first: g_u32(r), last: r.opt(g_u32), settled: r.coin(), state: r.opt(g_delivery_state), batchable: r.coin() }),
            6 => Performative::Detach(Detach { handle: Handle(g_u32(r)), closed: r.coin(), error: r.opt(g_error) }),
            7 => Performative::End(End { error: r.opt(g_error) }),
            _ => Performative::Close(Close { error: r.opt(g_error) }),
        }
    }

    fn g_message_id(r: &mut Rng) -> MessageId {
        match r.below(4) { 0 => MessageId::Ulong(g_u64(r)), 1 => MessageId::Uuid(g_uuid(r)), 2 => MessageId::Binary(g_binary(r)), _ => MessageId::String(g_string(r)) }
    }
    fn g_annotations(r: &mut Rng) -> Annotations {
        let mut m = Annotations::new();
        for _ in 0..r.below(4) { let k = if r.coin() { annotations::OwnedKey::Symbol(g_symbol(r)) } else { annotations::OwnedKey::Ulong(g_u64(r)) }; let v = g_value(r, 2); m.insert(k, v); }
        m
    }
    fn g_message(r: &mut Rng) -> Message<Body<Value>> {
        Message {
            header: r.opt(|r| Header { durable: r.coin(), priority: Priority(r.next() as u8 % 8), ttl: r.opt(g_u32), first_acquirer: r.coin(), delivery_count: g_u32(r) }),
            delivery_annotations: r.opt(|r| DeliveryAnnotations(g_annotations(r))),
            message_annotations: r.opt(|r| MessageAnnotations(g_annotations(r))),
            properties: r.opt(|r| Properties {
                message_id: r.opt(g_message_id), user_id: r.opt(g_binary), to: r.opt(g_string), subject: r.opt(g_string), reply_to: r.opt(g_string), correlation_id: r.opt(g_message_id),
                content_type: r.opt(g_symbol), content_encoding: r.opt(g_symbol), absolute_expiry_time: r.opt(|r| Timestamp::from(g_i64(r))), creation_time: r.opt(|r| Timestamp::from(g_i64(r))),
                group_id: r.opt(g_string), group_sequence: r.opt(g_u32), reply_to_group_id: r.opt(g_string),
            }),
            application_properties: r.opt(|r| { let mut m = OrderedMap::new(); for _ in 0..r.below(4) { let k = g_string(r); let v = g_simple(r); m.insert(k, v); } ApplicationProperties(m) }),
            body: match r.below(3) {
                0 => Body::Value(AmqpValue(g_value(r, 3))),
                1 => Body::Data(Batch::new((0..1 + r.below(3)).map(|_| Data(g_binary(r))).collect::<Vec<_>>())),
                _ => Body::Sequence(Batch::new((0..1 + r.below(3)).map(|_| AmqpSequence((0..r.below(4)).map(|_| g_value(r, 2)).collect())).collect::<Vec<_>>())),
            },
            footer: r.opt(|r| Footer(g_annotations(r))),
        }
    }

    fn rt<T: Serialize + DeserializeOwned + Debug>(v: &T) -> Result<(), String> {
        let buf = to_vec(v).map_err(|e| format!("ser err {:?}", e))?;
        let want = format!("{:?}", v);
        let out: T = from_slice(&buf).map_err(|e| format!("de err {:?} bytes {:x?}", e, &buf[..buf.len().min(64)]))?;
        let got = format!("{:?}", out);
        if got != want { return Err(format!("mismatch\n  got  {}\n", got)); }
        let out: T = from_reader(&buf[..]).map_err(|e| format!("reader de err {:?}", e))?;
        let got = format!("{:?}", out);
        if got != want { return Err(format!("reader mismatch\n  got  {}\n", got)); }
        Ok(())
    }

    fn report<T: Debug>(what: &str, v: &T, res: std::thread::Result<Result<(), String>>, fails: &mut Vec<String>) {
        let e = match res { Ok(Ok(())) => return, Ok(Err(e)) => e, Err(_) => "panic".into() };
        if fails.len() < 12 {
            let vs: String = format!("{:?}", v).chars().take(1500).collect();
            let es: String = e.chars().take(1500).collect();
            fails.push(format!("[{}]\n  want {}\n  {}", what, vs, es));
        } else { fails.push(String::new()); }
    }

    #[test]
    fn fuzz_typed_round_trip() {
        let mut r = Rng(0x1234_5678_9abc_def1);
        let mut fails = vec![];
        for _ in 0..60000 {
            let p = g_performative(&mut r);
            let res = std::panic::catch_unwind(|| rt(&p));
            report("performative", &p, res, &mut fails);

            let m = g_message(&mut r);
            let res = std::panic::catch_unwind(|| {
                let buf = to_vec(&Serializable(&m)).map_err(|e| format!("ser err {:?}", e))?;
                let out: Deserializable<Message<Body<Value>>> = from_slice(&buf).map_err(|e| format!("de err {:?}", e))?;
                if out.0 != m { return Err(format!("mismatch\n  got  {:?}", out.0)); }
                let out: Deserializable<Message<Body<Value>>> = from_reader(&buf[..]).map_err(|e| format!("reader de err {:?}", e))?;
                if out.0 != m { return Err(format!("reader mismatch\n  got  {:?}", out.0)); }
                Ok(())
            });
            report("message", &m, res, &mut fails);

            let s = g_source(&mut r); let res = std::panic::catch_unwind(|| rt(&s)); report("source", &s, res, &mut fails);
            let t = g_target_archetype(&mut r); let res = std::panic::catch_unwind(|| rt(&t)); report("target", &t, res, &mut fails);
            let d = g_delivery_state(&mut r); let res = std::panic::catch_unwind(|| rt(&d)); report("dstate", &d, res, &mut fails);
            let o = g_outcome(&mut r); let res = std::panic::catch_unwind(|| rt(&o)); report("outcome", &o, res, &mut fails);
            let e = g_error(&mut r); let res = std::panic::catch_unwind(|| rt(&e)); report("error", &e, res, &mut fails);
            let si = SaslInit { mechanism: g_symbol(&mut r), initial_response: r.opt(g_binary), hostname: r.opt(g_string) };
            let res = std::panic::catch_unwind(|| rt(&si)); report("saslinit", &si, res, &mut fails);
            let so = SaslOutcome { code: [SaslCode::Ok, SaslCode::Auth, SaslCode::Sys, SaslCode::SysPerm, SaslCode::SysTemp][r.below(5) as usize].clone(), additional_data: r.opt(g_binary) };
            let res = std::panic::catch_unwind(|| rt(&so)); report("sasloutcome", &so, res, &mut fails);
            let sc = SaslChallenge { challenge: g_binary(&mut r) }; let res = std::panic::catch_unwind(|| rt(&sc)); report("saslchallenge", &sc, res, &mut fails);
            let sm = SaslMechanisms { sasl_server_mechanisms: g_sym_array(&mut r) }; let res = std::panic::catch_unwind(|| rt(&sm)); report("saslmech", &sm, res, &mut fails);
        }
        for f in fails.iter().filter(|f| !f.is_empty()) { println!("{}", f); }
        assert!(fails.is_empty(), "{} failures", fails.len());
    }
}
