// append-to: new module at end of fe2o3-amqp-types/src/lib.rs
// run: hunt_c03_f7
// full command: cd /tmp/hunt_C03 && CARGO_TARGET_DIR=/tmp/hunt_C03/target cargo test -p fe2o3-amqp-types --offline --lib hunt_c03_f7
//
// C03 finding 7: body kinds of Message<Body<Value>> that do not come back
//  - Body::Empty is encoded as an amqp-value section holding null and decodes as
//    Body::Value(AmqpValue(Value::Null))
//  - Body::Data(<empty batch>) / Body::Sequence(<empty batch>) are encoded as NO section at all
//    (with no other section the message is zero bytes) and decode as Body::Empty
#[cfg(test)]
mod hunt_c03_f7 {
    use crate::messaging::message::__private::{Deserializable, Serializable};
    use crate::messaging::*;
    use serde_amqp::{from_slice, to_vec, Value};

    fn round_trip(m: &Message<Body<Value>>) -> Message<Body<Value>> {
        let buf = to_vec(&Serializable(m)).unwrap();
        let out: Deserializable<Message<Body<Value>>> =
            from_slice(&buf).unwrap_or_else(|e| panic!("decode failed: {:?}; bytes {:x?}", e, buf));
        out.0
    }

    #[test]
    fn body_empty() {
        let m = Message::builder().body(Body::<Value>::Empty).build();
        assert_eq!(round_trip(&m), m);
    }

    #[test]
    fn body_empty_with_header_and_footer() {
        let m = Message::builder()
            .header(Header::default())
            .body(Body::<Value>::Empty)
            .footer(Footer::builder().insert("k", 1u32).build())
            .build();
        assert_eq!(round_trip(&m), m);
    }

    #[test]
    fn body_data_empty_batch() {
        let m = Message::builder()
            .header(Header::default())
            .body(Body::<Value>::Data(Batch::new(Vec::<Data>::new())))
            .build();
        assert_eq!(round_trip(&m), m);
    }

    #[test]
    fn body_sequence_empty_batch() {
        let m = Message::builder()
            .header(Header::default())
            .body(Body::<Value>::Sequence(Batch::new(Vec::<AmqpSequence<Value>>::new())))
            .build();
        assert_eq!(round_trip(&m), m);
    }
}
