// append-to: new module at end of fe2o3-amqp-types/src/lib.rs
// run: hunt_c03_f6
// full command: cd /tmp/hunt_C03 && CARGO_TARGET_DIR=/tmp/hunt_C03/target cargo test -p fe2o3-amqp-types --offline --lib hunt_c03_f6
//
// C03 finding 6 = finding 5 seen on a complete message: body = amqp-value carried as LazyValue,
// footer = { 1u64 => binary }. The footer's binary is decoded with the stale LazyValue marker.
#[cfg(test)]
mod hunt_c03_f6 {
    use crate::messaging::message::__private::{Deserializable, Serializable};
    use crate::messaging::*;
    use serde_amqp::{
        from_slice,
        lazy::{to_lazy_value, LazyValue},
        primitives::Binary,
        to_vec, Value,
    };

    #[test]
    fn lazy_body_then_footer_with_binary() {
        let body: LazyValue = to_lazy_value(&"hello").unwrap();
        let m = Message::builder()
            .value(body)
            .footer(
                Footer::builder()
                    .insert(1u64, Value::Binary(Binary::from(vec![1u8, 2, 3])))
                    .build(),
            )
            .build();
        let buf = to_vec(&Serializable(&m)).unwrap();
        // 00 53 77 a1 05 "hello" | 00 53 78 c1 08 02 53 01 a0 03 01 02 03
        let out: Deserializable<Message<LazyValue>> = from_slice(&buf).unwrap();
        assert_eq!(out.0.body, m.body.0);
        assert_eq!(out.0.footer, m.footer);
    }
}
