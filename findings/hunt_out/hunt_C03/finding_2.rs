// append-to: new module at end of serde_amqp/src/value/mod.rs
// run: hunt_c03_f2 --features derive
// full command: cd /tmp/hunt_C03 && CARGO_TARGET_DIR=/tmp/hunt_C03/target cargo test -p serde_amqp --offline --lib --features derive hunt_c03_f2
//
// C03 finding 2 (ENCODER side; the decoder side of "arrays of compound elements" is repaired):
// an array has ONE element constructor, but write_list / write_map / write_array pick the
// width (list0 / list8 / list32, map8 / map32, array8 / array32) per element. As soon as the
// elements of an array of lists/maps/arrays do not all fall into the width class of the first
// one, the bytes are not a well-formed array.
#[cfg(test)]
mod hunt_c03_f2 {
    use super::*;
    use crate::{from_slice, to_vec};

    fn round_trip(v: &Value) -> Value {
        let buf = to_vec(v).expect("encode");
        from_slice::<Value>(&buf).unwrap_or_else(|e| panic!("decode failed: {:?}; bytes {:x?}", e, buf))
    }

    /// array[ list[], list[1u16] ]: constructor list0, so the second element silently decodes as []
    #[test]
    fn array_of_lists_first_empty() {
        let v = Value::Array(Array(vec![
            Value::List(vec![]),
            Value::List(vec![Value::Ushort(1)]),
        ]));
        assert_eq!(round_trip(&v), v);
    }

    /// array[ list[1u16], list[] ]: the empty element is written as the byte 0x45 where the
    /// decoder expects size+count
    #[test]
    fn array_of_lists_later_empty() {
        let v = Value::Array(Array(vec![
            Value::List(vec![Value::Ushort(1)]),
            Value::List(vec![]),
        ]));
        assert_eq!(round_trip(&v), v);
    }

    /// array[ list[], list[] ] inside a list: every empty element costs one stray 0x45 byte, so the
    /// sibling after the array is decoded from the wrong offset
    #[test]
    fn array_of_empty_lists_followed_by_sibling() {
        let v = Value::List(vec![
            Value::Array(Array(vec![Value::List(vec![]), Value::List(vec![])])),
            Value::Int(5),
        ]);
        assert_eq!(round_trip(&v), v);
    }

    /// array[ list["a"], list[<300 octet string>] ]: constructor list8, second element written
    /// with 4-octet size/count
    #[test]
    fn array_of_lists_small_then_large() {
        let v = Value::Array(Array(vec![
            Value::List(vec![Value::String("a".into())]),
            Value::List(vec![Value::String("x".repeat(300))]),
        ]));
        assert_eq!(round_trip(&v), v);
    }

    /// array[ map{1:"a"}, map{1:<300 octets>} ]: map8 constructor, map32 body
    #[test]
    fn array_of_maps_small_then_large() {
        let small: OrderedMap<Value, Value> =
            [(Value::Int(1), Value::String("a".into()))].into_iter().collect();
        let large: OrderedMap<Value, Value> =
            [(Value::Int(1), Value::String("x".repeat(300)))].into_iter().collect();
        let v = Value::Array(Array(vec![Value::Map(small), Value::Map(large)]));
        assert_eq!(round_trip(&v), v);
    }

    /// array[ array[1u8], array[<300 x 1u8>] ]: array8 constructor, array32 body
    #[test]
    fn array_of_arrays_small_then_large() {
        let v = Value::Array(Array(vec![
            Value::Array(Array(vec![Value::Ubyte(1)])),
            Value::Array(Array(vec![Value::Ubyte(1); 300])),
        ]));
        assert_eq!(round_trip(&v), v);
    }
}
