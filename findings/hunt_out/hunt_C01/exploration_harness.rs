// Exploration harness used during the hunt (NOT a finding). To use: copy to fe2o3-amqp/src/hunt_c01.rs and append
//   #[cfg(all(test, feature = "acceptor"))] mod hunt_c01;
// to fe2o3-amqp/src/lib.rs, then e.g. cargo test -p fe2o3-amqp --offline --lib --features acceptor hunt_c01::explore_sections

//! C01 exploration harness
#![allow(dead_code, unused_imports)]

use std::time::Duration;

use crate::{
    acceptor::{
        ConnectionAcceptor, LinkAcceptor, LinkEndpoint, ListenerConnectionHandle,
        ListenerSessionHandle, SessionAcceptor,
    },
    connection::{Connection, ConnectionHandle},
    link::receiver::CreditMode,
    session::{Session, SessionHandle},
    types::{
        definitions::{ReceiverSettleMode, SenderSettleMode},
        messaging::{
            ApplicationProperties, Body, Data, Message, Properties,
        },
        primitives::{Binary, Value},
    },
    Receiver, Sender,
};

#[derive(Debug, Clone)]
pub(crate) struct Cfg {
    pub client_max_frame: u32,
    pub server_max_frame: u32,
    pub client_in_win: u32,
    pub client_out_win: u32,
    pub server_in_win: u32,
    pub server_out_win: u32,
    pub credit: CreditMode,
    pub snd_mode: SenderSettleMode,
    pub rcv_mode: ReceiverSettleMode,
    pub client_sends: bool,
    pub sizes: Vec<usize>,
    pub duplex: usize,
    pub accept: bool,
    pub batchable: bool,
    pub session_buf: usize,
    pub conn_buf: usize,
    pub link_buf: usize,
    pub next_out_id: u32,
    pub init_dc: u32,
    pub manual_credit: u32,
}

impl Default for Cfg {
    fn default() -> Self {
        Self {
            client_max_frame: 512,
            server_max_frame: 512,
            client_in_win: 5000,
            client_out_win: 5000,
            server_in_win: 5000,
            server_out_win: 5000,
            credit: CreditMode::Auto(200),
            snd_mode: SenderSettleMode::Mixed,
            rcv_mode: ReceiverSettleMode::First,
            client_sends: true,
            sizes: vec![10],
            duplex: 4096,
            accept: true,
            batchable: false,
            session_buf: 2048,
            conn_buf: 2048,
            link_buf: 2048,
            next_out_id: 0,
            init_dc: 0,
            manual_credit: 3,
        }
    }
}

fn body_of(i: usize, size: usize) -> Vec<u8> {
    (0..size).map(|k| ((k * 31 + i * 7) % 251) as u8).collect()
}

fn msg_of(i: usize, size: usize) -> Message<Data> {
    Message::builder()
        .properties(
            Properties::builder()
                .message_id(i as u64)
                .subject(format!("subject-{}", i))
                .build(),
        )
        .application_properties(
            ApplicationProperties::builder()
                .insert("idx", i as u32)
                .build(),
        )
        .data(Binary::from(body_of(i, size)))
        .build()
}

pub(crate) async fn pair(
    cfg: &Cfg,
) -> (
    ListenerConnectionHandle,
    ListenerSessionHandle,
    ConnectionHandle<()>,
    SessionHandle<()>,
) {
    let (client_io, server_io) = tokio::io::duplex(cfg.duplex);
    let acceptor = ConnectionAcceptor::builder()
        .container_id("srv")
        .max_frame_size(cfg.server_max_frame)
        .buffer_size(cfg.conn_buf)
        .build();
    let t = tokio::spawn(async move { acceptor.accept(server_io).await });
    let mut cc = Connection::builder()
        .container_id("cli")
        .max_frame_size(cfg.client_max_frame)
        .buffer_size(cfg.conn_buf)
        .open_with_stream(client_io)
        .await
        .unwrap();
    let mut sc = t.await.unwrap().unwrap();
    let sa = SessionAcceptor::builder()
        .next_outgoing_id(cfg.next_out_id)
        .incoming_window(cfg.server_in_win)
        .outgoing_window(cfg.server_out_win)
        .buffer_size(cfg.session_buf)
        .build();
    let (ss, cs) = tokio::join!(
        sa.accept(&mut sc),
        Session::builder()
            .next_outgoing_id(cfg.next_out_id)
            .incoming_window(cfg.client_in_win)
            .outgoing_window(cfg.client_out_win)
            .buffer_size(cfg.session_buf)
            .begin(&mut cc)
    );
    (sc, ss.unwrap(), cc, cs.unwrap())
}

pub(crate) async fn links(
    cfg: &Cfg,
    ss: &mut ListenerSessionHandle,
    cs: &mut SessionHandle<()>,
) -> (Sender, Receiver) {
    let la = LinkAcceptor::builder().initial_delivery_count(cfg.init_dc).build();
    if cfg.client_sends {
        let (ep, snd) = tokio::join!(
            la.accept(ss),
            {
                let mut b = Sender::builder()
                .name("l1")
                .target("q")
                .initial_delivery_count(cfg.init_dc);
                b.buffer_size = cfg.link_buf;
                b
            }
                .sender_settle_mode(cfg.snd_mode.clone())
                .receiver_settle_mode(cfg.rcv_mode.clone())
                .attach(cs)
        );
        let snd = snd.unwrap();
        let mut rcv = match ep.unwrap() {
            LinkEndpoint::Receiver(r) => r,
            _ => panic!("expected receiver"),
        };
        match cfg.credit {
            CreditMode::Auto(n) => {
                rcv.set_credit(n).await.unwrap();
            }
            CreditMode::Manual => {
                rcv.set_credit_mode(CreditMode::Manual);
            }
        }
        (snd, rcv)
    } else {
        let (ep, rcv) = tokio::join!(
            la.accept(ss),
            {
                let mut b = Receiver::builder()
                .name("l1")
                .source("q");
                b.buffer_size = cfg.link_buf;
                b
            }
                .sender_settle_mode(cfg.snd_mode.clone())
                .receiver_settle_mode(cfg.rcv_mode.clone())
                .credit_mode(cfg.credit.clone())
                .attach(cs)
        );
        let rcv = rcv.unwrap();
        let snd = match ep.unwrap() {
            LinkEndpoint::Sender(s) => s,
            _ => panic!("expected sender"),
        };
        (snd, rcv)
    }
}

/// Runs the scenario and returns Err(description) if the property is violated
pub(crate) async fn run(cfg: Cfg) -> Result<(), String> {
    let (_sc, mut ss, _cc, mut cs) = pair(&cfg).await;
    let (mut snd, mut rcv) = links(&cfg, &mut ss, &mut cs).await;

    let sizes = cfg.sizes.clone();
    let batchable = cfg.batchable;
    let send_task = tokio::spawn(async move {
        let mut futs = Vec::new();
        for (i, sz) in sizes.iter().enumerate() {
            let m = msg_of(i, *sz);
            if batchable {
                let f = snd.send_batchable(m).await.map_err(|e| format!("send {}: {:?}", i, e))?;
                futs.push(f);
            } else {
                snd.send(m).await.map_err(|e| format!("send {}: {:?}", i, e))?;
            }
        }
        for f in futs {
            let _ = f.await;
        }
        Ok::<Sender, String>(snd)
    });

    let n = cfg.sizes.len();
    let mut result = Ok(());
    for i in 0..n {
        if let CreditMode::Manual = cfg.credit {
            if rcv.credit() == 0 {
                if tokio::time::timeout(Duration::from_secs(2), rcv.set_credit(cfg.manual_credit)).await.is_err() {
                    result = Err(format!("set_credit before {} never returned (timeout)", i));
                    break;
                }
            }
        }
        let d = match tokio::time::timeout(Duration::from_secs(2), rcv.recv::<Body<Value>>()).await {
            Err(_) => {
                result = Err(format!("message {} of {} never arrived (timeout)", i, n));
                break;
            }
            Ok(Err(e)) => {
                result = Err(format!("recv {} failed: {:?}", i, e));
                break;
            }
            Ok(Ok(d)) => d,
        };
        if cfg.accept {
            match tokio::time::timeout(Duration::from_secs(2), rcv.accept(&d)).await {
                Err(_) => {
                    result = Err(format!("accept {} never returned (timeout)", i));
                    break;
                }
                Ok(Err(e)) => {
                    result = Err(format!("accept {} failed: {:?}", i, e));
                    break;
                }
                Ok(Ok(())) => {}
            }
        }
        let expected = msg_of(i, cfg.sizes[i]);
        let m = d.message();
        let ok_props = m.properties == expected.properties
            && m.application_properties == expected.application_properties
            && m.header == expected.header
            && m.footer == expected.footer;
        let ok_body = match &m.body {
            Body::Data(batch) => {
                let v: Vec<u8> = batch.iter().flat_map(|d| d.0.iter().copied()).collect();
                v == body_of(i, cfg.sizes[i])
            }
            _ => false,
        };
        if !ok_props || !ok_body {
            result = Err(format!(
                "message {} differs: props_ok={} body_ok={} got props {:?}",
                i, ok_props, ok_body, m.properties
            ));
            break;
        }
    }
    if result.is_ok() {
        // nothing more must arrive
        if let Ok(r) = tokio::time::timeout(Duration::from_millis(20), rcv.recv::<Body<Value>>()).await {
            result = Err(format!("extra delivery/err after all messages: {:?}", r.map(|d| d.delivery_id().clone())));
        }
        match tokio::time::timeout(Duration::from_secs(3), send_task).await {
            Ok(Ok(Ok(_))) => {}
            Ok(Ok(Err(e))) => result = Err(format!("sender error: {}", e)),
            Ok(Err(e)) => result = Err(format!("sender panicked: {:?}", e)),
            Err(_) => result = Err("sender did not finish".to_string()),
        }
    } else {
        send_task.abort();
    }
    result
}

fn rt() -> tokio::runtime::Runtime {
    tokio::runtime::Builder::new_current_thread()
        .enable_all()
        .build()
        .unwrap()
}

#[test]
fn explore_basic() {
    let r = rt().block_on(run(Cfg::default()));
    assert_eq!(r, Ok(()));
}

#[test]
fn explore_matrix() {
    let mut failures = Vec::new();
    let size_sets: Vec<Vec<usize>> = vec![
        vec![0, 1, 10],
        vec![300; 5],
        vec![1000; 5],
        vec![5000, 10, 5000, 10],
        (0..30).map(|i| i * 100).collect(),
        vec![10; 300],
    ];
    for client_sends in [true, false] {
        for mf in [512u32, 1024, 65536] {
            for win in [1u32, 2, 5, 5000] {
                for credit in [CreditMode::Auto(1), CreditMode::Auto(2), CreditMode::Auto(10), CreditMode::Auto(200)] {
                    for (snd_mode, rcv_mode) in [
                        (SenderSettleMode::Mixed, ReceiverSettleMode::First),
                        (SenderSettleMode::Settled, ReceiverSettleMode::First),
                        (SenderSettleMode::Unsettled, ReceiverSettleMode::Second),
                    ] {
                        for sizes in &size_sets {
                            for batchable in [false, true] {
                                let cfg = Cfg {
                                    client_max_frame: mf,
                                    server_max_frame: mf,
                                    client_in_win: win,
                                    server_in_win: win,
                                    credit: credit.clone(),
                                    snd_mode: snd_mode.clone(),
                                    rcv_mode: rcv_mode.clone(),
                                    client_sends,
                                    sizes: sizes.clone(),
                                    batchable,
                                    ..Default::default()
                                };
                                let desc = format!(
                                    "client_sends={} mf={} win={} credit={:?} snd={:?} rcv={:?} sizes[{}; first {:?}] batchable={}",
                                    client_sends, mf, win, credit, snd_mode, rcv_mode, sizes.len(), &sizes[..sizes.len().min(4)], batchable
                                );
                                let r = rt().block_on(run(cfg));
                                if let Err(e) = r {
                                    eprintln!("FAIL {} => {}", desc, e);
                                    failures.push((desc, e));
                                }
                            }
                        }
                    }
                }
            }
        }
    }
    assert!(failures.is_empty(), "{} failures", failures.len());
}


#[test]
fn explore_matrix2() {
    let mut failures = Vec::new();
    let size_sets: Vec<Vec<usize>> = vec![
        vec![10; 50],
        (0..250).map(|i| (i * 7) % 300).collect(),
    ];
    let mut count = 0;
    for client_sends in [true, false] {
        for (conn_buf, session_buf, link_buf, duplex) in [(1usize, 2048usize, 2048usize, 4096usize), (2048, 1, 2048, 4096), (2048, 2048, 1, 4096), (2048, 2048, 2048, 4096), (2048, 2048, 2048, 100)] {
            for win in [1u32, 3, 5000] {
                for credit in [CreditMode::Auto(1), CreditMode::Auto(3), CreditMode::Auto(200), CreditMode::Manual] {
                    for (snd_mode, rcv_mode) in [
                        (SenderSettleMode::Mixed, ReceiverSettleMode::First),
                        (SenderSettleMode::Settled, ReceiverSettleMode::First),
                        (SenderSettleMode::Unsettled, ReceiverSettleMode::Second),
                    ] {
                        for sizes in &size_sets {
                            for batchable in [false, true] {
                                for (noid, idc) in [(0u32, 0u32), (u32::MAX - 5, u32::MAX - 5)] {
                                let cfg = Cfg {
                                    client_in_win: win,
                                    server_in_win: win,
                                    credit: credit.clone(),
                                    snd_mode: snd_mode.clone(),
                                    rcv_mode: rcv_mode.clone(),
                                    client_sends,
                                    sizes: sizes.clone(),
                                    batchable,
                                    conn_buf, session_buf, link_buf, duplex,
                                    next_out_id: noid, init_dc: idc,
                                    ..Default::default()
                                };
                                let desc = format!(
                                    "client_sends={} bufs={:?} win={} credit={:?} snd={:?} rcv={:?} n={} batchable={} noid={} idc={}",
                                    client_sends, (conn_buf, session_buf, link_buf, duplex), win, credit, snd_mode, rcv_mode, sizes.len(), batchable, noid, idc
                                );
                                count += 1;
                                let r = rt().block_on(run(cfg));
                                if let Err(e) = r {
                                    eprintln!("FAIL {} => {}", desc, e);
                                    failures.push((desc, e));
                                }
                                }
                            }
                        }
                    }
                }
            }
        }
    }
    eprintln!("ran {} configs", count);
    assert!(failures.is_empty(), "{} failures", failures.len());
}

// ---------------------------------------------------------------------------------------------
// generic round trip of arbitrary messages

use crate::types::messaging::{
    AmqpSequence, AmqpValue, Batch, DeliveryAnnotations, Footer, Header, MessageAnnotations,
};
use crate::types::primitives::{OrderedMap, Symbol, Timestamp};

pub(crate) async fn run_msgs(cfg: Cfg, msgs: Vec<Message<Body<Value>>>) -> Result<(), String> {
    let (_sc, mut ss, _cc, mut cs) = pair(&cfg).await;
    let (mut snd, mut rcv) = links(&cfg, &mut ss, &mut cs).await;
    let to_send = msgs.clone();
    let send_task = tokio::spawn(async move {
        for (i, m) in to_send.into_iter().enumerate() {
            snd.send(m).await.map_err(|e| format!("send {}: {:?}", i, e))?;
        }
        Ok::<Sender, String>(snd)
    });
    let mut result = Ok(());
    for (i, expected) in msgs.iter().enumerate() {
        let d = match tokio::time::timeout(Duration::from_secs(2), rcv.recv::<Body<Value>>()).await {
            Err(_) => {
                result = Err(format!("message {} never arrived (timeout)", i));
                break;
            }
            Ok(Err(e)) => {
                result = Err(format!("recv {} failed: {:?}", i, e));
                break;
            }
            Ok(Ok(d)) => d,
        };
        rcv.accept(&d).await.unwrap();
        if d.message() != expected {
            result = Err(format!("message {} differs:\n sent {:?}\n got  {:?}", i, expected, d.message()));
            break;
        }
    }
    if result.is_ok() {
        match tokio::time::timeout(Duration::from_secs(2), send_task).await {
            Ok(Ok(Ok(_))) => {}
            other => result = Err(format!("sender: {:?}", other.map(|r| r.map(|r| r.map(|_| ()))))),
        }
    } else {
        send_task.abort();
    }
    result
}

fn full_sections(body: Body<Value>, pad: usize) -> Message<Body<Value>> {
    let mut da = OrderedMap::new();
    da.insert(crate::types::messaging::annotations::OwnedKey::from(Symbol::from("x-da")), Value::from("v".repeat(pad)));
    let mut ma = OrderedMap::new();
    ma.insert(crate::types::messaging::annotations::OwnedKey::from(Symbol::from("x-ma")), Value::Long(-5));
    let mut ft = OrderedMap::new();
    ft.insert(crate::types::messaging::annotations::OwnedKey::from(Symbol::from("x-ft")), Value::Binary(vec![0u8, 0x53, 0x75, 0xa0, 1, 2].into()));
    Message {
        header: Some(Header { durable: true, priority: 7.into(), ttl: Some(1000), first_acquirer: true, delivery_count: 3 }),
        delivery_annotations: Some(DeliveryAnnotations(da)),
        message_annotations: Some(MessageAnnotations(ma)),
        properties: Some(Properties::builder().message_id(1u64).user_id(vec![1u8, 2, 3]).to("to").subject("s").reply_to("r").correlation_id(2u64).content_type(Symbol::from("ct")).content_encoding(Symbol::from("ce")).absolute_expiry_time(Timestamp::from_milliseconds(10)).creation_time(Timestamp::from_milliseconds(11)).group_id(String::from("g")).group_sequence(4u32).reply_to_group_id(String::from("rg")).build()),
        application_properties: Some(ApplicationProperties::builder().insert("k", "v").insert("n", 5i32).build()),
        body,
        footer: Some(Footer(ft)),
    }
}

fn bodies() -> Vec<Body<Value>> {
    vec![
        Body::Value(AmqpValue(Value::Null)),
        Body::Value(AmqpValue(Value::from("hello"))),
        Body::Value(AmqpValue(Value::List(vec![Value::Int(1), Value::from("a"), Value::Null, Value::Bool(true)]))),
        Body::Value(AmqpValue(Value::Binary(vec![0u8, 0x53, 0x77, 0, 0x53, 0x75, 0xa0, 0].into()))),
        Body::Data(Batch::new(vec![Data(Binary::from(vec![]))])),
        Body::Data(Batch::new(vec![Data(Binary::from(vec![1u8; 3])), Data(Binary::from(vec![])), Data(Binary::from(vec![2u8; 300]))])),
        Body::Data(Batch::new((0..12).map(|i| Data(Binary::from(vec![i as u8; i]))).collect::<Vec<_>>())),
        Body::Sequence(Batch::new(vec![AmqpSequence(vec![])])),
        Body::Sequence(Batch::new(vec![AmqpSequence(vec![Value::Int(1), Value::from("x")]), AmqpSequence(vec![]), AmqpSequence(vec![Value::Null])])),
        Body::Sequence(Batch::new((0..9).map(|i| AmqpSequence(vec![Value::Int(i); i as usize])).collect::<Vec<_>>())),
    ]
}

#[test]
fn explore_sections() {
    let mut failures = Vec::new();
    for mf in [512u32, 4096] {
        for pad in [0usize, 600] {
            let mut msgs = Vec::new();
            for b in bodies() {
                msgs.push(full_sections(b.clone(), pad));
                msgs.push(Message { header: None, delivery_annotations: None, message_annotations: None, properties: None, application_properties: None, body: b.clone(), footer: None });
                let mut m = full_sections(b.clone(), pad);
                m.header = None; m.properties = None; m.footer = None;
                msgs.push(m);
                let mut m = full_sections(b.clone(), pad);
                m.delivery_annotations = None; m.message_annotations = None; m.application_properties = None;
                msgs.push(m);
            }
            // one by one so that a failure does not mask the others
            for (k, m) in msgs.into_iter().enumerate() {
                let cfg = Cfg { client_max_frame: mf, server_max_frame: mf, ..Default::default() };
                if let Err(e) = rt().block_on(run_msgs(cfg, vec![m])) {
                    eprintln!("FAIL mf={} pad={} k={} => {}", mf, pad, k, e);
                    failures.push(e);
                }
            }
        }
    }
    assert!(failures.is_empty(), "{} failures", failures.len());
}

#[test]
fn explore_size_sweep() {
    let mut failures = Vec::new();
    for client_sends in [true, false] {
        for mf in [512u32, 513, 600] {
            for size in (0..1700).step_by(1) {
                let cfg = Cfg {
                    client_max_frame: mf,
                    server_max_frame: mf,
                    client_sends,
                    sizes: vec![size, size + 1],
                    ..Default::default()
                };
                if let Err(e) = rt().block_on(run(cfg)) {
                    eprintln!("FAIL client_sends={} mf={} size={} => {}", client_sends, mf, size, e);
                    failures.push(e);
                }
            }
        }
    }
    assert!(failures.is_empty(), "{} failures", failures.len());
}

// ---------------------------------------------------------------------------------------------
// candidates

/// B: window closed -> transfers buffered in the session; the link is then closed
async fn cand_close_after_presettled(win: u32, n: usize, end_session: bool) -> Result<(), String> {
    let cfg = Cfg {
        server_in_win: win,
        snd_mode: SenderSettleMode::Settled,
        sizes: vec![10; n],
        ..Default::default()
    };
    let (_sc, mut ss, _cc, mut cs) = pair(&cfg).await;
    let (mut snd, mut rcv) = links(&cfg, &mut ss, &mut cs).await;
    for i in 0..n {
        snd.send(msg_of(i, 10)).await.map_err(|e| format!("send {}: {:?}", i, e))?;
    }
    let closer = tokio::spawn(async move {
        if end_session {
            let r = cs.end().await;
            drop(snd);
            format!("{:?}", r)
        } else {
            let r = snd.close().await;
            format!("{:?}", r)
        }
    });
    let mut got = Vec::new();
    loop {
        match tokio::time::timeout(Duration::from_secs(2), rcv.recv::<Body<Value>>()).await {
            Err(_) => { got.push("timeout".to_string()); break; }
            Ok(Err(e)) => { got.push(format!("{:?}", e)); break; }
            Ok(Ok(d)) => {
                let id = d.message().properties.as_ref().and_then(|p| p.message_id.clone());
                got.push(format!("{:?}", id));
            }
        }
    }
    let close_result = tokio::time::timeout(Duration::from_secs(2), closer).await;
    eprintln!("close result {:?}", close_result);
    eprintln!("received: {:?}", got);
    if got.len() != n + 1 {
        return Err(format!("expected {} messages then the close, got {:?}", n, got));
    }
    Ok(())
}

#[test]
fn cand_b_close() {
    let r = rt().block_on(cand_close_after_presettled(1, 5, false));
    assert_eq!(r, Ok(()));
}

#[test]
fn cand_b_close_bigwin() {
    let r = rt().block_on(cand_close_after_presettled(5000, 5, false));
    assert_eq!(r, Ok(()));
}

#[test]
fn cand_e_end() {
    let r = rt().block_on(cand_close_after_presettled(1, 5, true));
    assert_eq!(r, Ok(()));
}

#[test]
fn cand_c_no_accept_settled() {
    // pre-settled deliveries, receiver only calls recv()
    for client_sends in [true, false] {
        let cfg = Cfg {
            credit: CreditMode::Auto(4),
            snd_mode: SenderSettleMode::Settled,
            sizes: vec![10; 20],
            accept: false,
            client_sends,
            ..Default::default()
        };
        let r = rt().block_on(run(cfg));
        eprintln!("client_sends={} => {:?}", client_sends, r);
    }
}

fn rt_mt() -> tokio::runtime::Runtime {
    tokio::runtime::Builder::new_multi_thread()
        .worker_threads(4)
        .enable_all()
        .build()
        .unwrap()
}

#[test]
fn explore_mt() {
    let mut failures = Vec::new();
    let rt = rt_mt();
    for round in 0..6 {
        for client_sends in [true, false] {
            for win in [1u32, 2, 7, 5000] {
                for credit in [CreditMode::Auto(1), CreditMode::Auto(2), CreditMode::Auto(5), CreditMode::Auto(200), CreditMode::Manual] {
                    for (snd_mode, rcv_mode) in [
                        (SenderSettleMode::Mixed, ReceiverSettleMode::First),
                        (SenderSettleMode::Settled, ReceiverSettleMode::First),
                        (SenderSettleMode::Unsettled, ReceiverSettleMode::Second),
                    ] {
                        for batchable in [false, true] {
                            for bufs in [64usize, 2048] {
                                let cfg = Cfg {
                                    client_in_win: win,
                                    server_in_win: win,
                                    credit: credit.clone(),
                                    snd_mode: snd_mode.clone(),
                                    rcv_mode: rcv_mode.clone(),
                                    client_sends,
                                    sizes: (0..120).map(|i| (i * 13) % 250).collect(),
                                    batchable,
                                    conn_buf: bufs, session_buf: bufs, link_buf: bufs, duplex: 4096,
                                    ..Default::default()
                                };
                                let desc = format!(
                                    "round={} client_sends={} bufs={} win={} credit={:?} snd={:?} rcv={:?} batchable={}",
                                    round, client_sends, bufs, win, credit, snd_mode, rcv_mode, batchable
                                );
                                let r = rt.block_on(async { tokio::spawn(run(cfg)).await.unwrap() });
                                if let Err(e) = r {
                                    eprintln!("FAIL {} => {}", desc, e);
                                    failures.push((desc, e));
                                }
                            }
                        }
                    }
                }
            }
        }
    }
    assert!(failures.is_empty(), "{} failures", failures.len());
}

#[test]
fn explore_mixed_settled() {
    // Mixed mode, alternate pre-settled and unsettled messages
    let r = rt().block_on(async {
        let cfg = Cfg { credit: CreditMode::Auto(3), ..Default::default() };
        let (_sc, mut ss, _cc, mut cs) = pair(&cfg).await;
        let (mut snd, mut rcv) = links(&cfg, &mut ss, &mut cs).await;
        let n = 40usize;
        let send_task = tokio::spawn(async move {
            for i in 0..n {
                let s = crate::Sendable::builder().message(msg_of(i, i * 3)).settled(i % 3 == 0).build();
                snd.send(s).await.map_err(|e| format!("send {}: {:?}", i, e))?;
            }
            Ok::<Sender, String>(snd)
        });
        for i in 0..n {
            let d = match tokio::time::timeout(Duration::from_secs(2), rcv.recv::<Body<Value>>()).await {
                Ok(Ok(d)) => d,
                other => return Err(format!("recv {}: {:?}", i, other.map(|r| r.map(|_| ())))),
            };
            rcv.accept(&d).await.unwrap();
            let exp = msg_of(i, i * 3);
            if d.message().properties != exp.properties {
                return Err(format!("message {} differs", i));
            }
        }
        match tokio::time::timeout(Duration::from_secs(2), send_task).await {
            Ok(Ok(Ok(_))) => Ok(()),
            other => Err(format!("sender: {:?}", other.map(|r| r.map(|r| r.map(|_| ()))))),
        }
    });
    assert_eq!(r, Ok(()));
}

#[test]
fn cand_d_drain() {
    let r = rt().block_on(async {
        let cfg = Cfg { credit: CreditMode::Manual, client_sends: false, snd_mode: SenderSettleMode::Settled, ..Default::default() };
        let (_sc, mut ss, _cc, mut cs) = pair(&cfg).await;
        let (mut snd, mut rcv) = links(&cfg, &mut ss, &mut cs).await;
        rcv.set_credit(10).await.unwrap();
        let send_task = tokio::spawn(async move {
            for i in 0..10 {
                snd.send(msg_of(i, 10)).await.map_err(|e| format!("send {}: {:?}", i, e))?;
                if i == 4 { tokio::time::sleep(Duration::from_millis(300)).await; }
            }
            Ok::<Sender, String>(snd)
        });
        tokio::time::sleep(Duration::from_millis(100)).await;
        rcv.drain().await.unwrap();
        tokio::time::sleep(Duration::from_millis(100)).await;
        eprintln!("credit after drain {}", rcv.credit());
        for i in 0..5 {
            let d = match tokio::time::timeout(Duration::from_secs(2), rcv.recv::<Body<Value>>()).await {
                Ok(Ok(d)) => d,
                other => return Err(format!("recv {}: {:?}", i, other.map(|r| r.map(|_| ())))),
            };
            rcv.accept(&d).await.unwrap();
        }
        eprintln!("credit after 5 {}", rcv.credit());
        rcv.set_credit(10).await.unwrap();
        for i in 5..10 {
            let d = match tokio::time::timeout(Duration::from_secs(2), rcv.recv::<Body<Value>>()).await {
                Ok(Ok(d)) => d,
                other => return Err(format!("recv {}: {:?}", i, other.map(|r| r.map(|_| ())))),
            };
            rcv.accept(&d).await.unwrap();
        }
        let _ = send_task;
        Ok(())
    });
    assert_eq!(r, Ok(()));
}

#[test]
fn explore_tiny_bufs() {
    let mut failures = Vec::new();
    for client_sends in [true, false] {
        for (conn_buf, session_buf, link_buf, duplex) in [(1usize, 1usize, 1usize, 1usize), (1, 1, 1, 4096), (2048, 1, 1, 4096), (1,1,2048,4096)] {
            for credit in [CreditMode::Auto(1), CreditMode::Auto(2), CreditMode::Auto(3), CreditMode::Auto(10), CreditMode::Auto(200)] {
                for (snd_mode, rcv_mode) in [
                    (SenderSettleMode::Mixed, ReceiverSettleMode::First),
                    (SenderSettleMode::Settled, ReceiverSettleMode::First),
                    (SenderSettleMode::Unsettled, ReceiverSettleMode::Second),
                ] {
                    for batchable in [false, true] {
                        for win in [1u32, 5000] {
                        let cfg = Cfg {
                            credit: credit.clone(),
                            client_in_win: win, server_in_win: win,
                            snd_mode: snd_mode.clone(),
                            rcv_mode: rcv_mode.clone(),
                            client_sends,
                            sizes: vec![10; 100],
                            batchable,
                            conn_buf, session_buf, link_buf, duplex,
                            ..Default::default()
                        };
                        let desc = format!(
                            "client_sends={} bufs={:?} win={} credit={:?} snd={:?} rcv={:?} batchable={}",
                            client_sends, (conn_buf, session_buf, link_buf, duplex), win, credit, snd_mode, rcv_mode, batchable
                        );
                        let r = rt().block_on(run(cfg));
                        if let Err(e) = r {
                            eprintln!("FAIL {} => {}", desc, e);
                            failures.push((desc, e));
                        }
                        }
                    }
                }
            }
        }
    }
    assert!(failures.is_empty(), "{} failures", failures.len());
}

#[test]
fn explore_one_tiny() {
    for (conn_buf, session_buf, link_buf, duplex) in [(2048usize, 2048usize, 2048usize, 1usize), (1, 2048, 2048, 4096), (2048, 1, 2048, 4096), (2048, 2048, 1, 4096), (1,1,1,4096), (1,1,1,1)] {
        let cfg = Cfg {
            sizes: vec![10; 100],
            conn_buf, session_buf, link_buf, duplex,
            ..Default::default()
        };
        let t0 = std::time::Instant::now();
        let r = rt().block_on(async { tokio::time::timeout(Duration::from_secs(10), run(cfg)).await });
        eprintln!("bufs {:?} => {:?} in {:?}", (conn_buf, session_buf, link_buf, duplex), r, t0.elapsed());
    }
}

#[test]
fn explore_duplex_sizes() {
    for duplex in [1usize, 2, 3, 7, 8, 9, 16, 33, 64] {
        let cfg = Cfg { sizes: vec![10; 100], duplex, ..Default::default() };
        let t0 = std::time::Instant::now();
        let r = rt().block_on(async {
            let p = tokio::time::timeout(Duration::from_secs(3), pair(&cfg)).await;
            match p {
                Err(_) => return "hang in connection/session setup".to_string(),
                Ok((_sc, mut ss, _cc, mut cs)) => {
                    let l = tokio::time::timeout(Duration::from_secs(3), links(&cfg, &mut ss, &mut cs)).await;
                    match l {
                        Err(_) => "hang in link attach".to_string(),
                        Ok(_) => "setup ok".to_string(),
                    }
                }
            }
        });
        eprintln!("duplex {} => {} in {:?}", duplex, r, t0.elapsed());
        if r == "setup ok" {
            let r = rt().block_on(async { tokio::time::timeout(Duration::from_secs(10), run(cfg)).await });
            eprintln!("   run => {:?}", r);
        }
    }
}

async fn bidir(duplex: usize, n: usize, size: usize, mf: u32) -> Result<(), String> {
    let cfg = Cfg { duplex, client_max_frame: mf, server_max_frame: mf, snd_mode: SenderSettleMode::Settled, ..Default::default() };
    let (_sc, mut ss, _cc, mut cs) = pair(&cfg).await;
    // link 1: client -> server
    let (mut snd1, mut rcv1) = links(&cfg, &mut ss, &mut cs).await;
    // link 2: server -> client
    let la = LinkAcceptor::new();
    let (ep, rcv2) = tokio::join!(
        la.accept(&mut ss),
        Receiver::builder().name("l2").source("q2").attach(&mut cs)
    );
    let mut rcv2 = rcv2.unwrap();
    let mut snd2 = match ep.unwrap() { LinkEndpoint::Sender(s) => s, _ => panic!() };

    let s1 = tokio::spawn(async move { for i in 0..n { snd1.send(msg_of(i, size)).await.unwrap(); } snd1 });
    let s2 = tokio::spawn(async move { for i in 0..n { snd2.send(msg_of(i, size)).await.unwrap(); } snd2 });
    let r1 = tokio::spawn(async move {
        for i in 0..n {
            match tokio::time::timeout(Duration::from_secs(3), rcv1.recv::<Body<Value>>()).await {
                Ok(Ok(d)) => { rcv1.accept(&d).await.unwrap(); }
                other => return Err(format!("link1 recv {}: {:?}", i, other.map(|r| r.map(|_| ())))),
            }
        }
        Ok(rcv1)
    });
    let r2 = tokio::spawn(async move {
        for i in 0..n {
            match tokio::time::timeout(Duration::from_secs(3), rcv2.recv::<Body<Value>>()).await {
                Ok(Ok(d)) => { rcv2.accept(&d).await.unwrap(); }
                other => return Err(format!("link2 recv {}: {:?}", i, other.map(|r| r.map(|_| ())))),
            }
        }
        Ok(rcv2)
    });
    let a = r1.await.unwrap().map(|_| ());
    let b = r2.await.unwrap().map(|_| ());
    s1.abort(); s2.abort();
    a.and(b)
}

#[test]
fn explore_bidir() {
    for (duplex, n, size, mf) in [(4096usize, 50usize, 100usize, 65536u32), (4096, 200, 3000, 65536), (4096, 20, 20000, 65536), (65536, 20, 200000, 262144), (4096, 200, 3000, 512)] {
        let r = rt().block_on(bidir(duplex, n, size, mf));
        eprintln!("bidir duplex={} n={} size={} mf={} => {:?}", duplex, n, size, mf, r);
        let r = rt_mt().block_on(async move { tokio::spawn(bidir(duplex, n, size, mf)).await.unwrap() });
        eprintln!("bidir(mt) duplex={} n={} size={} mf={} => {:?}", duplex, n, size, mf, r);
    }
}

#[test]
fn explore_bidir_mt_repeat() {
    let mut fails = 0;
    for k in 0..20 {
        let r = rt_mt().block_on(async move { tokio::spawn(bidir(4096, 20, 20000, 65536)).await.unwrap() });
        if r.is_err() { fails += 1; }
        eprintln!("bidir(mt) #{} => {:?}", k, r);
    }
    eprintln!("fails {}", fails);
}

#[test]
fn explore_bidir_probe() {
    for (duplex, n, size, mf) in [(1usize << 20, 20usize, 20000usize, 65536u32), (4096, 1, 20000, 65536), (4096, 2, 5000, 65536), (4096, 2, 4000, 65536), (8192, 3, 20000, 65536), (30000, 3, 20000, 65536)] {
        let r = rt().block_on(bidir(duplex, n, size, mf));
        eprintln!("bidir duplex={} n={} size={} mf={} => {:?}", duplex, n, size, mf, r);
    }
    for (duplex, n, size, mf) in [(4096usize, 20usize, 200000usize, 65536u32), (64, 20, 20000, 65536), (4096, 200, 20000, 65536)] {
        let r = rt_mt().block_on(async move { tokio::spawn(bidir(duplex, n, size, mf)).await.unwrap() });
        eprintln!("bidir(mt) duplex={} n={} size={} mf={} => {:?}", duplex, n, size, mf, r);
    }
}

#[test]
fn explore_mt_sep() {
    let rt = rt_mt();
    for (conn_buf, session_buf, link_buf, duplex) in [(1usize,1usize,1usize,4096usize), (2048,2048,2048,40), (1,2048,2048,4096), (2048,1,2048,4096), (2048,2048,1,4096), (1,1,2048,4096), (2048,1,1,4096), (1,2048,1,4096)] {
        let mut fails = 0; let mut total = 0; let mut first = None;
        for _round in 0..3 {
        for client_sends in [true, false] {
            for win in [1u32, 2, 5000] {
                for credit in [CreditMode::Auto(1), CreditMode::Auto(2), CreditMode::Auto(5), CreditMode::Auto(200)] {
                    for (snd_mode, rcv_mode) in [
                        (SenderSettleMode::Mixed, ReceiverSettleMode::First),
                        (SenderSettleMode::Settled, ReceiverSettleMode::First),
                        (SenderSettleMode::Unsettled, ReceiverSettleMode::Second),
                    ] {
                        for batchable in [false, true] {
                            let cfg = Cfg {
                                client_in_win: win, server_in_win: win,
                                credit: credit.clone(), snd_mode: snd_mode.clone(), rcv_mode: rcv_mode.clone(),
                                client_sends, sizes: (0..120).map(|i| (i * 13) % 250).collect(), batchable,
                                conn_buf, session_buf, link_buf, duplex,
                                ..Default::default()
                            };
                            let desc = format!("client_sends={} win={} credit={:?} snd={:?} rcv={:?} batchable={}", client_sends, win, credit, snd_mode, rcv_mode, batchable);
                            total += 1;
                            let r = rt.block_on(async { tokio::spawn(run(cfg)).await.unwrap() });
                            if let Err(e) = r { fails += 1; if first.is_none() { first = Some((desc, e)); } }
                        }
                    }
                }
            }
        }
        }
        eprintln!("SEP bufs={:?}: {} of {} failed; first {:?}", (conn_buf, session_buf, link_buf, duplex), fails, total, first);
    }
}


#[test]
fn explore_chan1() {
    for (conn_buf, session_buf, link_buf, duplex) in [(2048usize,1usize,1usize,4096usize), (2048,1,2048,4096), (2048,2048,1,4096), (1,2048,2048,4096), (1,1,1,4096), (2048,2,2,4096), (2048, 2048, 2048, 40)] {
        for client_sends in [true, false] {
            for credit in [CreditMode::Auto(1), CreditMode::Auto(4), CreditMode::Auto(200)] {
                for batchable in [false, true] {
                    let cfg = Cfg { sizes: vec![10; 300], conn_buf, session_buf, link_buf, duplex, client_sends, credit: credit.clone(), batchable, ..Default::default() };
                    let r = rt().block_on(async { tokio::time::timeout(Duration::from_secs(20), run(cfg)).await });
                    eprintln!("CH bufs {:?} client_sends={} credit={:?} batchable={} => {:?}", (conn_buf, session_buf, link_buf, duplex), client_sends, credit, batchable, r);
                }
            }
        }
    }
}

#[test]
fn explore_max_message_size() {
    // receiver announces a max-message-size, sender sends bigger messages: the link layer splits
    for (mms, client_sends) in [(100u64, true), (100, false), (1, true), (511, true), (512, false), (5000, true)] {
        let r = rt().block_on(async move {
            let cfg = Cfg { credit: CreditMode::Auto(3), client_in_win: 4, server_in_win: 4, client_sends, ..Default::default() };
            let (_sc, mut ss, _cc, mut cs) = pair(&cfg).await;
            let la = LinkAcceptor::builder().max_message_size(mms).build();
            let (mut snd, mut rcv) = if client_sends {
                let (ep, snd) = tokio::join!(la.accept(&mut ss), Sender::attach(&mut cs, "l", "q"));
                match ep.unwrap() { LinkEndpoint::Receiver(r) => (snd.unwrap(), r), _ => panic!() }
            } else {
                let (ep, rcv) = tokio::join!(la.accept(&mut ss), Receiver::builder().name("l").source("q").max_message_size(mms).attach(&mut cs));
                match ep.unwrap() { LinkEndpoint::Sender(s) => (s, rcv.unwrap()), _ => panic!() }
            };
            let sizes: Vec<usize> = vec![0, 50, 99, 100, 101, 200, 201, 1000, 3000, 7, 1500];
            let n = sizes.len();
            let s2 = sizes.clone();
            let send_task = tokio::spawn(async move {
                for (i, sz) in s2.iter().enumerate() {
                    snd.send(msg_of(i, *sz)).await.map_err(|e| format!("send {}: {:?}", i, e))?;
                }
                Ok::<Sender, String>(snd)
            });
            for i in 0..n {
                let d = match tokio::time::timeout(Duration::from_secs(2), rcv.recv::<Body<Value>>()).await {
                    Ok(Ok(d)) => d,
                    other => return Err(format!("recv {}: {:?}", i, other.map(|r| r.map(|_| ())))),
                };
                rcv.accept(&d).await.unwrap();
                let ok_body = match &d.message().body {
                    Body::Data(batch) => batch.iter().flat_map(|d| d.0.iter().copied()).collect::<Vec<u8>>() == body_of(i, sizes[i]),
                    _ => false,
                };
                if !ok_body || d.message().properties != msg_of(i, sizes[i]).properties { return Err(format!("message {} differs", i)); }
            }
            match tokio::time::timeout(Duration::from_secs(2), send_task).await {
                Ok(Ok(Ok(_))) => Ok(()),
                other => Err(format!("sender: {:?}", other.map(|r| r.map(|r| r.map(|_| ()))))),
            }
        });
        eprintln!("MMS mms={} client_sends={} => {:?}", mms, client_sends, r);
    }
}

#[test]
fn explore_size_sweep_big_ids() {
    let mut failures = Vec::new();
    for client_sends in [true, false] {
        for noid in [300u32, u32::MAX - 1] {
            for size in (330..560).chain(820..1080) {
                let cfg = Cfg {
                    client_sends,
                    sizes: vec![size, size + 1, 3],
                    next_out_id: noid,
                    init_dc: noid,
                    batchable: size % 2 == 0,
                    ..Default::default()
                };
                if let Err(e) = rt().block_on(run(cfg)) {
                    eprintln!("FAIL client_sends={} noid={} size={} => {}", client_sends, noid, size, e);
                    failures.push(e);
                }
            }
        }
    }
    assert!(failures.is_empty(), "{} failures", failures.len());
}

#[test]
fn cand_b_close_default_window_burst() {
    for n in [6000usize, 20000] {
        let r = rt().block_on(async move {
            let cfg = Cfg { snd_mode: SenderSettleMode::Settled, sizes: vec![10; n], ..Default::default() };
            let (_sc, mut ss, _cc, mut cs) = pair(&cfg).await;
            let (mut snd, mut rcv) = links(&cfg, &mut ss, &mut cs).await;
            let sender = tokio::spawn(async move {
                for i in 0..n { snd.send(msg_of(i, 10)).await.unwrap(); }
                snd.close().await
            });
            let mut got = 0usize;
            loop {
                match tokio::time::timeout(Duration::from_secs(3), rcv.recv::<Body<Value>>()).await {
                    Ok(Ok(d)) => { got += 1; rcv.accept(&d).await.unwrap(); }
                    other => { eprintln!("end: {:?}", other.map(|r| r.map(|_| ()))); break; }
                }
            }
            let _ = sender.await;
            got
        });
        eprintln!("BURST n={} got={}", n, r);
        let r = rt_mt().block_on(async move { tokio::spawn(async move {
            let cfg = Cfg { snd_mode: SenderSettleMode::Settled, sizes: vec![10; n], ..Default::default() };
            let (_sc, mut ss, _cc, mut cs) = pair(&cfg).await;
            let (mut snd, mut rcv) = links(&cfg, &mut ss, &mut cs).await;
            let sender = tokio::spawn(async move {
                for i in 0..n { snd.send(msg_of(i, 10)).await.unwrap(); }
                snd.close().await
            });
            let mut got = 0usize;
            loop {
                match tokio::time::timeout(Duration::from_secs(3), rcv.recv::<Body<Value>>()).await {
                    Ok(Ok(d)) => { got += 1; rcv.accept(&d).await.unwrap(); }
                    other => { eprintln!("end: {:?}", other.map(|r| r.map(|_| ()))); break; }
                }
            }
            let _ = sender.await;
            got
        }).await.unwrap() });
        eprintln!("BURST(mt) n={} got={}", n, r);
    }
}

#[test]
fn cand_f4_single_link() {
    for (duplex, mf, win, size) in [(4096usize, 512u32, 1u32, 100_000usize), (4096, 512, 2, 200_000), (4096, 512, 5000, 100_000), (65536, 512, 1, 100_000), (4096, 4096, 1, 1_000_000)] {
        let cfg = Cfg { duplex, client_max_frame: mf, server_max_frame: mf, server_in_win: win, client_in_win: win, sizes: vec![size], ..Default::default() };
        let r = rt().block_on(run(cfg.clone()));
        eprintln!("F4S duplex={} mf={} win={} size={} => {:?}", duplex, mf, win, size, r);
        let r = rt_mt().block_on(async move { tokio::spawn(run(cfg)).await.unwrap() });
        eprintln!("F4S(mt) duplex={} mf={} win={} size={} => {:?}", duplex, mf, win, size, r);
    }
}
