// append-to: new module at end of fe2o3-amqp/src/lib.rs
// run: c01_finding_5 --features acceptor
//
// The receiving link advances its `delivery_count` when the APPLICATION takes a delivery out of
// the link's queue (`ReceiverLink::on_complete_transfer -> flow_state.consume(1)`), but a flow from
// the sender overwrites it with the sender's delivery-count
// (`LinkFlowState<ReceiverMarker>::on_incoming_flow`), which already covers the deliveries that
// are still waiting in the queue. Those deliveries are then counted a second time. The only flow an
// fe2o3 sender ever sends is the answer to `Receiver::drain()`: after a drain that finds deliveries
// still queued, the receiver's delivery-count is ahead of the sender's, the next credit grant is
// evaluated by the sender as `credit - (delivery_count_snd - delivery_count_rcv) (wrapping)` = 0
// and the link never moves again. (`Receiver::credit()` also still reports the pre-drain credit.)
#[cfg(all(test, feature = "acceptor"))]
mod c01_finding_5 {
    use std::time::Duration;

    use crate::{
        acceptor::{ConnectionAcceptor, LinkAcceptor, LinkEndpoint, SessionAcceptor},
        connection::Connection,
        link::receiver::CreditMode,
        session::Session,
        types::{
            definitions::SenderSettleMode,
            messaging::{Body, Message, Properties},
            primitives::Value,
        },
        Receiver,
    };

    /// listener Sender -> client Receiver (manual credit). `queued` = number of deliveries that are
    /// already in the receiver's queue, not yet taken by `recv()`, when `drain()` is called.
    async fn scenario(queued: u64) -> Result<(), String> {
        let (client_io, server_io) = tokio::io::duplex(64 * 1024);
        let acceptor = ConnectionAcceptor::builder().container_id("listener").build();
        let accept = tokio::spawn(async move { acceptor.accept(server_io).await });
        let mut client_conn = Connection::builder()
            .container_id("client")
            .open_with_stream(client_io)
            .await
            .unwrap();
        let mut server_conn = accept.await.unwrap().unwrap();
        let session_acceptor = SessionAcceptor::new();
        let (server_session, client_session) = tokio::join!(
            session_acceptor.accept(&mut server_conn),
            Session::begin(&mut client_conn)
        );
        let mut server_session = server_session.unwrap();
        let mut client_session = client_session.unwrap();
        let link_acceptor = LinkAcceptor::new();
        let (ep, receiver) = tokio::join!(
            link_acceptor.accept(&mut server_session),
            Receiver::builder()
                .name("link-1")
                .source("q1")
                .sender_settle_mode(SenderSettleMode::Settled)
                .credit_mode(CreditMode::Manual)
                .attach(&mut client_session)
        );
        let mut receiver = receiver.unwrap();
        let mut sender = match ep.unwrap() {
            LinkEndpoint::Sender(s) => s,
            _ => unreachable!(),
        };

        let total = queued + 5;
        receiver.set_credit(10).await.unwrap();

        let (phase2_tx, phase2_rx) = tokio::sync::oneshot::channel::<()>();
        let send_task = tokio::spawn(async move {
            for i in 0..queued {
                let m = Message::builder()
                    .properties(Properties::builder().message_id(i).build())
                    .value(i)
                    .build();
                sender.send(m).await.unwrap();
            }
            let _ = phase2_rx.await;
            for i in queued..total {
                let m = Message::builder()
                    .properties(Properties::builder().message_id(i).build())
                    .value(i)
                    .build();
                sender.send(m).await.unwrap();
            }
            sender
        });

        // let the first `queued` deliveries reach the receiver's queue, then drain the rest of the credit
        tokio::time::sleep(Duration::from_millis(200)).await;
        receiver.drain().await.unwrap();
        tokio::time::sleep(Duration::from_millis(200)).await;

        for i in 0..queued {
            match tokio::time::timeout(Duration::from_secs(5), receiver.recv::<Body<Value>>()).await {
                Ok(Ok(d)) => receiver.accept(&d).await.unwrap(),
                other => return Err(format!("message #{}: {:?}", i, other.map(|r| r.map(|_| ())))),
            }
        }

        // new credit, the sender goes on
        receiver.set_credit(10).await.unwrap();
        let _ = phase2_tx.send(());
        for i in queued..total {
            match tokio::time::timeout(Duration::from_secs(5), receiver.recv::<Body<Value>>()).await {
                Ok(Ok(d)) => {
                    let id = d.message().properties.as_ref().and_then(|p| p.message_id.clone());
                    if id != Some(crate::types::messaging::MessageId::Ulong(i)) {
                        return Err(format!("expected message #{}, got {:?}", i, id));
                    }
                    receiver.accept(&d).await.unwrap();
                }
                Ok(Err(e)) => return Err(format!("recv #{} failed: {:?}", i, e)),
                Err(_) => {
                    return Err(format!(
                        "message #{} never arrived although 10 credits were granted after the drain",
                        i
                    ))
                }
            }
        }
        let _ = tokio::time::timeout(Duration::from_secs(5), send_task).await;
        Ok(())
    }

    /// Control: nothing is queued when the link is drained.
    #[tokio::test]
    async fn c01_finding_5_control_drain_with_empty_queue() {
        assert_eq!(scenario(0).await, Ok(()));
    }

    #[tokio::test]
    async fn c01_finding_5_drain_with_five_queued_deliveries() {
        assert_eq!(scenario(5).await, Ok(()));
    }
}
