// append-to: new module at end of fe2o3-amqp/src/lib.rs
// run: c01_finding_3 --features acceptor
//
// With small channel buffers (the property quantifies over "channel buffer sizes 1..") the
// receiving application and its session engine dead-lock on a single link in the canonical
// `recv()` -> `accept()` loop:
//   * the session engine is inside `on_incoming -> LinkRelay::on_incoming_transfer -> tx.send()`
//     waiting for room in the link's incoming channel (the application is not in `recv()`),
//   * the application is inside `accept() -> outgoing.send(Disposition / Flow)` waiting for room in
//     the link->session channel, which only the (blocked) session engine drains.
// Nothing is ever delivered again although the connection is up and the sender has sent everything.
#[cfg(all(test, feature = "acceptor"))]
mod c01_finding_3 {
    use std::time::Duration;

    use crate::{
        acceptor::{ConnectionAcceptor, LinkAcceptor, LinkEndpoint, SessionAcceptor},
        connection::Connection,
        session::Session,
        types::{
            messaging::{Body, Message, Properties},
            primitives::Value,
        },
        Receiver,
    };

    /// listener Sender -> client Receiver. The client session is built with
    /// `buffer_size(session_buf)` and the client receiver link with `buffer_size = link_buf`.
    async fn scenario(session_buf: usize, link_buf: usize, n: u64) -> Result<(), String> {
        let (client_io, server_io) = tokio::io::duplex(64 * 1024);
        let acceptor = ConnectionAcceptor::builder().container_id("listener").build();
        let accept = tokio::spawn(async move { acceptor.accept(server_io).await });
        let mut client_conn = Connection::builder()
            .container_id("client")
            .open_with_stream(client_io)
            .await
            .unwrap();
        let mut server_conn = accept.await.unwrap().unwrap();

        let session_acceptor = SessionAcceptor::new();
        let (server_session, client_session) = tokio::join!(
            session_acceptor.accept(&mut server_conn),
            Session::builder()
                .buffer_size(session_buf)
                .begin(&mut client_conn)
        );
        let mut server_session = server_session.unwrap();
        let mut client_session = client_session.unwrap();

        let link_acceptor = LinkAcceptor::new();
        let mut receiver_builder = Receiver::builder().name("link-1").source("q1");
        receiver_builder.buffer_size = link_buf;
        let (ep, receiver) = tokio::join!(
            link_acceptor.accept(&mut server_session),
            receiver_builder.attach(&mut client_session)
        );
        let mut receiver = receiver.unwrap();
        let mut sender = match ep.unwrap() {
            LinkEndpoint::Sender(s) => s,
            _ => unreachable!(),
        };

        let send_task = tokio::spawn(async move {
            let mut outcomes = Vec::new();
            for i in 0..n {
                let message = Message::builder()
                    .properties(Properties::builder().message_id(i).build())
                    .value(format!("message {}", i))
                    .build();
                outcomes.push(sender.send_batchable(message).await.expect("send"));
            }
            for outcome in outcomes {
                let _ = outcome.await;
            }
            sender
        });

        for i in 0..n {
            let delivery = match tokio::time::timeout(
                Duration::from_secs(5),
                receiver.recv::<Body<Value>>(),
            )
            .await
            {
                Ok(Ok(d)) => d,
                Ok(Err(e)) => return Err(format!("recv #{} failed: {:?}", i, e)),
                Err(_) => return Err(format!("message #{} never arrived (5 s)", i)),
            };
            match tokio::time::timeout(Duration::from_secs(5), receiver.accept(&delivery)).await {
                Ok(Ok(())) => {}
                Ok(Err(e)) => return Err(format!("accept #{} failed: {:?}", i, e)),
                Err(_) => {
                    return Err(format!(
                        "accept of message #{} never returned (5 s): application and session \
                         engine are dead-locked, messages #{}.. are never handed over",
                        i,
                        i + 1
                    ))
                }
            }
        }
        let _ = tokio::time::timeout(Duration::from_secs(5), send_task).await;
        Ok(())
    }

    /// Control: the default buffer sizes.
    #[tokio::test]
    async fn c01_finding_3_control_default_buffers() {
        assert_eq!(scenario(u16::MAX as usize, u16::MAX as usize, 300).await, Ok(()));
    }

    #[tokio::test]
    async fn c01_finding_3_buffer_size_1() {
        assert_eq!(scenario(1, 1, 300).await, Ok(()));
    }

    #[tokio::test]
    async fn c01_finding_3_buffer_size_2() {
        assert_eq!(scenario(2, 2, 300).await, Ok(()));
    }
}
