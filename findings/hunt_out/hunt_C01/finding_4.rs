// append-to: new module at end of fe2o3-amqp/src/lib.rs
// run: c01_finding_4 --features acceptor
//
// The connection engine writes a frame with `self.transport.send(frame).await` from inside its
// `select!` arm; while that write is pending it does not read the transport. When both peers have
// more to write than the byte stream between them can buffer (a message larger than the socket /
// pipe buffer going in each direction at the same time: two links in opposite directions on one
// connection), both engines sit in `send()` for ever and neither link delivers anything.
#[cfg(all(test, feature = "acceptor"))]
mod c01_finding_4 {
    use std::time::Duration;

    use crate::{
        acceptor::{ConnectionAcceptor, LinkAcceptor, LinkEndpoint, SessionAcceptor},
        connection::Connection,
        session::Session,
        types::{
            messaging::{Body, Data, Message, Properties},
            primitives::{Binary, Value},
        },
        Receiver, Sender,
    };

    fn msg_of(i: u64, size: usize) -> Message<Data> {
        Message::builder()
            .properties(Properties::builder().message_id(i).build())
            .data(Binary::from(vec![(i % 251) as u8; size]))
            .build()
    }

    async fn receive_all(mut receiver: Receiver, n: u64, size: usize, name: &str) -> Result<(), String> {
        for i in 0..n {
            let delivery = match tokio::time::timeout(
                Duration::from_secs(5),
                receiver.recv::<Body<Value>>(),
            )
            .await
            {
                Ok(Ok(d)) => d,
                Ok(Err(e)) => return Err(format!("{}: recv #{} failed: {:?}", name, i, e)),
                Err(_) => return Err(format!("{}: message #{} was sent but never arrived (5 s)", name, i)),
            };
            receiver.accept(&delivery).await.unwrap();
            match &delivery.message().body {
                Body::Data(batch) => {
                    let bytes: Vec<u8> = batch.iter().flat_map(|d| d.0.iter().copied()).collect();
                    if bytes != vec![(i % 251) as u8; size] {
                        return Err(format!("{}: message #{} damaged", name, i));
                    }
                }
                _ => return Err(format!("{}: message #{} damaged", name, i)),
            }
        }
        Ok(())
    }

    /// One connection over an in-memory pipe that buffers `pipe` bytes per direction, one session,
    /// link A client -> listener and link B listener -> client; `n` messages of `size` bytes are
    /// sent on each link at the same time, both receivers are receiving.
    async fn scenario(pipe: usize, n: u64, size: usize) -> Result<(), String> {
        let (client_io, server_io) = tokio::io::duplex(pipe);
        let acceptor = ConnectionAcceptor::builder().container_id("listener").build();
        let accept = tokio::spawn(async move { acceptor.accept(server_io).await });
        let mut client_conn = Connection::builder()
            .container_id("client")
            .open_with_stream(client_io)
            .await
            .unwrap();
        let mut server_conn = accept.await.unwrap().unwrap();

        let session_acceptor = SessionAcceptor::new();
        let (server_session, client_session) = tokio::join!(
            session_acceptor.accept(&mut server_conn),
            Session::begin(&mut client_conn)
        );
        let mut server_session = server_session.unwrap();
        let mut client_session = client_session.unwrap();

        let link_acceptor = LinkAcceptor::new();
        let (ep, sender_a) = tokio::join!(
            link_acceptor.accept(&mut server_session),
            Sender::attach(&mut client_session, "link-a", "qa")
        );
        let mut sender_a = sender_a.unwrap();
        let receiver_a = match ep.unwrap() {
            LinkEndpoint::Receiver(r) => r,
            _ => unreachable!(),
        };
        let (ep, receiver_b) = tokio::join!(
            link_acceptor.accept(&mut server_session),
            Receiver::attach(&mut client_session, "link-b", "qb")
        );
        let receiver_b = receiver_b.unwrap();
        let mut sender_b = match ep.unwrap() {
            LinkEndpoint::Sender(s) => s,
            _ => unreachable!(),
        };

        let send_a = tokio::spawn(async move {
            for i in 0..n {
                sender_a.send(msg_of(i, size)).await.unwrap();
            }
            sender_a
        });
        let send_b = tokio::spawn(async move {
            for i in 0..n {
                sender_b.send(msg_of(i, size)).await.unwrap();
            }
            sender_b
        });
        let recv_a = tokio::spawn(receive_all(receiver_a, n, size, "link A (client -> listener)"));
        let recv_b = tokio::spawn(receive_all(receiver_b, n, size, "link B (listener -> client)"));

        let a = recv_a.await.unwrap();
        let b = recv_b.await.unwrap();
        send_a.abort();
        send_b.abort();
        a.and(b)
    }

    /// Control: the messages fit into the pipe.
    #[tokio::test]
    async fn c01_finding_4_control_messages_fit_in_pipe() {
        assert_eq!(scenario(64 * 1024, 20, 3000).await, Ok(()));
    }

    /// One 20 000 byte message in each direction over a pipe that buffers 4096 bytes.
    #[tokio::test]
    async fn c01_finding_4_one_message_each_way_larger_than_pipe() {
        assert_eq!(scenario(4096, 1, 20_000).await, Ok(()));
    }

    /// 1 MB messages over a pipe with a typical socket buffer size (208 KiB).
    #[tokio::test]
    async fn c01_finding_4_one_megabyte_each_way_socket_sized_pipe() {
        assert_eq!(scenario(212_992, 3, 1_000_000).await, Ok(()));
    }

    /// Single link, single message: client Sender -> listener Receiver, max-frame-size 512 on both
    /// sides, the listener's session advertises `incoming_window`, the byte stream buffers `pipe`
    /// bytes per direction. The 100 000 byte message becomes ~200 frames that the client engine
    /// writes in ONE `transport.send()`; the listener's session answers the frames with session
    /// flows (one per `incoming_window / 2` frames). Once the unread flows fill the reverse
    /// direction the listener engine blocks in its write, stops reading, and the client engine
    /// never finishes its write.
    async fn single_link_scenario(pipe: usize, incoming_window: u32, size: usize) -> Result<(), String> {
        let (client_io, server_io) = tokio::io::duplex(pipe);
        let acceptor = ConnectionAcceptor::builder()
            .container_id("listener")
            .max_frame_size(512u32)
            .build();
        let accept = tokio::spawn(async move { acceptor.accept(server_io).await });
        let mut client_conn = Connection::builder()
            .container_id("client")
            .max_frame_size(512u32)
            .open_with_stream(client_io)
            .await
            .unwrap();
        let mut server_conn = accept.await.unwrap().unwrap();

        let session_acceptor = SessionAcceptor::builder()
            .incoming_window(incoming_window)
            .build();
        let (server_session, client_session) = tokio::join!(
            session_acceptor.accept(&mut server_conn),
            Session::begin(&mut client_conn)
        );
        let mut server_session = server_session.unwrap();
        let mut client_session = client_session.unwrap();

        let link_acceptor = LinkAcceptor::new();
        let (ep, sender) = tokio::join!(
            link_acceptor.accept(&mut server_session),
            Sender::attach(&mut client_session, "link-a", "qa")
        );
        let mut sender = sender.unwrap();
        let receiver = match ep.unwrap() {
            LinkEndpoint::Receiver(r) => r,
            _ => unreachable!(),
        };
        let send = tokio::spawn(async move {
            sender.send(msg_of(0, size)).await.unwrap();
            sender
        });
        let r = receive_all(receiver, 1, size, "single link").await;
        send.abort();
        r
    }

    /// Control: the same message with a pipe that can hold the flows.
    #[tokio::test]
    async fn c01_finding_4_single_link_control_large_pipe() {
        assert_eq!(single_link_scenario(64 * 1024, 1, 100_000).await, Ok(()));
    }

    #[tokio::test]
    async fn c01_finding_4_single_link_single_message_window_1() {
        assert_eq!(single_link_scenario(4096, 1, 100_000).await, Ok(()));
    }
}
