// append-to: new module at end of fe2o3-amqp/src/lib.rs
// run: c01_finding_1 --features acceptor
//
// Messages larger than the negotiated max-frame-size stop the link for good as soon as the
// receiving session sends any flow: the sending session counts ONE transfer-id per link-level
// transfer, the transport then cuts that transfer into several wire frames, the receiving session
// counts every wire frame. The next flow from the receiver carries a next-incoming-id that is
// AHEAD of the sender's next-outgoing-id, `Session::on_incoming_flow_inner` computes
// `in_flight = next_outgoing_id.wrapping_sub(next_incoming_id)` (~4 billion) and
// `remote_incoming_window = incoming_window.saturating_sub(in_flight) = 0`. Every later transfer
// is parked in `remote_incoming_window_exhausted_buffer` and never leaves it.
#[cfg(all(test, feature = "acceptor"))]
mod c01_finding_1 {
    use std::time::Duration;

    use crate::{
        acceptor::{ConnectionAcceptor, LinkAcceptor, LinkEndpoint, SessionAcceptor},
        connection::Connection,
        link::receiver::CreditMode,
        session::Session,
        types::{
            messaging::{Body, Data, Message, Properties},
            primitives::{Binary, Value},
        },
        Receiver, Sender,
    };

    fn body_of(i: usize, size: usize) -> Vec<u8> {
        (0..size).map(|k| ((k * 31 + i * 7) % 251) as u8).collect()
    }

    fn msg_of(i: usize, size: usize) -> Message<Data> {
        Message::builder()
            .properties(Properties::builder().message_id(i as u64).build())
            .data(Binary::from(body_of(i, size)))
            .build()
    }

    /// `client_sends`: direction of the link. `credit`: credit of the receiving link (only used
    /// when the client is the receiver; the listener side receiver keeps its default Auto(200)).
    async fn scenario(
        max_frame_size: u32,
        client_sends: bool,
        credit: u32,
        n: usize,
        body_size: usize,
    ) -> Result<(), String> {
        let (client_io, server_io) = tokio::io::duplex(4096);
        let acceptor = ConnectionAcceptor::builder()
            .container_id("listener")
            .max_frame_size(max_frame_size)
            .build();
        let accept = tokio::spawn(async move { acceptor.accept(server_io).await });
        let mut client_conn = Connection::builder()
            .container_id("client")
            .max_frame_size(max_frame_size)
            .open_with_stream(client_io)
            .await
            .unwrap();
        let mut server_conn = accept.await.unwrap().unwrap();

        let session_acceptor = SessionAcceptor::new();
        let (server_session, client_session) = tokio::join!(
            session_acceptor.accept(&mut server_conn),
            Session::begin(&mut client_conn)
        );
        let mut server_session = server_session.unwrap();
        let mut client_session = client_session.unwrap();

        let link_acceptor = LinkAcceptor::new();
        let (mut sender, mut receiver): (Sender, Receiver) = if client_sends {
            let (ep, sender) = tokio::join!(
                link_acceptor.accept(&mut server_session),
                Sender::attach(&mut client_session, "link-1", "q1")
            );
            match ep.unwrap() {
                LinkEndpoint::Receiver(r) => (sender.unwrap(), r),
                _ => unreachable!(),
            }
        } else {
            let (ep, receiver) = tokio::join!(
                link_acceptor.accept(&mut server_session),
                Receiver::builder()
                    .name("link-1")
                    .source("q1")
                    .credit_mode(CreditMode::Auto(credit))
                    .attach(&mut client_session)
            );
            match ep.unwrap() {
                LinkEndpoint::Sender(s) => (s, receiver.unwrap()),
                _ => unreachable!(),
            }
        };

        let send_task = tokio::spawn(async move {
            for i in 0..n {
                sender
                    .send(msg_of(i, body_size))
                    .await
                    .map_err(|e| format!("send #{} failed: {:?}", i, e))?;
            }
            Ok::<Sender, String>(sender)
        });

        for i in 0..n {
            let delivery = match tokio::time::timeout(
                Duration::from_secs(5),
                receiver.recv::<Body<Value>>(),
            )
            .await
            {
                Ok(Ok(d)) => d,
                Ok(Err(e)) => return Err(format!("recv #{} failed: {:?}", i, e)),
                Err(_) => {
                    return Err(format!(
                        "message #{} of {} was sent but never arrived (5 s)",
                        i, n
                    ))
                }
            };
            receiver.accept(&delivery).await.unwrap();
            let expected = msg_of(i, body_size);
            let got = delivery.message();
            let body_ok = match &got.body {
                Body::Data(batch) => {
                    let bytes: Vec<u8> = batch.iter().flat_map(|d| d.0.iter().copied()).collect();
                    bytes == body_of(i, body_size)
                }
                _ => false,
            };
            if got.properties != expected.properties || !body_ok {
                return Err(format!("message #{} arrived damaged or out of order", i));
            }
        }

        match tokio::time::timeout(Duration::from_secs(5), send_task).await {
            Ok(Ok(Ok(_sender))) => Ok(()),
            other => Err(format!("the sender did not finish: {:?}", other.map(|r| r.map(|r| r.map(|_| ()))))),
        }
    }

    /// Control: the same scenario with messages that fit into one frame passes.
    #[tokio::test]
    async fn c01_finding_1_control_single_frame_messages() {
        assert_eq!(scenario(512, false, 2, 10, 100).await, Ok(()));
        assert_eq!(scenario(512, true, 200, 150, 100).await, Ok(()));
    }

    /// listener Sender -> client Receiver, max-frame-size 512, credit Auto(2), five 1000-byte
    /// messages (3 frames each). The credit top-up flow sent after the first accepted message
    /// closes the sender's session window for ever.
    #[tokio::test]
    async fn c01_finding_1_multi_frame_messages_credit_2() {
        assert_eq!(scenario(512, false, 2, 5, 1000).await, Ok(()));
    }

    /// client Sender -> listener Receiver, everything at its default except max-frame-size 512:
    /// 150 messages of 1000 bytes. The receiver's default Auto(200) credit is topped up after 100
    /// accepted deliveries; that flow stops the link.
    #[tokio::test]
    async fn c01_finding_1_multi_frame_messages_default_credit() {
        assert_eq!(scenario(512, true, 200, 150, 1000).await, Ok(()));
    }

    /// The same with the default max-frame-size (256 KiB) and 300 KB messages.
    #[tokio::test]
    async fn c01_finding_1_default_frame_size_300k_messages() {
        assert_eq!(
            scenario(crate::connection::DEFAULT_MAX_FRAME_SIZE, false, 2, 4, 300_000).await,
            Ok(())
        );
    }

    /// The arithmetic in isolation: a session that has sent ONE transfer and is then told by its
    /// peer "I have seen 3 transfer frames, my window is 5000" must still be allowed to send.
    #[tokio::test]
    async fn c01_finding_1_session_window_after_flow_ahead_of_next_outgoing_id() {
        use std::sync::{Arc, OnceLock};

        use crate::endpoint::{InputHandle, OutgoingChannel, Session as _};
        use crate::types::{
            definitions::Handle,
            performatives::{Flow, Transfer},
            states::SessionState,
        };

        let mut session = crate::session::Builder::new().into_session(
            OutgoingChannel(0),
            SessionState::Mapped,
            Arc::new(OnceLock::new()),
        );
        session.remote_incoming_window = 5000;

        let transfer = Transfer {
            handle: Handle(0),
            delivery_id: None,
            delivery_tag: Some(vec![0u8, 0, 0, 0].into()),
            message_format: Some(0),
            settled: Some(true),
            more: false,
            rcv_settle_mode: None,
            state: None,
            resume: false,
            aborted: false,
            batchable: false,
        };
        // one link-level transfer (the transport will cut it into 3 frames)
        let out = session
            .on_outgoing_transfer(InputHandle(0), transfer, bytes::Bytes::from(vec![0u8; 1000]))
            .unwrap();
        assert!(out.is_some());
        assert_eq!(session.next_outgoing_id, 1);

        // the peer has counted the 3 frames
        let flow = Flow {
            next_incoming_id: Some(3),
            incoming_window: 5000,
            next_outgoing_id: 0,
            outgoing_window: 5000,
            handle: None,
            delivery_count: None,
            link_credit: None,
            available: None,
            drain: false,
            echo: false,
            properties: None,
        };
        session.on_incoming_flow(flow).await.unwrap();
        assert!(
            session.remote_incoming_window > 0,
            "the peer advertised a window of 5000 and has nothing outstanding, \
             but remote_incoming_window = {}",
            session.remote_incoming_window
        );
    }
}
