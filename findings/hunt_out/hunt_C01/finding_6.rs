// append-to: new module at end of fe2o3-amqp/src/lib.rs
// run: c01_finding_6 --features acceptor
//
// `CreditMode::Auto(n)` is documented as "the receiver will automatically send flow frames when
// the remaining credit is below 50% of the assigned credit", but the top-up is only evaluated in
// `ReceiverInner::dispose / dispose_all` (counter `processed`). A receiving application that only
// calls `recv()` - which is all there is to do for deliveries that arrive pre-settled
// (snd-settle-mode = settled) - never triggers it: after n messages the credit is used up, the
// sender's next `send()` waits for credit for ever and the remaining messages are never handed over.
#[cfg(all(test, feature = "acceptor"))]
mod c01_finding_6 {
    use std::time::Duration;

    use crate::{
        acceptor::{ConnectionAcceptor, LinkAcceptor, LinkEndpoint, SessionAcceptor},
        connection::Connection,
        link::receiver::CreditMode,
        session::Session,
        types::{
            definitions::SenderSettleMode,
            messaging::{Body, Message, Properties},
            primitives::Value,
        },
        Receiver,
    };

    async fn scenario(credit: u32, n: u64, call_accept: bool) -> Result<(), String> {
        let (client_io, server_io) = tokio::io::duplex(64 * 1024);
        let acceptor = ConnectionAcceptor::builder().container_id("listener").build();
        let accept = tokio::spawn(async move { acceptor.accept(server_io).await });
        let mut client_conn = Connection::builder()
            .container_id("client")
            .open_with_stream(client_io)
            .await
            .unwrap();
        let mut server_conn = accept.await.unwrap().unwrap();
        let session_acceptor = SessionAcceptor::new();
        let (server_session, client_session) = tokio::join!(
            session_acceptor.accept(&mut server_conn),
            Session::begin(&mut client_conn)
        );
        let mut server_session = server_session.unwrap();
        let mut client_session = client_session.unwrap();
        let link_acceptor = LinkAcceptor::new();
        let (ep, receiver) = tokio::join!(
            link_acceptor.accept(&mut server_session),
            Receiver::builder()
                .name("link-1")
                .source("q1")
                .sender_settle_mode(SenderSettleMode::Settled)
                .credit_mode(CreditMode::Auto(credit))
                .attach(&mut client_session)
        );
        let mut receiver = receiver.unwrap();
        let mut sender = match ep.unwrap() {
            LinkEndpoint::Sender(s) => s,
            _ => unreachable!(),
        };

        let send_task = tokio::spawn(async move {
            for i in 0..n {
                let m = Message::builder()
                    .properties(Properties::builder().message_id(i).build())
                    .value(i)
                    .build();
                sender.send(m).await.unwrap();
            }
            sender
        });

        for i in 0..n {
            match tokio::time::timeout(Duration::from_secs(5), receiver.recv::<Body<Value>>()).await {
                Ok(Ok(d)) => {
                    let id = d.message().properties.as_ref().and_then(|p| p.message_id.clone());
                    if id != Some(crate::types::messaging::MessageId::Ulong(i)) {
                        return Err(format!("expected message #{}, got {:?}", i, id));
                    }
                    if call_accept {
                        // no disposition is written for a pre-settled delivery, but this is what
                        // renews the credit
                        receiver.accept(&d).await.unwrap();
                    }
                }
                Ok(Err(e)) => return Err(format!("recv #{} failed: {:?}", i, e)),
                Err(_) => {
                    return Err(format!(
                        "message #{} of {} never arrived: Auto({}) credit was not renewed",
                        i, n, credit
                    ))
                }
            }
        }
        let _ = tokio::time::timeout(Duration::from_secs(5), send_task).await;
        Ok(())
    }

    /// Control: calling `accept()` on the (already settled) deliveries keeps the link going.
    #[tokio::test]
    async fn c01_finding_6_control_with_accept() {
        assert_eq!(scenario(4, 20, true).await, Ok(()));
    }

    #[tokio::test]
    async fn c01_finding_6_presettled_deliveries_recv_only() {
        assert_eq!(scenario(4, 20, false).await, Ok(()));
    }

    /// The default credit
    #[tokio::test]
    async fn c01_finding_6_presettled_deliveries_recv_only_default_credit() {
        assert_eq!(scenario(200, 300, false).await, Ok(()));
    }
}
