// append-to: new module at end of fe2o3-amqp/src/lib.rs
// run: c01_finding_2 --features acceptor
//
// Transfers that the session holds back in `remote_incoming_window_exhausted_buffer` (peer's
// session window closed) are overtaken by the link's Detach (and by the session's End): only
// transfers are queued behind the window, every other frame of the same link goes out at once.
// `Sender::send` has returned `Ok` for all messages (pre-settled), `Sender::close` returns `Ok`,
// the connection stays up - and the receiving application gets only the first message.
#[cfg(all(test, feature = "acceptor"))]
mod c01_finding_2 {
    use std::time::Duration;

    use crate::{
        acceptor::{ConnectionAcceptor, LinkAcceptor, LinkEndpoint, SessionAcceptor},
        connection::Connection,
        session::Session,
        types::{
            definitions::SenderSettleMode,
            messaging::{Body, Message, Properties},
            primitives::Value,
        },
        Sender,
    };

    #[derive(Clone, Copy, PartialEq)]
    enum Stop {
        CloseLink,
        EndSession,
    }

    /// client Sender (snd-settle-mode settled) -> listener Receiver whose session advertises
    /// `listener_incoming_window`. The client sends `n` small messages and then closes the link
    /// (or ends the session). Returns the message-ids handed to the receiving application.
    async fn scenario(listener_incoming_window: u32, n: u64, stop: Stop) -> Vec<u64> {
        let (client_io, server_io) = tokio::io::duplex(4096);
        let acceptor = ConnectionAcceptor::builder().container_id("listener").build();
        let accept = tokio::spawn(async move { acceptor.accept(server_io).await });
        let mut client_conn = Connection::builder()
            .container_id("client")
            .open_with_stream(client_io)
            .await
            .unwrap();
        let mut server_conn = accept.await.unwrap().unwrap();

        let session_acceptor = SessionAcceptor::builder()
            .incoming_window(listener_incoming_window)
            .build();
        let (server_session, client_session) = tokio::join!(
            session_acceptor.accept(&mut server_conn),
            Session::begin(&mut client_conn)
        );
        let mut server_session = server_session.unwrap();
        let mut client_session = client_session.unwrap();

        let link_acceptor = LinkAcceptor::new();
        let (ep, sender) = tokio::join!(
            link_acceptor.accept(&mut server_session),
            Sender::builder()
                .name("link-1")
                .target("q1")
                .sender_settle_mode(SenderSettleMode::Settled)
                .attach(&mut client_session)
        );
        let mut sender = sender.unwrap();
        let mut receiver = match ep.unwrap() {
            LinkEndpoint::Receiver(r) => r,
            _ => unreachable!(),
        };

        // every send returns Ok: the deliveries are pre-settled
        for i in 0..n {
            let message = Message::builder()
                .properties(Properties::builder().message_id(i).build())
                .value(format!("message {}", i))
                .build();
            sender.send(message).await.expect("send must succeed");
        }

        let stopper = tokio::spawn(async move {
            match stop {
                Stop::CloseLink => {
                    sender.close().await.expect("close must succeed");
                }
                Stop::EndSession => {
                    client_session.end().await.expect("end must succeed");
                    drop(sender);
                }
            }
            client_session
        });

        let mut got = Vec::new();
        loop {
            match tokio::time::timeout(Duration::from_secs(5), receiver.recv::<Body<Value>>()).await
            {
                Ok(Ok(delivery)) => {
                    receiver.accept(&delivery).await.unwrap();
                    match delivery.message().properties.as_ref().and_then(|p| p.message_id.clone())
                    {
                        Some(crate::types::messaging::MessageId::Ulong(id)) => got.push(id),
                        other => panic!("unexpected message id {:?}", other),
                    }
                }
                // the link was closed by the sender / the session was ended / nothing more comes
                Ok(Err(_)) | Err(_) => break,
            }
        }
        let _ = tokio::time::timeout(Duration::from_secs(5), stopper).await;
        got
    }

    /// Control: with the window open all five messages arrive before the close is seen.
    #[tokio::test]
    async fn c01_finding_2_control_window_open() {
        assert_eq!(scenario(5000, 5, Stop::CloseLink).await, vec![0, 1, 2, 3, 4]);
        assert_eq!(scenario(5000, 5, Stop::EndSession).await, vec![0, 1, 2, 3, 4]);
    }

    #[tokio::test]
    async fn c01_finding_2_close_overtakes_transfers_held_by_session_window() {
        assert_eq!(scenario(1, 5, Stop::CloseLink).await, vec![0, 1, 2, 3, 4]);
    }

    #[tokio::test]
    async fn c01_finding_2_close_overtakes_window_3() {
        assert_eq!(scenario(3, 8, Stop::CloseLink).await, vec![0, 1, 2, 3, 4, 5, 6, 7]);
    }

    #[tokio::test]
    async fn c01_finding_2_end_overtakes_transfers_held_by_session_window() {
        assert_eq!(scenario(1, 5, Stop::EndSession).await, vec![0, 1, 2, 3, 4]);
    }
}
