// append-to: serde_amqp/src/ser.rs (inside `mod test`)
// run: c05_empty_array_is_encoded_without_constructor --features derive
    // C05 / finding 2: an empty array is encoded as `e0 01 00`: the size covers the count only and
    // there is no element constructor. The array layout of the specification (Part 1, 1.6.24 and
    // the figure "Layout of Array Encoded data") is size | count | element-constructor | elements,
    // the constructor is not optional ("a zero-length array (with a correct type for its
    // elements)", 1.4). A decoder that follows the specification takes the first byte of the NEXT
    // value for the constructor.

    #[test]
    fn c05_empty_array_is_encoded_without_constructor() {
        let empty: Array<Symbol> = Array(vec![]);
        let buf = to_vec(&empty).unwrap();

        // array8: code, size, count, constructor
        assert_eq!(buf[0], EncodingCodes::Array8 as u8);
        let size = buf[1] as usize;
        assert_eq!(buf.len(), 2 + size, "size field does not match the bytes written");
        assert_eq!(buf[2], 0, "count");
        assert!(
            size >= 2,
            "the size of an array8 covers the count AND the element constructor; got {:02x?}",
            buf
        );
    }

    #[test]
    fn c05_empty_array_is_encoded_without_constructor_in_list() {
        // what an independent decoder does with [ empty array, 1u32 ]
        let buf = to_vec(&(Array::<Symbol>(vec![]), 1u32)).unwrap();
        // list8, size, count = 2
        assert_eq!(buf[0], EncodingCodes::List8 as u8);
        assert_eq!(buf[2], 2);
        let mut pos = 3;
        // first element: array8
        assert_eq!(buf[pos], EncodingCodes::Array8 as u8);
        let size = buf[pos + 1] as usize;
        let count = buf[pos + 2];
        assert_eq!(count, 0);
        // the constructor is the byte after the count and belongs to the array (it is covered by
        // the array's size)
        let end_of_array = pos + 2 + size;
        let constructor_pos = pos + 3;
        assert!(
            constructor_pos < end_of_array,
            "the element constructor at offset {} lies outside of the array (ends at {}): {:02x?}",
            constructor_pos,
            end_of_array,
            buf
        );
        pos = end_of_array;
        // second element: smalluint 1
        assert_eq!(&buf[pos..], &[EncodingCodes::SmallUint as u8, 1]);
    }
