// append-to: fe2o3-amqp-types/src/messaging/message/mod.rs (inside `mod tests`)
// run: c05_body_sections_with_mixed_descriptor_forms
    // C05 / finding 5: the body sections of one message (several `data` or several
    // `amqp-sequence` sections) are only kept together while they all spell their descriptor the
    // same way. The numeric descriptor 0x0000000000000075 and the symbolic descriptor
    // "amqp:data:binary" are two valid encodings of the same descriptor; if a peer uses one for
    // the first section and the other for the second, the first section is silently dropped.

    #[test]
    fn c05_body_sections_with_mixed_descriptor_forms_data() {
        // data section [1], descriptor by code (smallulong 0x75)
        let mut buf = vec![0x00, 0x53, 0x75, 0xa0, 0x01, 0x01];
        // data section [2], descriptor by name (sym8 "amqp:data:binary")
        buf.extend_from_slice(&[0x00, 0xa3, 16]);
        buf.extend_from_slice(b"amqp:data:binary");
        buf.extend_from_slice(&[0xa0, 0x01, 0x02]);

        let message: Deserializable<Message<Body<Value>>> = from_slice(&buf).unwrap();
        let expected = Body::Data(Batch::new(vec![
            Data(Binary::from(vec![1u8])),
            Data(Binary::from(vec![2u8])),
        ]));
        assert_eq!(message.0.body, expected);
    }

    #[test]
    fn c05_body_sections_with_mixed_descriptor_forms_control() {
        // the same two sections, both by code (one smallulong, one ulong): decoded correctly
        let mut buf = vec![0x00, 0x53, 0x75, 0xa0, 0x01, 0x01];
        buf.extend_from_slice(&[0x00, 0x80, 0, 0, 0, 0, 0, 0, 0, 0x75, 0xa0, 0x01, 0x02]);

        let message: Deserializable<Message<Body<Value>>> = from_slice(&buf).unwrap();
        let expected = Body::Data(Batch::new(vec![
            Data(Binary::from(vec![1u8])),
            Data(Binary::from(vec![2u8])),
        ]));
        assert_eq!(message.0.body, expected);
    }

    #[test]
    fn c05_body_sections_with_mixed_descriptor_forms_sequence() {
        // amqp-sequence [1] by name, amqp-sequence [2] by code
        let mut buf = vec![0x00, 0xa3, 23];
        buf.extend_from_slice(b"amqp:amqp-sequence:list");
        buf.extend_from_slice(&[0xc0, 0x03, 0x01, 0x52, 0x01]);
        buf.extend_from_slice(&[0x00, 0x53, 0x76, 0xc0, 0x03, 0x01, 0x52, 0x02]);

        let message: Deserializable<Message<Body<Value>>> = from_slice(&buf).unwrap();
        let expected = Body::Sequence(Batch::new(vec![
            AmqpSequence(vec![Value::Uint(1)]),
            AmqpSequence(vec![Value::Uint(2)]),
        ]));
        assert_eq!(message.0.body, expected);
    }
