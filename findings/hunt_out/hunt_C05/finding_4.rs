// append-to: serde_amqp/src/de.rs (inside `mod tests`)
// run: c05_more_than_65536 --features derive
    // C05 / finding 4: list32, map32 and array32 encodings with more than 65 536 (MAX_ARRAY_COUNT)
    // elements are refused with `InvalidValue`, although they are valid (the 32 bit variants exist
    // for exactly these values: "up to 2^32 - 1 list elements with total size less than 2^32
    // octets") and although the encoder of this crate produces them.

    const C05_COUNT: usize = 65_537;

    #[test]
    fn c05_more_than_65536_list32() {
        // list32: size = 4 (count) + C05_COUNT (one byte per `true`), count, elements
        let mut buf = vec![0xd0];
        buf.extend_from_slice(&((4 + C05_COUNT) as u32).to_be_bytes());
        buf.extend_from_slice(&(C05_COUNT as u32).to_be_bytes());
        buf.extend(std::iter::repeat_n(0x41u8, C05_COUNT));

        let decoded: Vec<bool> =
            from_slice(&buf).unwrap_or_else(|e| panic!("a valid list32 is refused: {:?}", e));
        assert_eq!(decoded, vec![true; C05_COUNT]);
    }

    #[test]
    fn c05_more_than_65536_own_encoding() {
        // the encoder and the decoder do not agree either
        let value = vec![true; C05_COUNT];
        let buf = crate::to_vec(&value).unwrap();
        let decoded: Vec<bool> = from_slice(&buf)
            .unwrap_or_else(|e| panic!("the crate's own encoding is refused: {:?}", e));
        assert_eq!(decoded, value);
    }

    #[test]
    fn c05_more_than_65536_array32() {
        // array32 of ubyte: size = 4 (count) + 1 (constructor) + C05_COUNT
        let mut buf = vec![0xf0];
        buf.extend_from_slice(&((4 + 1 + C05_COUNT) as u32).to_be_bytes());
        buf.extend_from_slice(&(C05_COUNT as u32).to_be_bytes());
        buf.push(0x50);
        buf.extend(std::iter::repeat_n(7u8, C05_COUNT));

        let decoded: crate::primitives::Array<u8> =
            from_slice(&buf).unwrap_or_else(|e| panic!("a valid array32 is refused: {:?}", e));
        assert_eq!(decoded.0, vec![7u8; C05_COUNT]);
    }

    #[test]
    fn c05_more_than_65536_map32() {
        use std::collections::BTreeMap;

        // map32 with 32 769 entries (count = 65 538): key uint (5 bytes), value null (1 byte)
        const ENTRIES: usize = 32_769;
        let mut buf = vec![0xd1];
        buf.extend_from_slice(&((4 + ENTRIES * 6) as u32).to_be_bytes());
        buf.extend_from_slice(&((ENTRIES * 2) as u32).to_be_bytes());
        for k in 0..ENTRIES as u32 {
            buf.push(0x70);
            buf.extend_from_slice(&k.to_be_bytes());
            buf.push(0x40);
        }

        let decoded: BTreeMap<u32, ()> =
            from_slice(&buf).unwrap_or_else(|e| panic!("a valid map32 is refused: {:?}", e));
        assert_eq!(decoded.len(), ENTRIES);
    }
