// append-to: serde_amqp/src/lazy.rs (inside `mod tests`)
// run: c05_lazy_value_described_value_of_described --features derive
    // C05 / finding 6: `LazyValue` (the "keep the encoded bytes" decode target, e.g.
    // `Body<LazyValue>`) refuses a described value whose value is again a described value, which
    // is a valid encoding ("described types as descriptor plus value", where the value is any
    // AMQP value) and which `Value` decodes without problems.

    #[test]
    fn c05_lazy_value_described_value_of_described() {
        // an amqp-value section (descriptor 0x77) that carries the described value
        // ( symbol "a" : uint 1 )
        let buf = [0x00u8, 0x53, 0x77, 0x00, 0xa3, 0x01, b'a', 0x52, 0x01];

        // control: this is a valid encoding, `Value` takes it
        let value: Value = from_slice(&buf).unwrap();
        let expected = Value::Described(Box::new(Described {
            descriptor: Descriptor::Code(0x77),
            value: Value::Described(Box::new(Described {
                descriptor: Descriptor::Name(crate::primitives::Symbol::from("a")),
                value: Value::Uint(1),
            })),
        }));
        assert_eq!(value, expected);

        let lazy: LazyValue = from_slice(&buf)
            .unwrap_or_else(|e| panic!("a valid described value is refused: {:?}", e));
        assert_eq!(lazy.as_slice(), &buf);
    }

    #[test]
    fn c05_lazy_value_described_value_of_described_from_reader() {
        let buf = [0x00u8, 0x53, 0x77, 0x00, 0xa3, 0x01, b'a', 0x52, 0x01];
        let mut reader = SliceReader::new(&buf);
        let lazy = LazyValue::from_reader(&mut reader)
            .unwrap_or_else(|e| panic!("a valid described value is refused: {:?}", e));
        assert_eq!(lazy.as_slice(), &buf);
    }
