// append-to: serde_amqp/src/ser.rs (inside `mod test`)
// run: c05_array_of_structs --features derive
    // C05 / finding 8: in an array of structs / tuple structs (each element is a list) the
    // "no format code, this is an array element" mode of the serializer is handed down to the
    // FIELDS of the struct. The fields of the second and later elements are written without
    // their constructors although the members of a list always carry one; a tuple struct
    // additionally repeats the list8 format code for every element.

    /// A decoder written from the specification alone (Part 1, 1.2 and 1.6), restricted to the
    /// types used in these tests. It checks every size field against the bytes it covers and
    /// decodes all the elements of an array with the single constructor of that array. The result
    /// is a canonical text of the value, independent of the width variant chosen by the encoder.
    mod c05_strict8 {
        fn take<'a>(b: &mut &'a [u8], n: usize) -> Result<&'a [u8], String> {
            if b.len() < n {
                return Err(format!("need {} bytes, {} left", n, b.len()));
            }
            let (h, t) = b.split_at(n);
            *b = t;
            Ok(h)
        }

        fn size(b: &mut &[u8], width: usize) -> Result<usize, String> {
            let x = take(b, width)?;
            Ok(x.iter().fold(0usize, |acc, d| (acc << 8) | *d as usize))
        }

        pub fn value(b: &mut &[u8]) -> Result<String, String> {
            let code = take(b, 1)?[0];
            body(code, b)
        }

        /// Decodes the bytes that follow the constructor `code`
        pub fn body(code: u8, b: &mut &[u8]) -> Result<String, String> {
            Ok(match code {
                0x40 => "null".to_string(),
                0x41 => "true".to_string(),
                0x42 => "false".to_string(),
                0x56 => format!("{}", take(b, 1)?[0] == 1),
                0x50 => format!("ubyte({})", take(b, 1)?[0]),
                0x43 => "uint(0)".to_string(),
                0x52 => format!("uint({})", take(b, 1)?[0]),
                0x70 => format!("uint({})", size(b, 4)?),
                0xa1 | 0xb1 => {
                    let n = size(b, if code == 0xa1 { 1 } else { 4 })?;
                    format!("str({})", String::from_utf8_lossy(take(b, n)?))
                }
                0x45 => "list[]".to_string(),
                0xc0 | 0xd0 | 0xc1 | 0xd1 => {
                    let width = if code & 0xf0 == 0xc0 { 1 } else { 4 };
                    let sz = size(b, width)?;
                    let mut inner = take(b, sz).map_err(|e| format!("size {}: {}", sz, e))?;
                    let count = size(&mut inner, width)?;
                    let mut items = Vec::new();
                    for _ in 0..count {
                        items.push(value(&mut inner)?);
                    }
                    if !inner.is_empty() {
                        return Err(format!("{} bytes inside the size are not used", inner.len()));
                    }
                    let name = if code & 1 == 1 { "map" } else { "list" };
                    format!("{}[{}]", name, items.join(","))
                }
                0xe0 | 0xf0 => {
                    let width = if code == 0xe0 { 1 } else { 4 };
                    let sz = size(b, width)?;
                    let mut inner = take(b, sz).map_err(|e| format!("size {}: {}", sz, e))?;
                    let count = size(&mut inner, width)?;
                    let constructor = take(&mut inner, 1).map_err(|e| format!("constructor: {}", e))?[0];
                    let mut items = Vec::new();
                    for i in 0..count {
                        items.push(
                            body(constructor, &mut inner)
                                .map_err(|e| format!("array element {}: {}", i, e))?,
                        );
                    }
                    if !inner.is_empty() {
                        return Err(format!("{} bytes inside the size are not used", inner.len()));
                    }
                    format!("array[{}]", items.join(","))
                }
                other => return Err(format!("unexpected constructor {:#04x}", other)),
            })
        }

        pub fn decode(bytes: &[u8]) -> Result<String, String> {
            let mut b = bytes;
            let text = value(&mut b)?;
            if !b.is_empty() {
                return Err(format!("{} trailing bytes after {}", b.len(), text));
            }
            Ok(text)
        }
    }

    #[derive(Debug, Serialize)]
    struct C05Point {
        x: u32,
        y: u32,
    }

    #[derive(Debug, Serialize)]
    struct C05PointTuple(u32, u32);

    fn c05_assert_encodes_to8<T: Serialize>(value: &T, expected: &str) {
        let buf = to_vec(value).unwrap();
        match c05_strict8::decode(&buf) {
            Ok(text) => assert_eq!(text, expected, "bytes: {:02x?}", buf),
            Err(e) => panic!(
                "not a well-formed encoding ({}); expected {}; bytes: {:02x?}",
                e, expected, buf
            ),
        }
    }

    #[test]
    fn c05_array_of_structs_control() {
        // plain tuples are fine
        c05_assert_encodes_to8(
            &Array(vec![(1u32, 2u32), (3, 4)]),
            "array[list[uint(1),uint(2)],list[uint(3),uint(4)]]",
        );
        // and so is a list of structs
        c05_assert_encodes_to8(
            &vec![C05Point { x: 1, y: 2 }, C05Point { x: 3, y: 4 }],
            "list[list[uint(1),uint(2)],list[uint(3),uint(4)]]",
        );
    }

    #[test]
    fn c05_array_of_structs() {
        c05_assert_encodes_to8(
            &Array(vec![C05Point { x: 1, y: 2 }, C05Point { x: 3, y: 4 }]),
            "array[list[uint(1),uint(2)],list[uint(3),uint(4)]]",
        );
    }

    #[test]
    fn c05_array_of_structs_tuple_struct() {
        c05_assert_encodes_to8(
            &Array(vec![C05PointTuple(1, 2), C05PointTuple(3, 4)]),
            "array[list[uint(1),uint(2)],list[uint(3),uint(4)]]",
        );
    }
