// append-to: fe2o3-amqp-types/src/performatives/open.rs (inside `mod tests`)
// run: c05_empty_array_with_constructor
    // C05 / finding 1: a spec-valid EMPTY array (size, count = 0, element constructor) is not
    // consumed completely: the decoder leaves the element constructor in the stream, so every
    // value that follows the array is decoded from the wrong offset.
    //
    // Reference encodings are written by hand from the specification (Part 1, 1.6.24 array and
    // figure "Layout of Array Encoded data": size | count | element-constructor | elements).

    /// `open` with container-id "cid", offered-capabilities = empty symbol array (array8, size 2,
    /// count 0, constructor sym8), desired-capabilities = ["y"]
    fn c05_open_with_empty_offered_capabilities(array32: bool) -> Vec<u8> {
        let mut fields: Vec<u8> = vec![
            0xa1, 0x03, b'c', b'i', b'd', // container-id
            0x40, 0x40, 0x40, 0x40, 0x40, 0x40, // hostname .. incoming-locales
        ];
        if array32 {
            // array32: size = 4 (count) + 1 (constructor), count = 0, constructor sym8
            fields.extend_from_slice(&[0xf0, 0, 0, 0, 5, 0, 0, 0, 0, 0xa3]);
        } else {
            // array8: size = 1 (count) + 1 (constructor), count = 0, constructor sym8
            fields.extend_from_slice(&[0xe0, 0x02, 0x00, 0xa3]);
        }
        // desired-capabilities: array8 of one sym8 "y"
        fields.extend_from_slice(&[0xe0, 0x04, 0x01, 0xa3, 0x01, b'y']);

        let mut buf = vec![0x00, 0x53, 0x10, 0xc0, (fields.len() + 1) as u8, 9];
        buf.extend_from_slice(&fields);
        buf
    }

    #[test]
    fn c05_empty_array_with_constructor_in_open() {
        for array32 in [false, true] {
            let buf = c05_open_with_empty_offered_capabilities(array32);
            let open: Open = from_slice(&buf)
                .unwrap_or_else(|e| panic!("array32={}: a valid open is refused: {:?}", array32, e));
            assert_eq!(open.container_id, "cid");
            // null and the empty array are the same thing for a `multiple` field
            assert_eq!(open.offered_capabilities, None);
            assert_eq!(
                open.desired_capabilities,
                Some(Array(vec![Symbol::from("y")]))
            );
        }
    }

    #[test]
    fn c05_empty_array_with_constructor_in_value() {
        use serde_amqp::Value;

        // list8 [ array8(count 0, constructor ubyte), uint 7 ]
        let buf = [0xc0u8, 0x07, 0x02, 0xe0, 0x02, 0x00, 0x50, 0x52, 0x07];
        let expected = Value::List(vec![Value::Array(Array(vec![])), Value::Uint(7)]);
        let decoded: Value =
            from_slice(&buf).unwrap_or_else(|e| panic!("a valid list is refused: {:?}", e));
        assert_eq!(decoded, expected);

        // the same as a typed tuple
        let decoded: (Array<u8>, u32) =
            from_slice(&buf).unwrap_or_else(|e| panic!("a valid list is refused: {:?}", e));
        assert_eq!(decoded, (Array(vec![]), 7));
    }
