// append-to: serde_amqp/src/ser.rs (inside `mod test`)
// run: c05_array_of_compound --features derive
    // C05 / finding 3: an array whose elements are lists, maps or arrays does not have ONE
    // constructor: every element picks its own width variant (list0 / list8 / list32, map8 / map32,
    // array8 / array32) although only the first element writes a format code. As soon as the
    // elements do not all fall into the same variant the bytes are not a valid encoding.

    /// A decoder written from the specification alone (Part 1, 1.2 and 1.6), restricted to the
    /// types used in these tests. It checks every size field against the bytes it covers and
    /// decodes all the elements of an array with the single constructor of that array. The result
    /// is a canonical text of the value, independent of the width variant chosen by the encoder.
    mod c05_strict {
        fn take<'a>(b: &mut &'a [u8], n: usize) -> Result<&'a [u8], String> {
            if b.len() < n {
                return Err(format!("need {} bytes, {} left", n, b.len()));
            }
            let (h, t) = b.split_at(n);
            *b = t;
            Ok(h)
        }

        fn size(b: &mut &[u8], width: usize) -> Result<usize, String> {
            let x = take(b, width)?;
            Ok(x.iter().fold(0usize, |acc, d| (acc << 8) | *d as usize))
        }

        pub fn value(b: &mut &[u8]) -> Result<String, String> {
            let code = take(b, 1)?[0];
            body(code, b)
        }

        /// Decodes the bytes that follow the constructor `code`
        pub fn body(code: u8, b: &mut &[u8]) -> Result<String, String> {
            Ok(match code {
                0x40 => "null".to_string(),
                0x41 => "true".to_string(),
                0x42 => "false".to_string(),
                0x56 => format!("{}", take(b, 1)?[0] == 1),
                0x50 => format!("ubyte({})", take(b, 1)?[0]),
                0x43 => "uint(0)".to_string(),
                0x52 => format!("uint({})", take(b, 1)?[0]),
                0x70 => format!("uint({})", size(b, 4)?),
                0xa1 | 0xb1 => {
                    let n = size(b, if code == 0xa1 { 1 } else { 4 })?;
                    format!("str({})", String::from_utf8_lossy(take(b, n)?))
                }
                0x45 => "list[]".to_string(),
                0xc0 | 0xd0 | 0xc1 | 0xd1 => {
                    let width = if code & 0xf0 == 0xc0 { 1 } else { 4 };
                    let sz = size(b, width)?;
                    let mut inner = take(b, sz).map_err(|e| format!("size {}: {}", sz, e))?;
                    let count = size(&mut inner, width)?;
                    let mut items = Vec::new();
                    for _ in 0..count {
                        items.push(value(&mut inner)?);
                    }
                    if !inner.is_empty() {
                        return Err(format!("{} bytes inside the size are not used", inner.len()));
                    }
                    let name = if code & 1 == 1 { "map" } else { "list" };
                    format!("{}[{}]", name, items.join(","))
                }
                0xe0 | 0xf0 => {
                    let width = if code == 0xe0 { 1 } else { 4 };
                    let sz = size(b, width)?;
                    let mut inner = take(b, sz).map_err(|e| format!("size {}: {}", sz, e))?;
                    let count = size(&mut inner, width)?;
                    let constructor = take(&mut inner, 1).map_err(|e| format!("constructor: {}", e))?[0];
                    let mut items = Vec::new();
                    for i in 0..count {
                        items.push(
                            body(constructor, &mut inner)
                                .map_err(|e| format!("array element {}: {}", i, e))?,
                        );
                    }
                    if !inner.is_empty() {
                        return Err(format!("{} bytes inside the size are not used", inner.len()));
                    }
                    format!("array[{}]", items.join(","))
                }
                other => return Err(format!("unexpected constructor {:#04x}", other)),
            })
        }

        pub fn decode(bytes: &[u8]) -> Result<String, String> {
            let mut b = bytes;
            let text = value(&mut b)?;
            if !b.is_empty() {
                return Err(format!("{} trailing bytes after {}", b.len(), text));
            }
            Ok(text)
        }
    }

    fn c05_assert_encodes_to<T: Serialize>(value: &T, expected: &str) {
        let buf = to_vec(value).unwrap();
        match c05_strict::decode(&buf) {
            Ok(text) => assert!(
                text == expected,
                "decodes to {:.100}.. instead of {:.100}..; bytes: {:02x?}",
                text,
                expected,
                &buf[..buf.len().min(32)]
            ),
            Err(e) => panic!(
                "not a well-formed encoding ({}); expected {:.100}..; first bytes: {:02x?}",
                e,
                expected,
                &buf[..buf.len().min(32)]
            ),
        }
    }

    #[test]
    fn c05_array_of_compound_control() {
        // all elements in the same width variant: fine
        c05_assert_encodes_to(
            &Array(vec![vec![1u8], vec![2u8]]),
            "array[list[ubyte(1)],list[ubyte(2)]]",
        );
    }

    #[test]
    fn c05_array_of_compound_list_then_empty_list() {
        // e0 07 02 c0 | 03 01 50 01 | 45 : the second element is the format code list0 instead
        // of a list8 body (size, count)
        c05_assert_encodes_to(
            &Array(vec![vec![1u8], vec![]]),
            "array[list[ubyte(1)],list[]]",
        );
    }

    #[test]
    fn c05_array_of_compound_empty_list_then_list() {
        // e0 06 02 45 | 03 01 50 01 : constructor list0 (no body at all), followed by a list8 body
        c05_assert_encodes_to(
            &Array(vec![vec![], vec![1u8]]),
            "array[list[],list[ubyte(1)]]",
        );
    }

    #[test]
    fn c05_array_of_compound_short_list_then_long_list() {
        // constructor list8, second element is a list32 body
        let long = vec![2u8; 200];
        let expected = format!("array[list[ubyte(1)],list[{}]]", vec!["ubyte(2)"; 200].join(","));
        c05_assert_encodes_to(&Array(vec![vec![1u8], long]), &expected);
    }

    #[test]
    fn c05_array_of_compound_short_map_then_long_map() {
        use std::collections::BTreeMap;
        let short: BTreeMap<u32, u32> = (1..2).map(|k| (k, 2)).collect();
        let long: BTreeMap<u32, u32> = (1..200).map(|k| (k, 2)).collect();
        let text = |m: &BTreeMap<u32, u32>| {
            let items: Vec<String> = m.iter().map(|(k, v)| format!("uint({}),uint({})", k, v)).collect();
            format!("map[{}]", items.join(","))
        };
        let expected = format!("array[{},{}]", text(&short), text(&long));
        c05_assert_encodes_to(&Array(vec![short, long]), &expected);
    }

    #[test]
    fn c05_array_of_compound_short_array_then_long_array() {
        let expected = format!("array[array[ubyte(1)],array[{}]]", vec!["ubyte(2)"; 300].join(","));
        c05_assert_encodes_to(&Array(vec![Array(vec![1u8]), Array(vec![2u8; 300])]), &expected);
    }

    #[test]
    fn c05_array_of_compound_as_value() {
        use crate::Value;
        // the same through `Value`, the type application data is usually carried in
        let v = Value::Array(Array(vec![
            Value::List(vec![Value::Ubyte(1)]),
            Value::List(vec![]),
        ]));
        c05_assert_encodes_to(&v, "array[list[ubyte(1)],list[]]");
    }
