// append-to: serde_amqp/src/ser.rs (inside `mod test`)
// run: c05_described_wrapper_around_struct --features derive
    // C05 / finding 7: `Described<T>` ("descriptor plus value") does not write a value when T is a
    // struct or a tuple struct: the fields of T are written one after the other without the list
    // header, and a stray `list0` (0x45) is appended. The result is the described value
    // (descriptor, first field) followed by garbage.

    #[derive(Debug, Serialize)]
    struct C05Pair {
        a: u32,
        b: String,
    }

    #[derive(Debug, Serialize)]
    struct C05Tuple(u32, u32);

    #[test]
    fn c05_described_wrapper_around_struct() {
        use crate::described::Described;

        let value = C05Pair {
            a: 1,
            b: "x".to_string(),
        };
        // the value on its own is the list [1, "x"]
        let plain = to_vec(&value).unwrap();
        assert_eq!(plain, vec![0xc0, 0x06, 0x02, 0x52, 0x01, 0xa1, 0x01, b'x']);

        // a described value is 0x00, the descriptor, the value
        let mut expected = vec![0x00, 0x53, 0x05];
        expected.extend_from_slice(&plain);

        let described = Described {
            descriptor: Descriptor::Code(5),
            value,
        };
        assert_eq!(to_vec(&described).unwrap(), expected);
    }

    #[test]
    fn c05_described_wrapper_around_tuple_struct() {
        use crate::described::Described;

        let plain = to_vec(&C05Tuple(1, 2)).unwrap();
        assert_eq!(plain, vec![0xc0, 0x05, 0x02, 0x52, 0x01, 0x52, 0x02]);

        let mut expected = vec![0x00, 0x53, 0x05];
        expected.extend_from_slice(&plain);

        let described = Described {
            descriptor: Descriptor::Code(5),
            value: C05Tuple(1, 2),
        };
        assert_eq!(to_vec(&described).unwrap(), expected);
    }
