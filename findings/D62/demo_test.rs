// append-to: new module at end of fe2o3-amqp/src/session/mod.rs
// run: hunt_c02_f4
//
// Finding 4: with rcv-settle-mode=second the sending session never forgets a delivery. The
// unsettled branch of `Session::on_incoming_disposition` looks `delivery_tag_by_id` up with
// `get` and sends the settling echo, but the entry (delivery-id -> (link handle, tag)) stays
// (it is only removed by a SETTLED disposition of the receiver, which a receiver that settles
// second does not send). Entries also survive the detach of their link. Because the entry is
// resolved later by (handle, delivery-tag) and both are reused (the peer reuses the freed
// handle, every new sender link starts its tags at 00000000), a late/duplicated disposition
// for the old delivery resolves the send of ANOTHER delivery.
#[cfg(test)]
mod hunt_c02_f4 {
    #![allow(dead_code, unused_imports)]
    // ---------------------------------------------------------------------------------------
    // A scripted AMQP peer speaking the wire protocol over `tokio::io::duplex`, and a real
    // fe2o3-amqp client connection/session on the other end.
    // ---------------------------------------------------------------------------------------
    use std::time::Duration;

    use fe2o3_amqp_types::{
        definitions::{Handle, ReceiverSettleMode, Role, SenderSettleMode},
        messaging::{Accepted, DeliveryState, Released},
        performatives::{Attach, Begin, Detach, Disposition, Flow, Open, Transfer},
    };
    use futures_util::{SinkExt, StreamExt};
    use tokio::io::{AsyncReadExt, AsyncWriteExt, DuplexStream};

    use crate::{
        connection::{Connection, ConnectionHandle},
        frames::amqp::{Frame, FrameBody},
        session::{Session, SessionHandle},
        transport::Transport,
    };

    const STEP: Duration = Duration::from_secs(5);

    struct Peer {
        t: Transport<DuplexStream, Frame>,
    }

    impl Peer {
        /// Protocol header + open
        async fn accept(mut io: DuplexStream) -> Self {
            let mut hdr = [0u8; 8];
            io.read_exact(&mut hdr).await.unwrap();
            assert_eq!(&hdr, b"AMQP\x00\x01\x00\x00");
            io.write_all(&hdr).await.unwrap();
            let t = Transport::<DuplexStream, Frame>::bind(io, 64 * 1024, None);
            let mut peer = Peer { t };
            match peer.recv().await {
                FrameBody::Open(_) => {}
                other => panic!("expected open, got {:?}", other),
            }
            peer.send(FrameBody::Open(Open {
                container_id: "scripted-peer".into(),
                hostname: None,
                max_frame_size: (64 * 1024u32).into(),
                channel_max: 16u16.into(),
                idle_time_out: None,
                outgoing_locales: None,
                incoming_locales: None,
                offered_capabilities: None,
                desired_capabilities: None,
                properties: None,
            }))
            .await;
            peer
        }

        async fn send(&mut self, body: FrameBody) {
            self.t.send(Frame::new(0u16, body)).await.unwrap();
        }

        /// Next non-empty frame
        async fn recv(&mut self) -> FrameBody {
            loop {
                let frame = tokio::time::timeout(STEP, self.t.next())
                    .await
                    .expect("peer: timed out waiting for a frame")
                    .expect("peer: stream ended")
                    .expect("peer: transport error");
                match frame.into_body() {
                    FrameBody::Empty => continue,
                    body => return body,
                }
            }
        }

        /// Answer the client's begin. `next_outgoing_id` is the first delivery-id the PEER
        /// would use for its own transfers
        async fn begin(&mut self, next_outgoing_id: u32) -> Begin {
            let begin = match self.recv().await {
                FrameBody::Begin(b) => b,
                other => panic!("expected begin, got {:?}", other),
            };
            self.send(FrameBody::Begin(Begin {
                remote_channel: Some(0),
                next_outgoing_id,
                incoming_window: 100_000,
                outgoing_window: 100_000,
                handle_max: Default::default(),
                offered_capabilities: None,
                desired_capabilities: None,
                properties: None,
            }))
            .await;
            begin
        }

        /// Answer the attach of a client SENDER link: the peer is the receiving end
        async fn attach_as_receiver(
            &mut self,
            handle: u32,
            rcv_settle_mode: ReceiverSettleMode,
            max_message_size: Option<u64>,
        ) -> Attach {
            let attach = match self.recv().await {
                FrameBody::Attach(a) => a,
                other => panic!("expected attach, got {:?}", other),
            };
            assert_eq!(attach.role, Role::Sender);
            self.send(FrameBody::Attach(Attach {
                name: attach.name.clone(),
                handle: Handle(handle),
                role: Role::Receiver,
                snd_settle_mode: attach.snd_settle_mode.clone(),
                rcv_settle_mode,
                source: attach.source.clone(),
                target: attach.target.clone(),
                unsettled: None,
                incomplete_unsettled: false,
                initial_delivery_count: None,
                max_message_size,
                offered_capabilities: None,
                desired_capabilities: None,
                properties: None,
            }))
            .await;
            attach
        }

        /// Grant link credit to the client's sender. `next_incoming_id` is the transfer-id the
        /// peer expects next from the client
        async fn grant_credit(&mut self, handle: u32, next_incoming_id: u32, credit: u32) {
            self.send(FrameBody::Flow(Flow {
                next_incoming_id: Some(next_incoming_id),
                incoming_window: 100_000,
                next_outgoing_id: 0,
                outgoing_window: 100_000,
                handle: Some(Handle(handle)),
                delivery_count: Some(0),
                link_credit: Some(credit),
                available: None,
                drain: false,
                echo: false,
                properties: None,
            }))
            .await;
        }

        async fn recv_transfer(&mut self) -> Transfer {
            match self.recv().await {
                FrameBody::Transfer { performative, .. } => performative,
                other => panic!("expected transfer, got {:?}", other),
            }
        }

        async fn dispose(
            &mut self,
            first: u32,
            last: Option<u32>,
            settled: bool,
            state: DeliveryState,
        ) {
            self.send(FrameBody::Disposition(Disposition {
                role: Role::Receiver,
                first,
                last,
                settled,
                state: Some(state),
                batchable: false,
            }))
            .await;
        }

        /// Answer the attach of a client RECEIVER link: the peer is the sending end
        async fn attach_as_sender(&mut self, handle: u32, snd_settle_mode: SenderSettleMode) -> Attach {
            let attach = match self.recv().await {
                FrameBody::Attach(a) => a,
                other => panic!("expected attach, got {:?}", other),
            };
            assert_eq!(attach.role, Role::Receiver);
            self.send(FrameBody::Attach(Attach {
                name: attach.name.clone(),
                handle: Handle(handle),
                role: Role::Sender,
                snd_settle_mode,
                rcv_settle_mode: attach.rcv_settle_mode.clone(),
                source: attach.source.clone(),
                target: attach.target.clone(),
                unsettled: None,
                incomplete_unsettled: false,
                initial_delivery_count: Some(0),
                max_message_size: None,
                offered_capabilities: None,
                desired_capabilities: None,
                properties: None,
            }))
            .await;
            attach
        }

        async fn recv_flow(&mut self) -> Flow {
            match self.recv().await {
                FrameBody::Flow(f) => f,
                other => panic!("expected flow, got {:?}", other),
            }
        }

        async fn recv_disposition(&mut self) -> Disposition {
            match self.recv().await {
                FrameBody::Disposition(d) => d,
                other => panic!("expected disposition, got {:?}", other),
            }
        }

        /// One transfer frame of a delivery sent by the peer
        #[allow(clippy::too_many_arguments)]
        async fn transfer(
            &mut self,
            handle: u32,
            delivery_id: Option<u32>,
            delivery_tag: Option<&[u8]>,
            settled: Option<bool>,
            more: bool,
            aborted: bool,
            payload: &[u8],
        ) {
            self.send(FrameBody::Transfer {
                performative: Transfer {
                    handle: Handle(handle),
                    delivery_id,
                    delivery_tag: delivery_tag.map(|t| t.to_vec().into()),
                    message_format: Some(0),
                    settled,
                    more,
                    rcv_settle_mode: None,
                    state: None,
                    resume: false,
                    aborted,
                    batchable: false,
                },
                payload: bytes::Bytes::copy_from_slice(payload),
            })
            .await;
        }
    }

    /// amqp-value section holding the string "x"
    const MSG_X: &[u8] = &[0x00, 0x53, 0x77, 0xa1, 0x01, b'x'];

    async fn client(io: DuplexStream) -> ConnectionHandle<()> {
        Connection::builder()
            .container_id("client")
            .open_with_stream(io)
            .await
            .expect("client open")
    }

    use std::sync::{Arc, OnceLock};

    use fe2o3_amqp_types::{definitions::DeliveryTag, messaging::Outcome, states::SessionState};
    use tokio::sync::{mpsc, oneshot, Notify};

    use crate::{
        endpoint::{InputHandle, OutgoingChannel, OutputHandle, Session as _},
        link::{
            delivery::UnsettledMessage,
            role::SenderMarker,
            state::{LinkFlowState, LinkFlowStateInner},
            LinkRelay, Sender,
        },
        util::Producer,
    };

    /// White box: one delivery, one normal rcv-settle-mode=second exchange
    /// (transfer / disposition(accepted, unsettled) / echo disposition(settled)).
    #[test]
    fn hunt_c02_f4a_session_keeps_delivery_after_settling_echo() {
        let mut session = super::Builder::new().into_session(
            OutgoingChannel(0),
            SessionState::Mapped,
            Arc::new(OnceLock::new()),
        );
        session.remote_incoming_window = 100;

        // a sender link relay with rcv-settle-mode=second, attached as input handle 0
        let (tx, _rx) = mpsc::channel(8);
        let flow_state = Arc::new(LinkFlowState::<SenderMarker>::sender(LinkFlowStateInner {
            initial_delivery_count: 0,
            delivery_count: 0,
            link_credit: 0,
            available: 0,
            drain: false,
            properties: None,
        }));
        let unsettled = Arc::new(parking_lot::RwLock::new(None));
        let relay = LinkRelay::Sender {
            tx,
            output_handle: OutputHandle(0),
            flow_state: Producer::new(Arc::new(Notify::new()), flow_state),
            unsettled: unsettled.clone(),
            receiver_settle_mode: ReceiverSettleMode::Second,
        };
        session.link_by_input_handle.insert(InputHandle(0), relay);

        // the link sends an unsettled transfer, the link endpoint records it
        let tag = DeliveryTag::from(vec![0u8, 0, 0, 0]);
        let transfer = Transfer {
            handle: Handle(0),
            delivery_id: None,
            delivery_tag: Some(tag.clone()),
            message_format: Some(0),
            settled: Some(false),
            more: false,
            rcv_settle_mode: None,
            state: None,
            resume: false,
            aborted: false,
            batchable: false,
        };
        session
            .on_outgoing_transfer(InputHandle(0), transfer, bytes::Bytes::from_static(MSG_X))
            .unwrap()
            .expect("frame is written");
        let (otx, mut orx) = oneshot::channel();
        unsettled
            .write()
            .get_or_insert_with(fe2o3_amqp_types::primitives::OrderedMap::new)
            .insert(
                tag.clone(),
                UnsettledMessage::new(bytes::Bytes::from_static(MSG_X), None, 0, otx),
            );

        // the receiver reports its terminal outcome, unsettled
        let echo = session
            .on_incoming_disposition(Disposition {
                role: Role::Receiver,
                first: 0,
                last: None,
                settled: false,
                state: Some(DeliveryState::Accepted(Accepted {})),
                batchable: false,
            })
            .unwrap()
            .expect("echo");
        assert_eq!(echo.len(), 1);
        assert!(echo[0].settled && echo[0].first == 0);
        assert!(matches!(
            orx.try_recv(),
            Ok(Some(DeliveryState::Accepted(_)))
        ));
        assert!(unsettled.read().as_ref().unwrap().is_empty());

        // both sides have settled: nothing of delivery 0 may be left
        assert!(
            session.delivery_tag_by_id.is_empty(),
            "session still routes the settled delivery: {:?}",
            session.delivery_tag_by_id
        );
    }

    /// Black box consequence. Link A: delivery 0 is accepted and settled (second). Link A is
    /// closed, link B is attached; the peer reuses handle 0, B's first tag is again 00000000.
    /// B sends delivery 1. The peer confirms (settled=true, accepted) delivery 0 once more and
    /// then RELEASES delivery 1. The send of delivery 1 must complete as released.
    #[tokio::test]
    async fn hunt_c02_f4b_late_disposition_of_old_delivery_resolves_another_send() {
        let (cio, pio) = tokio::io::duplex(64 * 1024);
        let peer_task = tokio::spawn(async move {
            let mut peer = Peer::accept(pio).await;
            peer.begin(0).await;

            // link A
            let a = peer
                .attach_as_receiver(0, ReceiverSettleMode::Second, None)
                .await;
            assert_eq!(a.name, "A");
            peer.grant_credit(0, 0, 10).await;
            let t0 = peer.recv_transfer().await;
            assert_eq!(t0.delivery_id, Some(0));
            peer.dispose(0, None, false, DeliveryState::Accepted(Accepted {}))
                .await;
            let echo = peer.recv_disposition().await;
            assert!(echo.settled && echo.first == 0 && echo.role == Role::Sender);
            match peer.recv().await {
                FrameBody::Detach(d) => assert!(d.closed),
                other => panic!("expected detach, got {:?}", other),
            }
            peer.send(FrameBody::Detach(Detach {
                handle: Handle(0),
                closed: true,
                error: None,
            }))
            .await;

            // link B, the freed handle 0 is used again
            let b = peer
                .attach_as_receiver(0, ReceiverSettleMode::Second, None)
                .await;
            assert_eq!(b.name, "B");
            peer.grant_credit(0, 1, 10).await;
            let t1 = peer.recv_transfer().await;
            assert_eq!(t1.delivery_id, Some(1));
            assert_eq!(t1.delivery_tag, t0.delivery_tag, "tags start over on a new link");

            // once more the (final) state of the old delivery 0 ...
            peer.dispose(0, None, true, DeliveryState::Accepted(Accepted {}))
                .await;
            // ... and the outcome of delivery 1
            peer.dispose(1, None, false, DeliveryState::Released(Released {}))
                .await;
            let echo = peer.recv_disposition().await;
            assert!(echo.settled && echo.first == 1);
            peer
        });

        let mut conn = client(cio).await;
        let mut session = Session::begin(&mut conn).await.unwrap();
        let mut a = Sender::attach(&mut session, "A", "q").await.unwrap();
        let o0 = tokio::time::timeout(STEP, a.send("m0")).await.unwrap();
        assert!(matches!(o0, Ok(Outcome::Accepted(_))), "{:?}", o0);
        tokio::time::timeout(STEP, a.close()).await.unwrap().unwrap();

        let mut b = Sender::attach(&mut session, "B", "q").await.unwrap();
        let o1 = tokio::time::timeout(STEP, b.send("m1")).await.unwrap();
        let _peer = peer_task.await.unwrap();
        assert!(
            matches!(o1, Ok(Outcome::Released(_))),
            "the peer released delivery 1, but send() returned {:?}",
            o1
        );
    }
}
