    mod d10_demo {
        // D10 demonstration (C15/C17): the peer answers our Open with some other frame first and only then
        // sends its Open, advertising idle-time-out = 0 ("no time-out"). The late Open is processed by
        // ConnectionEngine::on_incoming, whose Open arm builds HeartBeat::new(Duration::ZERO);
        // tokio::time::interval panics on a zero period, so `open()` panics instead of returning an error.
        use fe2o3_amqp_types::performatives::{Begin, Close, Open};
        use futures_util::{SinkExt, StreamExt};
        use tokio::io::{AsyncReadExt, AsyncWriteExt, DuplexStream};

        use crate::connection::Connection;
        use crate::frames::amqp::{Frame, FrameBody};
        use crate::transport::Transport;

        async fn peer(mut io: DuplexStream) {
            let mut hdr = [0u8; 8];
            io.read_exact(&mut hdr).await.unwrap();
            io.write_all(&hdr).await.unwrap();
            let mut transport = Transport::<_, Frame>::bind(io, 65536, None);
            let first = transport.next().await.unwrap().unwrap();
            assert!(matches!(first.body, FrameBody::Open(_)));
            // out of turn: a Begin before our Open
            let begin = Begin {
                remote_channel: None, next_outgoing_id: 0, incoming_window: 1, outgoing_window: 1,
                handle_max: Default::default(), offered_capabilities: None, desired_capabilities: None, properties: None,
            };
            transport.send(Frame::new(0u16, FrameBody::Begin(begin))).await.unwrap();
            let open = Open {
                container_id: "peer".to_string(), hostname: None, max_frame_size: Default::default(),
                channel_max: Default::default(), idle_time_out: Some(0), outgoing_locales: None, incoming_locales: None,
                offered_capabilities: None, desired_capabilities: None, properties: None,
            };
            transport.send(Frame::new(0u16, FrameBody::Open(open))).await.unwrap();
            transport.send(Frame::new(0u16, FrameBody::Close(Close { error: None }))).await.unwrap();
            // drain whatever the endpoint still sends
            while let Some(Ok(_)) = transport.next().await {}
        }

        #[tokio::test(flavor = "current_thread")]
        async fn d10_late_open_with_zero_idle_timeout_does_not_panic() {
            let (client_io, peer_io) = tokio::io::duplex(1 << 16);
            let p = tokio::spawn(peer(peer_io));
            let opening = tokio::spawn(async move {
                Connection::builder().container_id("d10").open_with_stream(client_io).await.map(|_| ())
            });
            let joined = tokio::time::timeout(std::time::Duration::from_secs(5), opening).await.expect("open must return");
            assert!(joined.is_ok(), "open() panicked: {:?}", joined.err());
            assert!(joined.unwrap().is_err(), "a Begin before the Open is a protocol error");
            p.abort();
        }
    }
