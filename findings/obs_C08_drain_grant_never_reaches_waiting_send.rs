// append-to: new module at end of fe2o3-amqp/src/link/sender.rs
// run: hunt_c08_waiting_send_and_drain
#[cfg(test)]
mod hunt_c08_waiting_send_and_drain {
    use std::time::Duration;

    use fe2o3_amqp_types::definitions::SenderSettleMode;

    use self::support::{link_flow, Peer};
    use crate::{connection::Connection, frames::amqp::FrameBody, session::Session, Sender};

    /// scripted receiver peer
    mod support {
        use std::time::Duration;

        use fe2o3_amqp_types::{
            definitions::{Handle, ReceiverSettleMode, Role, SenderSettleMode},
            messaging::{Source, Target},
            performatives::{Attach, Begin, Flow, Open},
        };
        use futures_util::{SinkExt, StreamExt};
        use tokio::io::{AsyncReadExt, AsyncWriteExt, DuplexStream};

        use crate::{
            frames::amqp::{Frame, FrameBody},
            transport::Transport,
        };

        pub(super) struct Peer {
            pub t: Transport<DuplexStream, Frame>,
        }

        impl Peer {
            /// header + open exchange
            pub async fn accept(mut io: DuplexStream) -> Self {
                let mut hdr = [0u8; 8];
                io.read_exact(&mut hdr).await.unwrap();
                assert_eq!(&hdr, b"AMQP\x00\x01\x00\x00");
                io.write_all(b"AMQP\x00\x01\x00\x00").await.unwrap();
                let mut t = Transport::<_, Frame>::bind(io, 65536, None);
                match t.next().await.unwrap().unwrap().body {
                    FrameBody::Open(_) => {}
                    other => panic!("expected open, got {:?}", other),
                }
                let open = Open {
                    container_id: "scripted-peer".into(),
                    hostname: None,
                    max_frame_size: 65536.into(),
                    channel_max: 10.into(),
                    idle_time_out: None,
                    outgoing_locales: None,
                    incoming_locales: None,
                    offered_capabilities: None,
                    desired_capabilities: None,
                    properties: None,
                };
                t.send(Frame::new(0u16, FrameBody::Open(open))).await.unwrap();
                Self { t }
            }

            pub async fn next(&mut self) -> FrameBody {
                loop {
                    let frame = tokio::time::timeout(Duration::from_secs(5), self.t.next())
                        .await
                        .expect("peer: no frame within 5s")
                        .expect("peer: stream ended")
                        .expect("peer: decode error");
                    if let FrameBody::Empty = frame.body {
                        continue;
                    }
                    return frame.body;
                }
            }

            /// next frame, or None if nothing arrives within `ms`
            pub async fn next_within(&mut self, ms: u64) -> Option<FrameBody> {
                match tokio::time::timeout(Duration::from_millis(ms), self.t.next()).await {
                    Ok(Some(Ok(frame))) => Some(frame.body),
                    Ok(other) => panic!("peer: {:?}", other.map(|r| r.map(|_| ()))),
                    Err(_) => None,
                }
            }

            pub async fn send(&mut self, body: FrameBody) {
                self.t.send(Frame::new(0u16, body)).await.unwrap();
            }

            /// answer the client's begin; the session incoming-window of the peer is `incoming_window`
            pub async fn begin(&mut self, incoming_window: u32) {
                match self.next().await {
                    FrameBody::Begin(_) => {}
                    other => panic!("expected begin, got {:?}", other),
                }
                let begin = Begin {
                    remote_channel: Some(0),
                    next_outgoing_id: 0,
                    incoming_window,
                    outgoing_window: 2048,
                    handle_max: Handle(7),
                    offered_capabilities: None,
                    desired_capabilities: None,
                    properties: None,
                };
                self.send(FrameBody::Begin(begin)).await;
            }

            /// answer the sender's attach as a receiver, returns the sender's attach
            pub async fn attach_receiver(&mut self) -> Attach {
                let remote = match self.next().await {
                    FrameBody::Attach(a) => a,
                    other => panic!("expected attach, got {:?}", other),
                };
                let attach = Attach {
                    name: remote.name.clone(),
                    handle: Handle(0),
                    role: Role::Receiver,
                    snd_settle_mode: SenderSettleMode::Settled,
                    rcv_settle_mode: ReceiverSettleMode::First,
                    source: Some(Box::new(Source::default())),
                    target: Some(Box::new(Target::builder().address("q").build().into())),
                    unsettled: None,
                    incomplete_unsettled: false,
                    initial_delivery_count: None,
                    max_message_size: None,
                    offered_capabilities: None,
                    desired_capabilities: None,
                    properties: None,
                };
                self.send(FrameBody::Attach(attach)).await;
                remote
            }
        }

        pub(super) fn link_flow(
            next_incoming_id: u32,
            incoming_window: u32,
            delivery_count: Option<u32>,
            link_credit: u32,
            drain: bool,
        ) -> FrameBody {
            FrameBody::Flow(Flow {
                next_incoming_id: Some(next_incoming_id),
                incoming_window,
                next_outgoing_id: 0,
                outgoing_window: 2048,
                handle: Some(Handle(0)),
                delivery_count,
                link_credit: Some(link_credit),
                available: None,
                drain,
                echo: false,
                properties: None,
            })
        }
    }

    /// History: attach, no credit. `send()` is called and waits for credit. Then the receiver
    /// grants five credits in drain mode: flow(dc=0, credit=5, drain=true).
    ///
    /// One credit is sufficient for the waiting send. (2.6.7: with drain set "the sender will
    /// (after sending all available messages) advance the delivery-count as much as possible")
    #[tokio::test]
    async fn hunt_c08_waiting_send_completes_when_credit_is_granted_with_drain() {
        let (client_io, peer_io) = tokio::io::duplex(1 << 16);
        let peer_task = tokio::spawn(Peer::accept(peer_io));
        let mut connection = Connection::builder()
            .container_id("client")
            .open_with_stream(client_io)
            .await
            .unwrap();
        let mut peer = peer_task.await.unwrap();

        let (session, _) = tokio::join!(Session::begin(&mut connection), peer.begin(2048));
        let mut session = session.unwrap();

        let (sender, _) = tokio::join!(
            Sender::builder()
                .name("hunt-c08-waiting")
                .target("q")
                .sender_settle_mode(SenderSettleMode::Settled)
                .attach(&mut session),
            peer.attach_receiver()
        );
        let mut sender = sender.unwrap();

        let (sent, seen) = tokio::join!(
            tokio::time::timeout(Duration::from_secs(2), sender.send("waiting")),
            async {
                // nothing may be sent without credit
                assert!(peer.next_within(200).await.is_none());
                // the grant, the send above has been waiting for 200ms
                peer.send(link_flow(0, 2048, Some(0), 5, true)).await;
                let mut seen = Vec::new();
                while let Some(body) = peer.next_within(500).await {
                    match body {
                        FrameBody::Flow(f) => seen.push(format!(
                            "flow(dc={:?}, credit={:?}, drain={})",
                            f.delivery_count, f.link_credit, f.drain
                        )),
                        FrameBody::Transfer { performative, .. } => {
                            seen.push(format!("transfer(tag={:?})", performative.delivery_tag))
                        }
                        other => panic!("unexpected {:?}", other),
                    }
                }
                seen
            }
        );

        assert!(
            sent.is_ok(),
            "send() was waiting for credit, the receiver granted flow(link-credit = 5, drain = \
             true), and 2s later send() is still waiting; frames seen by the receiver after its \
             grant: {:?}",
            seen
        );
        assert!(seen.iter().any(|s| s.starts_with("transfer")), "{:?}", seen);
    }
}
