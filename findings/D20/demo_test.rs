    // D20 demonstration (C05 "every spec-valid encoding is accepted"; KNOWN FINDING, cannot be repaired without editing the
    // pinned tests): deserialize_seq refuses an array whose count exceeds its size field. For zero-width element types
    // (null 0x40, true 0x41, false 0x42, uint0 0x43, ulong0 0x44, list0 0x45) that is a valid encoding: three nulls are
    // e0 02 03 40 (size = count octet + constructor octet = 2, count = 3). The repository's own tests
    // de::tests::array8_with_oversized_count_is_rejected / array32_count_exceeding_len_is_rejected pin the refusal
    // (a deliberate hardening against count-amplification; the 65536 cap MAX_ARRAY_COUNT already bounds the iteration).
    // Append inside `mod tests` of serde_amqp/src/de.rs; run: cargo test -p serde_amqp --features derive --lib d20_
    #[test]
    fn d20_array_of_three_nulls_is_accepted() {
        let buf: &[u8] = &[0xe0, 0x02, 0x03, 0x40];
        let v: Vec<()> = crate::from_slice(buf).expect("a spec-valid array of three nulls");
        assert_eq!(v.len(), 3);
    }
