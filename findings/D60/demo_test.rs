// append-to: new module at end of fe2o3-amqp/src/session/mod.rs
// run: hunt_c02_f2
//
// Finding 2: the sender registers the delivery in its unsettled map (the oneshot that
// resolves the send future) only AFTER the last transfer frame has been handed to the
// session (`SenderLink::send_payload_with_transfer`), while the session already routes
// dispositions for the delivery from the first frame on. A disposition that is processed in
// between finds no entry, is dropped, and the send never completes.
#[cfg(test)]
mod hunt_c02_f2 {
    #![allow(dead_code, unused_imports)]
    // ---------------------------------------------------------------------------------------
    // A scripted AMQP peer speaking the wire protocol over `tokio::io::duplex`, and a real
    // fe2o3-amqp client connection/session on the other end.
    // ---------------------------------------------------------------------------------------
    use std::time::Duration;

    use fe2o3_amqp_types::{
        definitions::{Handle, ReceiverSettleMode, Role, SenderSettleMode},
        messaging::{Accepted, DeliveryState, Released},
        performatives::{Attach, Begin, Detach, Disposition, Flow, Open, Transfer},
    };
    use futures_util::{SinkExt, StreamExt};
    use tokio::io::{AsyncReadExt, AsyncWriteExt, DuplexStream};

    use crate::{
        connection::{Connection, ConnectionHandle},
        frames::amqp::{Frame, FrameBody},
        session::{Session, SessionHandle},
        transport::Transport,
    };

    const STEP: Duration = Duration::from_secs(5);

    struct Peer {
        t: Transport<DuplexStream, Frame>,
    }

    impl Peer {
        /// Protocol header + open
        async fn accept(mut io: DuplexStream) -> Self {
            let mut hdr = [0u8; 8];
            io.read_exact(&mut hdr).await.unwrap();
            assert_eq!(&hdr, b"AMQP\x00\x01\x00\x00");
            io.write_all(&hdr).await.unwrap();
            let t = Transport::<DuplexStream, Frame>::bind(io, 64 * 1024, None);
            let mut peer = Peer { t };
            match peer.recv().await {
                FrameBody::Open(_) => {}
                other => panic!("expected open, got {:?}", other),
            }
            peer.send(FrameBody::Open(Open {
                container_id: "scripted-peer".into(),
                hostname: None,
                max_frame_size: (64 * 1024u32).into(),
                channel_max: 16u16.into(),
                idle_time_out: None,
                outgoing_locales: None,
                incoming_locales: None,
                offered_capabilities: None,
                desired_capabilities: None,
                properties: None,
            }))
            .await;
            peer
        }

        async fn send(&mut self, body: FrameBody) {
            self.t.send(Frame::new(0u16, body)).await.unwrap();
        }

        /// Next non-empty frame
        async fn recv(&mut self) -> FrameBody {
            loop {
                let frame = tokio::time::timeout(STEP, self.t.next())
                    .await
                    .expect("peer: timed out waiting for a frame")
                    .expect("peer: stream ended")
                    .expect("peer: transport error");
                match frame.into_body() {
                    FrameBody::Empty => continue,
                    body => return body,
                }
            }
        }

        /// Answer the client's begin. `next_outgoing_id` is the first delivery-id the PEER
        /// would use for its own transfers
        async fn begin(&mut self, next_outgoing_id: u32) -> Begin {
            let begin = match self.recv().await {
                FrameBody::Begin(b) => b,
                other => panic!("expected begin, got {:?}", other),
            };
            self.send(FrameBody::Begin(Begin {
                remote_channel: Some(0),
                next_outgoing_id,
                incoming_window: 100_000,
                outgoing_window: 100_000,
                handle_max: Default::default(),
                offered_capabilities: None,
                desired_capabilities: None,
                properties: None,
            }))
            .await;
            begin
        }

        /// Answer the attach of a client SENDER link: the peer is the receiving end
        async fn attach_as_receiver(
            &mut self,
            handle: u32,
            rcv_settle_mode: ReceiverSettleMode,
            max_message_size: Option<u64>,
        ) -> Attach {
            let attach = match self.recv().await {
                FrameBody::Attach(a) => a,
                other => panic!("expected attach, got {:?}", other),
            };
            assert_eq!(attach.role, Role::Sender);
            self.send(FrameBody::Attach(Attach {
                name: attach.name.clone(),
                handle: Handle(handle),
                role: Role::Receiver,
                snd_settle_mode: attach.snd_settle_mode.clone(),
                rcv_settle_mode,
                source: attach.source.clone(),
                target: attach.target.clone(),
                unsettled: None,
                incomplete_unsettled: false,
                initial_delivery_count: None,
                max_message_size,
                offered_capabilities: None,
                desired_capabilities: None,
                properties: None,
            }))
            .await;
            attach
        }

        /// Grant link credit to the client's sender. `next_incoming_id` is the transfer-id the
        /// peer expects next from the client
        async fn grant_credit(&mut self, handle: u32, next_incoming_id: u32, credit: u32) {
            self.send(FrameBody::Flow(Flow {
                next_incoming_id: Some(next_incoming_id),
                incoming_window: 100_000,
                next_outgoing_id: 0,
                outgoing_window: 100_000,
                handle: Some(Handle(handle)),
                delivery_count: Some(0),
                link_credit: Some(credit),
                available: None,
                drain: false,
                echo: false,
                properties: None,
            }))
            .await;
        }

        async fn recv_transfer(&mut self) -> Transfer {
            match self.recv().await {
                FrameBody::Transfer { performative, .. } => performative,
                other => panic!("expected transfer, got {:?}", other),
            }
        }

        async fn dispose(
            &mut self,
            first: u32,
            last: Option<u32>,
            settled: bool,
            state: DeliveryState,
        ) {
            self.send(FrameBody::Disposition(Disposition {
                role: Role::Receiver,
                first,
                last,
                settled,
                state: Some(state),
                batchable: false,
            }))
            .await;
        }

        /// Answer the attach of a client RECEIVER link: the peer is the sending end
        async fn attach_as_sender(&mut self, handle: u32, snd_settle_mode: SenderSettleMode) -> Attach {
            let attach = match self.recv().await {
                FrameBody::Attach(a) => a,
                other => panic!("expected attach, got {:?}", other),
            };
            assert_eq!(attach.role, Role::Receiver);
            self.send(FrameBody::Attach(Attach {
                name: attach.name.clone(),
                handle: Handle(handle),
                role: Role::Sender,
                snd_settle_mode,
                rcv_settle_mode: attach.rcv_settle_mode.clone(),
                source: attach.source.clone(),
                target: attach.target.clone(),
                unsettled: None,
                incomplete_unsettled: false,
                initial_delivery_count: Some(0),
                max_message_size: None,
                offered_capabilities: None,
                desired_capabilities: None,
                properties: None,
            }))
            .await;
            attach
        }

        async fn recv_flow(&mut self) -> Flow {
            match self.recv().await {
                FrameBody::Flow(f) => f,
                other => panic!("expected flow, got {:?}", other),
            }
        }

        async fn recv_disposition(&mut self) -> Disposition {
            match self.recv().await {
                FrameBody::Disposition(d) => d,
                other => panic!("expected disposition, got {:?}", other),
            }
        }

        /// One transfer frame of a delivery sent by the peer
        #[allow(clippy::too_many_arguments)]
        async fn transfer(
            &mut self,
            handle: u32,
            delivery_id: Option<u32>,
            delivery_tag: Option<&[u8]>,
            settled: Option<bool>,
            more: bool,
            aborted: bool,
            payload: &[u8],
        ) {
            self.send(FrameBody::Transfer {
                performative: Transfer {
                    handle: Handle(handle),
                    delivery_id,
                    delivery_tag: delivery_tag.map(|t| t.to_vec().into()),
                    message_format: Some(0),
                    settled,
                    more,
                    rcv_settle_mode: None,
                    state: None,
                    resume: false,
                    aborted,
                    batchable: false,
                },
                payload: bytes::Bytes::copy_from_slice(payload),
            })
            .await;
        }
    }

    /// amqp-value section holding the string "x"
    const MSG_X: &[u8] = &[0x00, 0x53, 0x77, 0xa1, 0x01, b'x'];

    async fn client(io: DuplexStream) -> ConnectionHandle<()> {
        Connection::builder()
            .container_id("client")
            .open_with_stream(io)
            .await
            .expect("client open")
    }

    use crate::link::Sender;
    use fe2o3_amqp_types::messaging::{Outcome, Rejected};

    /// The receiving peer limits max-message-size to 32, so this implementation splits the
    /// message into many transfer frames (more=true). The peer applies its outcome
    /// (rejected, settled) as soon as it sees the first frame of the delivery and then keeps
    /// reading the remaining frames.
    async fn scenario(session_buffer: Option<usize>, body_len: usize) {
        let (cio, pio) = tokio::io::duplex(64 * 1024);
        let peer_task = tokio::spawn(async move {
            let mut peer = Peer::accept(pio).await;
            peer.begin(0).await;
            peer.attach_as_receiver(0, ReceiverSettleMode::First, Some(32))
                .await;
            peer.grant_credit(0, 0, 10).await;

            let first = peer.recv_transfer().await;
            assert_eq!(first.delivery_id, Some(0));
            assert_eq!(first.settled, Some(false));
            assert!(first.more);
            peer.dispose(
                0,
                None,
                true,
                DeliveryState::Rejected(Rejected { error: None }),
            )
            .await;
            let mut frames = 1;
            loop {
                let t = peer.recv_transfer().await;
                frames += 1;
                if !t.more {
                    break;
                }
            }
            (peer, frames)
        });

        let mut conn = client(cio).await;
        let mut builder = Session::builder();
        if let Some(n) = session_buffer {
            builder = builder.buffer_size(n);
        }
        let mut session = builder.begin(&mut conn).await.unwrap();
        let mut sender = Sender::attach(&mut session, "s", "q").await.unwrap();
        let body = "x".repeat(body_len);
        let outcome = tokio::time::timeout(Duration::from_secs(3), sender.send(body)).await;
        let (_peer, frames) = peer_task.await.unwrap();
        assert!(frames > 100, "the delivery was sent in {} frames", frames);

        let outcome = outcome.expect(
            "send never completed although the peer rejected+settled exactly this delivery",
        );
        assert!(matches!(outcome, Ok(Outcome::Rejected(_))), "{:?}", outcome);
    }

    /// default configuration of the session, 16 KiB message
    #[tokio::test]
    async fn hunt_c02_f2_outcome_sent_before_last_frame_default_session() {
        scenario(None, 16 * 1024).await
    }

    /// link->session queue of one frame (sender task and session engine take turns frame by
    /// frame), 4 KiB message
    #[tokio::test]
    async fn hunt_c02_f2_outcome_sent_before_last_frame_small_queue() {
        scenario(Some(1), 4 * 1024).await
    }
}
