// append-to: fe2o3-amqp/tests/link_stop_reason.rs
// run: cargo test -p fe2o3-amqp --offline --features acceptor --test link_stop_reason pending_unsettled_send_fails_when_peer_closes_the_link
// on 56d2fb5 (before the fix 0bb1acf): panics with `send() hangs after the peer closed the link`; on 0bb1acf: passes, send returns Err(LinkStateError(IllegalState))

/// C14: the peer closes the LINK (detach closed=true) while an unsettled send waits for its outcome
#[tokio::test]
async fn pending_unsettled_send_fails_when_peer_closes_the_link() {
    let (mut server_connection, mut client_connection) = establish_connection_pair().await;
    let (mut client_session, mut listener_session) =
        establish_session_pair(&mut server_connection, &mut client_connection).await;
    let link_acceptor = LinkAcceptor::new();
    let (link_result, attach_result) = tokio::join!(
        link_acceptor.accept(&mut listener_session),
        Sender::builder()
            .name("pending-send-detach")
            .source(Source::builder().build())
            .target(Target::builder().build())
            .attach(&mut client_session),
    );
    let server_link = link_result.expect("link accept failed");
    let mut sender = attach_result.expect("sender attach failed");
    let server_receiver = match server_link {
        fe2o3_amqp::acceptor::LinkEndpoint::Receiver(r) => r,
        _ => panic!("expected receiver"),
    };
    let closer = tokio::spawn(async move {
        tokio::time::sleep(Duration::from_millis(300)).await;
        // the peer closes the link without ever settling the delivery; the closing handshake needs the client to answer
        let r = tokio::time::timeout(Duration::from_secs(4), server_receiver.close_with_error(test_error())).await;
        println!("server close: {:?}", r.is_ok());
    });
    let result = tokio::time::timeout(Duration::from_secs(5), sender.send("hello")).await;
    let _ = closer.await;
    match result {
        Err(_elapsed) => panic!("send() hangs after the peer closed the link"),
        Ok(r) => println!("send returned: {:?}", r),
    }
    drop((server_connection, listener_session, client_session, client_connection));
}
