// append-to: new module at end of fe2o3-amqp/src/transport/mod.rs
// run: c06_transfer_performative [run the two tests one at a time: `c06_transfer_performative_larger_than_frame_body` and `c06_transfer_performative_exactly_frame_body`; the second leaves a spinning, allocating thread behind until the test process exits]
//
// C06 finding 2: FrameEncoder::encode_transfer assumes that the transfer performative is smaller
// than the frame body (max-frame-size - 8). If it is larger, `max_frame_body_size - buf.len()`
// underflows (panic in debug, `split_to` out of bounds panic in release); if a continuation
// transfer's performative is exactly as large as the frame body, the "middle frames" loop never
// consumes payload and appends frames to the buffer forever. Every other performative that does
// not fit is refused with Error::FramingError.

#[cfg(test)]
mod hunt_c06_big_transfer {
    use std::{
        pin::Pin,
        sync::{Arc, Mutex},
        task::{Context, Poll},
        time::Duration,
    };

    use bytes::Bytes;
    use fe2o3_amqp_types::{
        definitions::{self, AmqpError, Handle},
        messaging::{DeliveryState, Rejected},
        performatives::Transfer,
    };
    use futures_util::SinkExt;
    use serde_bytes::ByteBuf;
    use tokio::io::{AsyncRead, AsyncWrite, ReadBuf};

    use super::{
        amqp::{Frame, FrameBody},
        Transport,
    };

    #[derive(Debug)]
    struct Sink(Arc<Mutex<Vec<u8>>>);
    impl AsyncWrite for Sink {
        fn poll_write(self: Pin<&mut Self>, _: &mut Context<'_>, buf: &[u8]) -> Poll<std::io::Result<usize>> {
            self.0.lock().unwrap().extend_from_slice(buf);
            Poll::Ready(Ok(buf.len()))
        }
        fn poll_flush(self: Pin<&mut Self>, _: &mut Context<'_>) -> Poll<std::io::Result<()>> {
            Poll::Ready(Ok(()))
        }
        fn poll_shutdown(self: Pin<&mut Self>, _: &mut Context<'_>) -> Poll<std::io::Result<()>> {
            Poll::Ready(Ok(()))
        }
    }
    impl AsyncRead for Sink {
        fn poll_read(self: Pin<&mut Self>, _: &mut Context<'_>, _: &mut ReadBuf<'_>) -> Poll<std::io::Result<()>> {
            Poll::Ready(Ok(()))
        }
    }

    /// independent check: `b` is a sequence of complete frames of at most `max` bytes
    fn check_frames(mut b: &[u8], max: usize) -> Result<usize, String> {
        let mut n = 0;
        while !b.is_empty() {
            if b.len() < 8 {
                return Err(format!("{} trailing bytes", b.len()));
            }
            let size = u32::from_be_bytes([b[0], b[1], b[2], b[3]]) as usize;
            if size < 8 || size > max || size > b.len() {
                return Err(format!("frame size {} (max {}, {} bytes left)", size, max, b.len()));
            }
            b = &b[size..];
            n += 1;
        }
        Ok(n)
    }

    /// A transfer that carries a delivery state with an error description of `descr` bytes, eg. a
    /// delivery that is resumed with the state the peer had rejected it with
    fn transfer(descr: usize) -> Transfer {
        Transfer {
            handle: Handle(0),
            delivery_id: Some(0),
            delivery_tag: Some(ByteBuf::from(vec![7u8; 4])),
            message_format: Some(0),
            settled: None,
            more: false,
            rcv_settle_mode: None,
            state: Some(DeliveryState::Rejected(Rejected {
                error: Some(definitions::Error::new(
                    AmqpError::InternalError,
                    Some("x".repeat(descr)),
                    None,
                )),
            })),
            resume: false,
            aborted: false,
            batchable: false,
        }
    }

    fn perf_size(t: &Transfer) -> usize {
        use serde::Serialize;
        let mut buf = bytes::BytesMut::new();
        let mut ser = serde_amqp::ser::Serializer::from(bytes::BufMut::writer(&mut buf));
        t.serialize(&mut ser).unwrap();
        buf.len()
    }

    /// Sends `t` with a 10 byte payload to a peer whose max-frame-size is 512 on a thread of its
    /// own. Ok: refused without writing anything, or written as well-formed frames
    fn send(t: Transfer) -> Result<String, String> {
        let (done_tx, done_rx) = std::sync::mpsc::channel();
        std::thread::spawn(move || {
            let rt = tokio::runtime::Builder::new_current_thread().build().unwrap();
            let res = std::panic::catch_unwind(std::panic::AssertUnwindSafe(|| {
                rt.block_on(async {
                    let written = Arc::new(Mutex::new(Vec::new()));
                    let mut transport = Transport::<_, Frame>::bind(Sink(written.clone()), 512, None);
                    transport.set_encoder_max_frame_size(512);
                    let frame = Frame::new(
                        0u16,
                        FrameBody::Transfer {
                            performative: t,
                            payload: Bytes::from(vec![1u8; 10]),
                        },
                    );
                    let r = transport.send(frame).await;
                    let bytes = written.lock().unwrap().clone();
                    match r {
                        Ok(()) => check_frames(&bytes, 512).map(|n| format!("sent as {} frames", n)),
                        Err(e) if bytes.is_empty() => Ok(format!("refused: {:?}", e)),
                        Err(e) => Err(format!("error {:?} after writing {} bytes", e, bytes.len())),
                    }
                })
            }));
            let _ = done_tx.send(match res {
                Ok(r) => r,
                Err(_) => Err("PANIC in Transport::start_send".to_string()),
            });
        });
        match done_rx.recv_timeout(Duration::from_millis(300)) {
            Ok(r) => r,
            Err(_) => Err("no answer after 300 ms: encode_transfer spins and allocates forever".to_string()),
        }
    }

    #[test]
    fn c06_transfer_performative_larger_than_frame_body() {
        let mut bad = Vec::new();
        for descr in [440usize, 600] {
            let t = transfer(descr);
            let size = perf_size(&t);
            assert!(size > 512 - 8);
            let outcome = send(t);
            println!("transfer performative of {} bytes: {:?}", size, outcome);
            if let Err(e) = outcome {
                bad.push((size, e));
            }
        }
        assert!(bad.is_empty(), "{:#?}", bad);
    }

    #[test]
    fn c06_transfer_performative_exactly_frame_body() {
        // A continuation transfer (as SenderLink::send_transfer_without_modifying_unsettled_map
        // produces them when the message is larger than the peer's max-message-size): the fields
        // that only the first transfer carries are unset
        let mut t = transfer(435);
        t.delivery_id = None;
        t.delivery_tag = None;
        t.message_format = None;
        t.more = true;
        let size = perf_size(&t);
        assert_eq!(size, 512 - 8);
        let outcome = send(t);
        println!("transfer performative of {} bytes: {:?}", size, outcome);
        assert!(outcome.is_ok(), "{:?}", outcome);
    }
}
