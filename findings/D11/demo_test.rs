    // D11 demonstration (C04): a 5-byte input declaring a 1 GiB string/binary must be refused without allocating
    // memory out of proportion to the input. The largest single allocation made while decoding is recorded by a
    // counting global allocator.
    mod d11_alloc {
        use std::alloc::{GlobalAlloc, Layout, System};
        use std::sync::atomic::{AtomicUsize, Ordering};
        pub static MAX: AtomicUsize = AtomicUsize::new(0);
        pub struct Counting;
        unsafe impl GlobalAlloc for Counting {
            unsafe fn alloc(&self, l: Layout) -> *mut u8 { MAX.fetch_max(l.size(), Ordering::SeqCst); System.alloc(l) }
            unsafe fn alloc_zeroed(&self, l: Layout) -> *mut u8 { MAX.fetch_max(l.size(), Ordering::SeqCst); System.alloc_zeroed(l) }
            unsafe fn realloc(&self, p: *mut u8, l: Layout, n: usize) -> *mut u8 { MAX.fetch_max(n, Ordering::SeqCst); System.realloc(p, l, n) }
            unsafe fn dealloc(&self, p: *mut u8, l: Layout) { System.dealloc(p, l) }
        }
        #[global_allocator]
        static A: Counting = Counting;
    }
    #[test]
    fn d11_declared_length_does_not_drive_allocation() {
        use std::sync::atomic::Ordering;
        const LIMIT: usize = 1 << 20; // 1 MiB for inputs of a few bytes
        // str32 / vbin32 with declared length 0x4000_0000 (1 GiB) and no content
        let str32: Vec<u8> = vec![0xb1, 0x40, 0x00, 0x00, 0x00];
        let vbin32: Vec<u8> = vec![0xb0, 0x40, 0x00, 0x00, 0x00];

        d11_alloc::MAX.store(0, Ordering::SeqCst);
        let r: Result<String, _> = crate::from_reader(&str32[..]);
        assert!(r.is_err());
        let m = d11_alloc::MAX.load(Ordering::SeqCst);
        assert!(m <= LIMIT, "from_reader::<String> on 5 bytes allocated {} bytes at once", m);

        d11_alloc::MAX.store(0, Ordering::SeqCst);
        let r: Result<crate::primitives::Binary, _> = crate::from_reader(&vbin32[..]);
        assert!(r.is_err());
        let m = d11_alloc::MAX.load(Ordering::SeqCst);
        assert!(m <= LIMIT, "from_reader::<Binary> on 5 bytes allocated {} bytes at once", m);

        d11_alloc::MAX.store(0, Ordering::SeqCst);
        let r: Result<crate::lazy::LazyValue, _> = crate::from_reader(&vbin32[..]);
        assert!(r.is_err());
        let m = d11_alloc::MAX.load(Ordering::SeqCst);
        assert!(m <= LIMIT, "from_reader::<LazyValue> on 5 bytes allocated {} bytes at once", m);

        d11_alloc::MAX.store(0, Ordering::SeqCst);
        let r: Result<crate::lazy::LazyValue, _> = crate::from_slice(&vbin32[..]);
        assert!(r.is_err());
        let m = d11_alloc::MAX.load(Ordering::SeqCst);
        assert!(m <= LIMIT, "from_slice::<LazyValue> on 5 bytes allocated {} bytes at once", m);
    }
