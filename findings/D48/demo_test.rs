// append-to: new module at end of fe2o3-amqp/src/connection/engine.rs
// run: c12_f6   (cargo test -p fe2o3-amqp --offline --lib c12_f6 ; no cargo features needed)

#[cfg(test)]
#[allow(dead_code, unused_imports)]
mod c12_finding_6 {
    //! Scripted-peer tests of the connection open/close state machine (property C12)
    use std::time::Duration;

    use fe2o3_amqp_types::definitions::{self, AmqpError};
    use fe2o3_amqp_types::performatives::{Begin, Close, Flow, Open};
    use futures_util::{SinkExt, StreamExt};
    use tokio::io::{AsyncReadExt, AsyncWriteExt, DuplexStream};

    use crate::connection::{Connection, ConnectionHandle, Error, OpenError, TryCloseError};
    use crate::frames::amqp::{Frame, FrameBody};
    use crate::session::Session;
    use crate::transport::Transport;

    const HEADER: &[u8; 8] = b"AMQP\x00\x01\x00\x00";

    struct Peer {
        t: Transport<DuplexStream, Frame>,
    }

    impl Peer {
        /// Reads the client's protocol header, answers with the same header
        async fn header_exchange(mut io: DuplexStream) -> Self {
            let mut buf = [0u8; 8];
            io.read_exact(&mut buf).await.unwrap();
            assert_eq!(&buf, HEADER, "the protocol header must come first");
            io.write_all(HEADER).await.unwrap();
            Peer {
                t: Transport::bind(io, 64 * 1024, None),
            }
        }

        /// Header exchange, then read the client's Open and answer with an Open
        async fn open(io: DuplexStream) -> Self {
            let mut peer = Self::header_exchange(io).await;
            let frame = peer.recv().await.expect("client Open");
            assert!(matches!(frame.body, FrameBody::Open(_)));
            peer.send(0, FrameBody::Open(peer_open())).await;
            peer
        }

        async fn send(&mut self, channel: u16, body: FrameBody) {
            self.t.send(Frame::new(channel, body)).await.unwrap();
        }

        async fn recv(&mut self) -> Option<Frame> {
            self.t.next().await.map(|r| r.unwrap())
        }
    }

    fn peer_open() -> Open {
        Open {
            container_id: "peer".to_string(),
            hostname: None,
            max_frame_size: Default::default(),
            channel_max: Default::default(),
            idle_time_out: None,
            outgoing_locales: None,
            incoming_locales: None,
            offered_capabilities: None,
            desired_capabilities: None,
            properties: None,
        }
    }

    fn peer_begin(remote_channel: Option<u16>) -> Begin {
        Begin {
            remote_channel,
            next_outgoing_id: 0,
            incoming_window: 2048,
            outgoing_window: 2048,
            handle_max: Default::default(),
            offered_capabilities: None,
            desired_capabilities: None,
            properties: None,
        }
    }

    fn session_flow() -> Flow {
        Flow {
            next_incoming_id: Some(0),
            incoming_window: 2048,
            next_outgoing_id: 0,
            outgoing_window: 2048,
            handle: None,
            delivery_count: None,
            link_credit: None,
            available: None,
            drain: false,
            echo: false,
            properties: None,
        }
    }

    fn peer_error() -> definitions::Error {
        definitions::Error::new(
            AmqpError::NotAllowed,
            Some("go away".to_string()),
            None,
        )
    }

    async fn client_open(io: DuplexStream) -> Result<ConnectionHandle<()>, OpenError> {
        Connection::builder()
            .container_id("client")
            .open_with_stream(io)
            .await
    }

    /// An Io that behaves like a TCP socket whose peer is already gone when the local side
    /// shuts its write half down: `shutdown` reports `ENOTCONN`
    #[derive(Debug)]
    struct ShutdownFails(DuplexStream);

    impl tokio::io::AsyncRead for ShutdownFails {
        fn poll_read(
            mut self: std::pin::Pin<&mut Self>,
            cx: &mut std::task::Context<'_>,
            buf: &mut tokio::io::ReadBuf<'_>,
        ) -> std::task::Poll<std::io::Result<()>> {
            std::pin::Pin::new(&mut self.0).poll_read(cx, buf)
        }
    }

    impl tokio::io::AsyncWrite for ShutdownFails {
        fn poll_write(
            mut self: std::pin::Pin<&mut Self>,
            cx: &mut std::task::Context<'_>,
            buf: &[u8],
        ) -> std::task::Poll<std::io::Result<usize>> {
            std::pin::Pin::new(&mut self.0).poll_write(cx, buf)
        }

        fn poll_flush(
            mut self: std::pin::Pin<&mut Self>,
            cx: &mut std::task::Context<'_>,
        ) -> std::task::Poll<std::io::Result<()>> {
            std::pin::Pin::new(&mut self.0).poll_flush(cx)
        }

        fn poll_shutdown(
            self: std::pin::Pin<&mut Self>,
            _cx: &mut std::task::Context<'_>,
        ) -> std::task::Poll<std::io::Result<()>> {
            std::task::Poll::Ready(Err(std::io::Error::from(
                std::io::ErrorKind::NotConnected,
            )))
        }
    }

    /// Finding 6: Close frames exchanged cleanly (local close, clean answer); the peer tears
    /// the socket down first so the final shutdown of the local write half fails.
    /// The close handshake itself was clean and must be reported as such.
    #[tokio::test]
    async fn c12_f6_clean_close_is_clean_even_if_socket_shutdown_fails() {
        let (client_io, peer_io) = tokio::io::duplex(64 * 1024);
        let peer = tokio::spawn(async move {
            let mut peer = Peer::open(peer_io).await;
            let frame = peer.recv().await.expect("client Close");
            match frame.body {
                FrameBody::Close(close) => assert!(close.error.is_none()),
                other => panic!("expecting Close, found {:?}", other),
            }
            peer.send(0, FrameBody::Close(Close { error: None })).await;
            drop(peer);
        });
        let mut connection = Connection::builder()
            .container_id("client")
            .open_with_stream(ShutdownFails(client_io))
            .await
            .unwrap();
        let result = tokio::time::timeout(Duration::from_secs(5), connection.close())
            .await
            .expect("close must not hang");
        peer.await.unwrap();
        assert!(
            result.is_ok(),
            "a clean close must be reported as clean, found {:?}",
            result
        );
    }
}
