// append-to: new module at end of fe2o3-amqp/src/connection/engine.rs
// run: c17_f2 --features acceptor   (cargo test -p fe2o3-amqp --offline --lib --features acceptor c17_f2)

#[cfg(test)]
#[allow(dead_code, unused_imports)]
mod hunt_c17_f2 {
    //! Scripted-peer tests for property C17 (channel-max and idle time-outs).
    use std::time::Duration;

    use fe2o3_amqp_types::performatives::{Begin, Close, Open};
    use futures_util::{SinkExt, StreamExt};
    use tokio::io::{AsyncReadExt, AsyncWriteExt, DuplexStream};
    use tokio::time::Instant;

    use crate::connection::Connection;
    use crate::frames::amqp::{Frame, FrameBody};
    use crate::transport::Transport;

    const HEADER: &[u8; 8] = b"AMQP\x00\x01\x00\x00";

    fn peer_open(idle_time_out: Option<u32>, channel_max: u16) -> Open {
        Open {
            container_id: "scripted-peer".to_string(),
            hostname: None,
            max_frame_size: 65536.into(),
            channel_max: channel_max.into(),
            idle_time_out,
            outgoing_locales: None,
            incoming_locales: None,
            offered_capabilities: None,
            desired_capabilities: None,
            properties: None,
        }
    }

    fn peer_begin(remote_channel: Option<u16>) -> Begin {
        Begin {
            remote_channel,
            next_outgoing_id: 0,
            incoming_window: 2048,
            outgoing_window: 2048,
            handle_max: Default::default(),
            offered_capabilities: None,
            desired_capabilities: None,
            properties: None,
        }
    }

    /// The scripted peer in the role of the listener: header exchange and open exchange.
    /// Returns the transport and the Open of the endpoint under test
    async fn peer_accept(
        mut io: DuplexStream,
        idle_time_out: Option<u32>,
        channel_max: u16,
    ) -> (Transport<DuplexStream, Frame>, Open) {
        let mut header = [0u8; 8];
        io.read_exact(&mut header).await.unwrap();
        assert_eq!(&header, HEADER);
        io.write_all(HEADER).await.unwrap();
        let mut transport = Transport::<DuplexStream, Frame>::bind(io, 65536, None);
        let open = match transport.next().await.unwrap().unwrap().body {
            FrameBody::Open(open) => open,
            other => panic!("expecting open, found {:?}", other),
        };
        transport
            .send(Frame::new(
                0u16,
                FrameBody::Open(peer_open(idle_time_out, channel_max)),
            ))
            .await
            .unwrap();
        (transport, open)
    }

    /// The scripted peer in the role of the client
    async fn peer_connect(
        mut io: DuplexStream,
        idle_time_out: Option<u32>,
        channel_max: u16,
    ) -> (Transport<DuplexStream, Frame>, Open) {
        io.write_all(HEADER).await.unwrap();
        let mut header = [0u8; 8];
        io.read_exact(&mut header).await.unwrap();
        assert_eq!(&header, HEADER);
        let mut transport = Transport::<DuplexStream, Frame>::bind(io, 65536, None);
        transport
            .send(Frame::new(
                0u16,
                FrameBody::Open(peer_open(idle_time_out, channel_max)),
            ))
            .await
            .unwrap();
        let open = match transport.next().await.unwrap().unwrap().body {
            FrameBody::Open(open) => open,
            other => panic!("expecting open, found {:?}", other),
        };
        (transport, open)
    }

    /// Reads frames until `end` and returns the time between two consecutive frames (the first
    /// one is measured from `start`) and the time between the last frame and `end`
    async fn record_gaps(
        transport: &mut Transport<DuplexStream, Frame>,
        start: Instant,
        end: Instant,
    ) -> Vec<Duration> {
        let mut last = start;
        let mut gaps = Vec::new();
        loop {
            match tokio::time::timeout_at(end, transport.next()).await {
                Ok(Some(Ok(_frame))) => {
                    let now = Instant::now();
                    gaps.push(now - last);
                    last = now;
                }
                Ok(other) => panic!("connection broke: {:?}", other),
                Err(_) => {
                    gaps.push(end - last);
                    break;
                }
            }
        }
        gaps
    }

    /// F2: the peer (a client) advertises idle-time-out = 1000 ms and pipelines three Begins.
    /// The listening application takes 5 s before it accepts the sessions. The connection is
    /// open all the time, so the peer has to see a frame at least every 1000 ms.
    #[cfg(feature = "acceptor")]
    #[tokio::test(start_paused = true)]
    async fn c17_f2_empty_frames_continue_while_a_begin_waits_for_the_application() {
        use crate::acceptor::{ConnectionAcceptor, SessionAcceptor};

        let (peer_io, server_io) = tokio::io::duplex(4096);
        let peer = tokio::spawn(async move {
            let (mut transport, _open) = peer_connect(peer_io, Some(1000), 255).await;
            let start = Instant::now();
            for channel in 0u16..3 {
                transport
                    .send(Frame::new(channel, FrameBody::Begin(peer_begin(None))))
                    .await
                    .unwrap();
            }
            let end = start + Duration::from_millis(4_900);
            let gaps = record_gaps(&mut transport, start, end).await;
            (transport, gaps)
        });

        let acceptor = ConnectionAcceptor::builder()
            .container_id("listener")
            .buffer_size(1)
            .build();
        let mut connection = acceptor.accept(server_io).await.unwrap();
        // the application is busy
        tokio::time::sleep(Duration::from_secs(5)).await;
        let session_acceptor = SessionAcceptor::new();
        let _s0 = session_acceptor.accept(&mut connection).await.unwrap();
        let _s1 = session_acceptor.accept(&mut connection).await.unwrap();
        let _s2 = session_acceptor.accept(&mut connection).await.unwrap();

        let (_transport, gaps) = peer.await.unwrap();
        println!("gaps between frames seen by the peer: {:?}", gaps);
        for gap in &gaps {
            assert!(
                *gap <= Duration::from_millis(1000),
                "more than the peer's idle-time-out (1000 ms) passed without a frame: gaps = {:?}",
                gaps
            );
        }
    }


    /// F2, client side: the peer advertises idle-time-out = 1000 ms. The application has a
    /// session and a receiver link with small buffers (buffer_size = 1) and ten credits, and
    /// is busy for 5 s before it calls recv(). The peer sends eight small pre-settled messages
    /// (within credit and session window). The connection stays open, so the peer has to see a
    /// frame at least every 1000 ms.
    #[tokio::test(start_paused = true)]
    async fn c17_f2_empty_frames_continue_while_the_application_does_not_recv() {
        slow_consumer(Some(1)).await
    }

    /// Control: the same history with the default buffer sizes (65535) passes
    #[tokio::test(start_paused = true)]
    async fn c17_f2_control_slow_consumer_with_default_buffers() {
        slow_consumer(None).await
    }

    async fn slow_consumer(buffer_size: Option<usize>) {
        use crate::link::receiver::CreditMode;
        use crate::session::Session;
        use crate::Receiver;
        use fe2o3_amqp_types::definitions::Role;
        use fe2o3_amqp_types::performatives::Transfer;

        let (client_io, peer_io) = tokio::io::duplex(65536);
        let peer = tokio::spawn(async move {
            let (mut transport, _open) = peer_accept(peer_io, Some(1000), 255).await;
            // begin
            loop {
                let frame = transport.next().await.unwrap().unwrap();
                if let FrameBody::Begin(_) = frame.body {
                    transport
                        .send(Frame::new(
                            0u16,
                            FrameBody::Begin(peer_begin(Some(frame.channel))),
                        ))
                        .await
                        .unwrap();
                    break;
                }
            }
            // attach
            loop {
                let frame = transport.next().await.unwrap().unwrap();
                if let FrameBody::Attach(mut attach) = frame.body {
                    attach.role = Role::Sender;
                    attach.initial_delivery_count = Some(0);
                    transport
                        .send(Frame::new(0u16, FrameBody::Attach(attach)))
                        .await
                        .unwrap();
                    break;
                }
            }
            // credit
            loop {
                let frame = transport.next().await.unwrap().unwrap();
                if let FrameBody::Flow(flow) = frame.body {
                    assert_eq!(flow.link_credit, Some(10));
                    break;
                }
            }
            let start = Instant::now();
            for i in 0u32..8 {
                let performative = Transfer {
                    handle: 0.into(),
                    delivery_id: Some(i),
                    delivery_tag: Some(serde_amqp::primitives::Binary::from(vec![i as u8])),
                    message_format: Some(0),
                    settled: Some(true),
                    more: false,
                    rcv_settle_mode: None,
                    state: None,
                    resume: false,
                    aborted: false,
                    batchable: false,
                };
                // amqp-value section holding the string "x"
                let payload = bytes::Bytes::from_static(&[0x00, 0x53, 0x77, 0xa1, 0x01, b'x']);
                transport
                    .send(Frame::new(
                        0u16,
                        FrameBody::Transfer {
                            performative,
                            payload,
                        },
                    ))
                    .await
                    .unwrap();
            }
            let end = start + Duration::from_millis(4_900);
            let gaps = record_gaps(&mut transport, start, end).await;
            (transport, gaps)
        });

        let mut connection = Connection::builder()
            .container_id("under-test")
            .open_with_stream(client_io)
            .await
            .unwrap();
        let mut session_builder = Session::builder();
        if let Some(buffer_size) = buffer_size {
            session_builder = session_builder.buffer_size(buffer_size);
        }
        let mut session = session_builder.begin(&mut connection).await.unwrap();
        let mut builder = Receiver::builder()
            .name("receiver")
            .source("q")
            .credit_mode(CreditMode::Auto(10));
        if let Some(buffer_size) = buffer_size {
            builder.buffer_size = buffer_size;
        }
        let mut receiver = builder.attach(&mut session).await.unwrap();
        // the application is busy
        tokio::time::sleep(Duration::from_secs(5)).await;

        let (_transport, gaps) = peer.await.unwrap();
        println!("gaps between frames seen by the peer: {:?}", gaps);
        for gap in &gaps {
            assert!(
                *gap <= Duration::from_millis(1000),
                "more than the peer's idle-time-out (1000 ms) passed without a frame: gaps = {:?}",
                gaps
            );
        }
        // the messages are all there
        for _ in 0..8 {
            let delivery = receiver.recv::<String>().await.unwrap();
            assert_eq!(delivery.body(), "x");
        }
    }
}
