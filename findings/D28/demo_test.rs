// append-to: new module at end of fe2o3-amqp/src/link/receiver.rs
// run: c10_finding_1
//
// C10 finding 1: a delivery whose body type is `LazyValue` (or `Body<LazyValue>`) is received
// when the peer sends it in ONE transfer frame, but the very same bytes sent in TWO (or more)
// transfer frames make `Receiver::recv` fail with a MessageDecode error ("invalid type: byte
// array, expected LazyValue"). The multi-frame path decodes through
// `IoReader<ByteReader<Payload>>`, whose `forward_read_byte_buf` calls `visit_bytes`, which the
// `LazyValue` visitor does not implement (the single-frame `SliceReader` calls `visit_byte_buf`).
#[cfg(test)]
mod c10_finding_1 {
    use super::*;
    use crate::endpoint::{InputHandle, OutputHandle};
    use crate::link::state::{LinkFlowState, LinkFlowStateInner, LinkState};
    use bytes::Bytes;
    use fe2o3_amqp_types::messaging::{
        message::__private::Serializable, AmqpValue, Batch, Body, Data, Message,
    };
    use fe2o3_amqp_types::primitives::{Binary, Value};
    use serde_amqp::to_vec;
    use std::marker::PhantomData;
    use std::time::Duration;

    /// A receiving link endpoint in the Attached state with `credit` link credit. Frames pushed
    /// into `in_tx` are exactly what the session's `LinkRelay` would forward to the link, and
    /// `inner.recv()` is exactly what `Receiver::recv` calls.
    struct Harness {
        inner: ReceiverInner<ReceiverLink<Target>>,
        in_tx: mpsc::Sender<LinkFrame>,
        _out_rx: mpsc::Receiver<LinkFrame>,
        _ctrl_rx: mpsc::Receiver<SessionControl>,
    }

    fn harness(credit: u32) -> Harness {
        let flow_state: ReceiverFlowState = Arc::new(LinkFlowState::receiver(LinkFlowStateInner {
            initial_delivery_count: 0,
            delivery_count: 0,
            link_credit: credit,
            available: 0,
            drain: false,
            properties: None,
        }));
        let link: ReceiverLink<Target> = crate::link::Link {
            role: PhantomData,
            local_state: LinkState::Attached,
            name: "l".into(),
            output_handle: Some(OutputHandle(0)),
            input_handle: Some(InputHandle(0)),
            snd_settle_mode: Default::default(),
            rcv_settle_mode: ReceiverSettleMode::First,
            source: None,
            target: None,
            max_message_size: 0,
            offered_capabilities: None,
            desired_capabilities: None,
            flow_state,
            unsettled: Arc::new(parking_lot::RwLock::new(None)),
            session_stop_reason: Arc::new(OnceLock::new()),
            verify_incoming_source: false,
            verify_incoming_target: false,
        };
        let (in_tx, in_rx) = mpsc::channel(1024);
        let (out_tx, out_rx) = mpsc::channel(1024);
        let (ctrl_tx, ctrl_rx) = mpsc::channel(1024);
        let inner = ReceiverInner {
            link,
            buffer_size: 1024,
            credit_mode: CreditMode::Manual,
            processed: Arc::new(AtomicU32::new(0)),
            auto_accept: false,
            session: ctrl_tx,
            outgoing: out_tx,
            incoming: in_rx,
            incomplete_transfer: None,
        };
        Harness {
            inner,
            in_tx,
            _out_rx: out_rx,
            _ctrl_rx: ctrl_rx,
        }
    }

    /// First (or only) transfer frame of a delivery
    fn first(id: u32, tag: &[u8], more: bool) -> Transfer {
        Transfer {
            handle: Handle(0),
            delivery_id: Some(id),
            delivery_tag: Some(DeliveryTag::from(tag.to_vec())),
            message_format: Some(0),
            settled: None,
            more,
            rcv_settle_mode: None,
            state: None,
            resume: false,
            aborted: false,
            batchable: false,
        }
    }

    /// Continuation transfer frame that omits delivery-id, delivery-tag and message-format
    fn cont(more: bool) -> Transfer {
        Transfer {
            handle: Handle(0),
            delivery_id: None,
            delivery_tag: None,
            message_format: None,
            settled: None,
            more,
            rcv_settle_mode: None,
            state: None,
            resume: false,
            aborted: false,
            batchable: false,
        }
    }

    async fn push(h: &Harness, performative: Transfer, payload: Bytes) {
        h.in_tx
            .send(LinkFrame::Transfer {
                input_handle: InputHandle(0),
                performative,
                payload,
            })
            .await
            .unwrap();
    }

    /// `Receiver::recv` with a deadline: `None` means "nothing was handed to the application"
    async fn recv_within<T>(h: &mut Harness) -> Option<Result<Delivery<T>, RecvError>>
    where
        for<'de> T: FromBody<'de> + Send,
    {
        tokio::time::timeout(Duration::from_millis(200), h.inner.recv::<T>())
            .await
            .ok()
    }

    fn string_message(s: &str) -> Bytes {
        Bytes::from(
            to_vec(&Serializable(Message::<Body<Value>>::from(Body::Value(
                AmqpValue(Value::String(s.to_string())),
            ))))
            .unwrap(),
        )
    }

    #[allow(dead_code)]
    fn data_message(sections: &[&[u8]]) -> Bytes {
        let batch = Batch::new(
            sections
                .iter()
                .map(|s| Data(Binary::from(s.to_vec())))
                .collect::<Vec<_>>(),
        );
        Bytes::from(to_vec(&Serializable(Message::<Body<Value>>::from(Body::Data(batch)))).unwrap())
    }

    use fe2o3_amqp_types::primitives::LazyValue;

    async fn lazy_roundtrip<T>(split_at: Option<usize>) -> Result<String, String>
    where
        for<'de> T: FromBody<'de> + Send + std::fmt::Debug,
    {
        let bytes = string_message("hello lazy world");
        let mut h = harness(10);
        match split_at {
            None => push(&h, first(0, b"t", false), bytes.clone()).await,
            Some(i) => {
                push(&h, first(0, b"t", true), bytes.slice(..i)).await;
                push(&h, cont(false), bytes.slice(i..)).await;
            }
        }
        match recv_within::<T>(&mut h).await {
            Some(Ok(d)) => Ok(format!("{:?}", d.message)),
            Some(Err(e)) => Err(format!("{e:?}")),
            None => Err("nothing received".into()),
        }
    }

    #[tokio::test]
    async fn c10_finding_1_lazy_value_body_two_frames() {
        // one frame: fine
        let single = lazy_roundtrip::<LazyValue>(None)
            .await
            .expect("single-frame delivery of a LazyValue body must be received");
        // the same bytes in two frames, for every split offset
        let n = string_message("hello lazy world").len();
        for i in 0..=n {
            let multi = lazy_roundtrip::<LazyValue>(Some(i)).await;
            assert_eq!(
                multi.as_ref(),
                Ok(&single),
                "split at offset {i}: the application must receive the same message as for the unfragmented delivery"
            );
        }
    }

    #[tokio::test]
    async fn c10_finding_1_body_of_lazy_value_two_frames() {
        let single = lazy_roundtrip::<Body<LazyValue>>(None)
            .await
            .expect("single-frame delivery of a Body<LazyValue> must be received");
        let n = string_message("hello lazy world").len();
        let multi = lazy_roundtrip::<Body<LazyValue>>(Some(n / 2)).await;
        assert_eq!(multi.as_ref(), Ok(&single));
    }
}
