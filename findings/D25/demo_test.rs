// append-to: fe2o3-amqp/src/link/mod.rs
// run: c16_send
//
// Self-contained test module: append this text verbatim at the END of
// fe2o3-amqp/src/link/mod.rs (it is its own `#[cfg(test)] mod`, it does not need to be pasted
// inside the existing `mod tests`). No cargo feature is needed.
//
//   cd /tmp/c16_send && CARGO_TARGET_DIR=/tmp/c16_send/target \
//       cargo test -p fe2o3-amqp --offline --lib c16_send -- --nocapture --test-threads=1
//
// The tests state the C16 (send half) PROPERTY, so on the unmodified code
//   c16_send_s1_credit_leak_starves_sender        FAILS  (S1 confirmed)
//   c16_send_s2_drop_after_kth_poll_all_or_nothing FAILS (S1 + S2 confirmed, all k / capacities)
//   c16_send_control_safe_cancel_points            PASSES (the await points that ARE safe)
// Every violation is printed (and repeated in the panic message) with the exact sequence.
//
// The tests drive the PUBLIC `Sender::send` (documented "This function is cancel-safe") on a
// hand-built `Sender` whose link->session channel (`SenderInner::outgoing`, in production a clone
// of `SessionHandle::outgoing`, shared by all links of the session, capacity = session
// buffer size) is a small bounded mpsc the test drains by hand, playing the session engine.
// Futures are polled by hand with a no-op waker and no runtime, so every step is deterministic.
#[cfg(test)]
mod c16_send_cancel_tests {
    use std::{
        future::Future,
        pin::Pin,
        sync::{Arc, OnceLock},
        task::{Context, Poll},
    };

    use fe2o3_amqp_types::{
        definitions::{ReceiverSettleMode, SenderSettleMode},
        messaging::Target,
    };
    use parking_lot::RwLock;
    use tokio::sync::{mpsc, Notify};

    use super::{
        incomplete_transfer::IncompleteTransfer,
        sender::SenderInner,
        state::{LinkFlowState, LinkFlowStateInner, LinkState},
        Link, LinkFrame, Sender, SenderLink, SenderRelayFlowState,
    };
    use crate::{
        control::SessionControl,
        endpoint::{InputHandle, LinkFlow, OutputHandle},
        util::{Consumer, Produce, Producer},
        Payload,
    };

    fn poll_once<F: Future + ?Sized>(fut: Pin<&mut F>) -> Poll<F::Output> {
        let mut cx = Context::from_waker(futures_util::task::noop_waker_ref());
        fut.poll(&mut cx)
    }

    /// Everything around one attached `Sender`, with the test standing in for the session engine
    struct Rig {
        sender: Sender,
        /// the session engine's end of the link->session channel
        session_rx: mpsc::Receiver<LinkFrame>,
        /// a clone of the link->session sender, standing in for OTHER links of the same session
        other_link: mpsc::Sender<LinkFrame>,
        /// what the session's `LinkRelay::Sender` uses to apply an incoming flow
        relay_flow: SenderRelayFlowState,
        _relay_tx: mpsc::Sender<LinkFrame>,
        _control_rx: mpsc::Receiver<SessionControl>,
    }

    /// One transfer frame as seen by the session engine
    #[derive(Clone)]
    struct Seen {
        performative: fe2o3_amqp_types::performatives::Transfer,
        payload: Payload,
    }

    impl Rig {
        fn new(capacity: usize, max_message_size: u64) -> Self {
            let flow_state = Arc::new(LinkFlowState::sender(LinkFlowStateInner {
                initial_delivery_count: 0,
                delivery_count: 0,
                link_credit: 0,
                available: 0,
                drain: false,
                properties: None,
            }));
            let notifier = Arc::new(Notify::new());
            let relay_flow = Producer::new(notifier.clone(), flow_state.clone());
            let consumer = Consumer::new(notifier, flow_state);

            let (outgoing, session_rx) = mpsc::channel::<LinkFrame>(capacity);
            let (relay_tx, incoming) = mpsc::channel::<LinkFrame>(4);
            let (control_tx, control_rx) = mpsc::channel::<SessionControl>(4);

            // Same shape as `Builder::create_link` + a completed attach exchange
            let link: SenderLink<Target> = Link {
                role: std::marker::PhantomData,
                local_state: LinkState::Attached,
                name: "c16-send".to_string(),
                output_handle: Some(OutputHandle(0)),
                input_handle: Some(InputHandle(0)),
                // pre-settled: `Sender::send` returns as soon as the transfer(s) are queued
                snd_settle_mode: SenderSettleMode::Settled,
                rcv_settle_mode: ReceiverSettleMode::First,
                source: None,
                target: Some(Target::default()),
                max_message_size,
                offered_capabilities: None,
                desired_capabilities: None,
                flow_state: consumer,
                unsettled: Arc::new(RwLock::new(None)),
                session_stop_reason: Arc::new(OnceLock::new()),
                verify_incoming_source: false,
                verify_incoming_target: false,
            };
            let sender = Sender {
                inner: SenderInner {
                    link,
                    buffer_size: capacity,
                    session: control_tx,
                    outgoing: outgoing.clone(),
                    incoming,
                },
            };
            Self {
                sender,
                session_rx,
                other_link: outgoing,
                relay_flow,
                _relay_tx: relay_tx,
                _control_rx: control_rx,
            }
        }

        /// The remote receiver's flow(delivery-count, link-credit) arrives and is applied the way
        /// `LinkRelay::on_incoming_flow` does it
        fn incoming_flow(&mut self, delivery_count_rcv: u32, link_credit_rcv: u32) {
            let flow = LinkFlow {
                delivery_count: Some(delivery_count_rcv),
                link_credit: Some(link_credit_rcv),
                ..Default::default()
            };
            let mut fut = Box::pin(self.relay_flow.produce((flow, OutputHandle(0))));
            assert!(poll_once(fut.as_mut()).is_ready());
        }

        fn link_credit(&self) -> u32 {
            self.sender.inner.link.flow_state.state().lock.read().link_credit
        }

        fn delivery_count(&self) -> u32 {
            self.sender
                .inner
                .link
                .flow_state
                .state()
                .lock
                .read()
                .delivery_count
        }

        /// Frames of other links of the same session fill the shared link->session channel
        fn fill_channel_with_other_links_frames(&mut self) -> usize {
            let mut n = 0;
            while self
                .other_link
                .try_send(LinkFrame::Flow(LinkFlow::default()))
                .is_ok()
            {
                n += 1;
            }
            n
        }

        /// The session engine takes ONE frame off the channel; a transfer of our link is recorded
        fn engine_takes_one(&mut self, seen: &mut Vec<Seen>) -> bool {
            match self.session_rx.try_recv() {
                Ok(LinkFrame::Transfer {
                    performative,
                    payload,
                    ..
                }) => {
                    seen.push(Seen {
                        performative,
                        payload,
                    });
                    true
                }
                Ok(_) => true,
                Err(_) => false,
            }
        }

        fn engine_takes_all(&mut self, seen: &mut Vec<Seen>) {
            while self.engine_takes_one(seen) {}
        }
    }

    fn body(c: char, n: usize) -> String {
        std::iter::repeat(c).take(n).collect()
    }

    fn describe(seen: &[Seen]) -> String {
        let v: Vec<String> = seen
            .iter()
            .map(|s| {
                format!(
                    "Transfer{{tag:{:?}, more:{}, len:{}, body_char:{:?}}}",
                    s.performative.delivery_tag.as_ref().map(|t| t.to_vec()),
                    s.performative.more,
                    s.payload.len(),
                    s.payload.last().map(|b| *b as char),
                )
            })
            .collect();
        format!("[{}]", v.join(", "))
    }

    /// S1: a send future dropped while it waits for room in the link->session channel has
    /// already taken a credit and advanced delivery-count_snd, but no transfer exists. Repeated
    /// (select!/timeout loop), this starves the sender although the receiver keeps granting credit.
    #[test]
    fn c16_send_s1_credit_leak_starves_sender() {
        const WINDOW: u32 = 5; // the receiver keeps the sender topped up to 5 credits
        let mut violations: Vec<String> = Vec::new();
        let mut seen = Vec::new();

        let mut rig = Rig::new(1, 0);
        rig.incoming_flow(0, WINDOW);
        assert_eq!((rig.link_credit(), rig.delivery_count()), (WINDOW, 0));

        // The shared link->session channel is momentarily full (frames of other links / engine busy)
        assert_eq!(rig.fill_channel_with_other_links_frames(), 1);

        // loop { select! { r = sender.send(msg) => .., _ = tick => continue } }: the other branch
        // wins WINDOW times while the send is waiting for room in the channel
        for round in 1..=WINDOW {
            {
                let mut fut = Box::pin(rig.sender.send(body('m', 20)));
                assert!(poll_once(fut.as_mut()).is_pending()); // 1st poll: pending on the channel
                assert!(poll_once(fut.as_mut()).is_pending()); // still pending
            } // <- the send future is dropped here
            let line = format!(
                "after cancelled send #{round}: link_credit={} delivery_count_snd={} (nothing of this link was queued)",
                rig.link_credit(),
                rig.delivery_count()
            );
            println!("S1 {line}");
            if rig.link_credit() != WINDOW || rig.delivery_count() != 0 {
                violations.push(line);
            }
        }

        // The session engine runs and empties the channel: not a single transfer of this link
        rig.engine_takes_all(&mut seen);
        println!("S1 transfers of this link seen by the session engine: {}", describe(&seen));
        assert!(seen.is_empty());

        // The receiver has received nothing (delivery-count_rcv = 0) and grants its full window again
        rig.incoming_flow(0, WINDOW);
        let line = format!(
            "after flow(delivery_count_rcv=0, link_credit_rcv={WINDOW}): link_credit_snd={} delivery_count_snd={}",
            rig.link_credit(),
            rig.delivery_count()
        );
        println!("S1 {line}");
        if rig.link_credit() != WINDOW {
            violations.push(line);
        }

        // The channel is empty, the receiver offers WINDOW credits, nothing is in flight:
        // a later send must go through. It does not: it waits for credit forever.
        {
            let mut fut = Box::pin(rig.sender.send(body('n', 20)));
            let mut ready = false;
            for _ in 0..5 {
                if poll_once(fut.as_mut()).is_ready() {
                    ready = true;
                    break;
                }
            }
            if !ready {
                let line = "later send('n') is STARVED: Pending with an empty channel while the receiver grants 5 credits".to_string();
                println!("S1 {line}");
                violations.push(line);
            }
        }
        rig.engine_takes_all(&mut seen);
        println!("S1 transfers of this link seen by the session engine at the end: {}", describe(&seen));

        assert!(
            violations.is_empty(),
            "C16/S1 credit leak on cancelled send:\n  {}",
            violations.join("\n  ")
        );
    }

    struct Observation {
        completed_at_poll: Option<usize>,
        credits_consumed_by_cancelled: u32,
        frames_of_cancelled: Vec<Seen>,
        all_frames: Vec<Seen>,
        next_completed: bool,
    }

    /// `Sender::send(M)` is dropped after its k-th poll; between two polls the session engine
    /// takes exactly ONE frame off the (full) channel, so each poll advances the future by exactly
    /// one internal `.await`. Then `Sender::send(N)` is driven to completion.
    fn drop_after_kth_poll(capacity: usize, max_message_size: u64, body_len: usize, k: usize) -> Observation {
        let mut rig = Rig::new(capacity, max_message_size);
        rig.incoming_flow(0, 10);
        assert_eq!(rig.fill_channel_with_other_links_frames(), capacity);

        let mut seen = Vec::new();
        let mut completed_at_poll = None;
        {
            let mut fut = Box::pin(rig.sender.send(body('m', body_len)));
            for i in 1..=k {
                match poll_once(fut.as_mut()) {
                    Poll::Ready(r) => {
                        r.expect("send(M)");
                        completed_at_poll = Some(i);
                        break;
                    }
                    Poll::Pending => {
                        if i < k {
                            // `fut` only borrows `rig.sender`; the engine side is disjoint
                            match rig.session_rx.try_recv() {
                                Ok(LinkFrame::Transfer { performative, payload, .. }) => {
                                    seen.push(Seen { performative, payload })
                                }
                                Ok(_) => {}
                                Err(_) => panic!("pending although the channel is empty"),
                            }
                        }
                    }
                }
            }
        } // <- dropped after the k-th poll (if it was still pending)
        let credits_consumed_by_cancelled = 10 - rig.link_credit();
        rig.engine_takes_all(&mut seen);
        let frames_of_cancelled = seen.clone();

        // The next send, driven to completion with the engine draining the channel
        let mut next_completed = false;
        {
            let mut fut = Box::pin(rig.sender.send(body('n', body_len)));
            for _ in 0..64 {
                match poll_once(fut.as_mut()) {
                    Poll::Ready(r) => {
                        r.expect("send(N)");
                        next_completed = true;
                        break;
                    }
                    Poll::Pending => match rig.session_rx.try_recv() {
                        Ok(LinkFrame::Transfer { performative, payload, .. }) => {
                            seen.push(Seen { performative, payload })
                        }
                        Ok(_) => {}
                        Err(_) => break, // pending with an empty channel: starved
                    },
                }
            }
        }
        rig.engine_takes_all(&mut seen);
        // (the Detach queued by `SenderInner::drop` is not a transfer and is ignored)
        Observation {
            completed_at_poll,
            credits_consumed_by_cancelled,
            frames_of_cancelled,
            all_frames: seen,
            next_completed,
        }
    }

    /// Check the wire-level property on the transfer sequence of this link, as a receiver sees it
    fn check(obs: &Observation, body_len: usize, ctx: &str, violations: &mut Vec<String>) {
        // Split into deliveries the way a receiver does: a delivery is open until `more == false`
        let mut open: Option<(Vec<u8>, Vec<u8>)> = None; // (tag, bytes)
        let mut complete: Vec<(Vec<u8>, Vec<u8>)> = Vec::new();
        let mut begun = 0u32;
        for (i, f) in obs.all_frames.iter().enumerate() {
            let tag = f.performative.delivery_tag.as_ref().map(|t| t.to_vec());
            match (&mut open, tag) {
                (None, Some(tag)) => {
                    begun += 1;
                    open = Some((tag, f.payload.to_vec()));
                }
                (None, None) => violations.push(format!("{ctx}: frame #{i} continues no delivery")),
                (Some((_, bytes)), None) => bytes.extend_from_slice(&f.payload),
                (Some((open_tag, bytes)), Some(tag)) => {
                    begun += 1;
                    // What this library's own receiver does with it (`Receiver::on_incomplete_transfer`
                    // / `on_complete_transfer` -> `IncompleteTransfer::or_assign`)
                    let first = obs.all_frames[..i]
                        .iter()
                        .rev()
                        .find(|p| p.performative.delivery_tag.is_some())
                        .unwrap();
                    let mut incomplete =
                        IncompleteTransfer::new(first.performative.clone(), first.payload.clone());
                    let verdict = incomplete.or_assign(f.performative.clone());
                    violations.push(format!(
                        "{ctx}: PARTIAL DELIVERY: delivery tag {open_tag:?} got {} byte(s), all with more=true, and is never \
                         finished; the next delivery (tag {tag:?}) starts on top of it; fe2o3's own receiver: \
                         IncompleteTransfer::or_assign -> {verdict:?}",
                        bytes.len()
                    ));
                    open = Some((tag, f.payload.to_vec()));
                }
            }
            if !f.performative.more {
                complete.extend(open.take());
            }
        }
        if let Some((tag, bytes)) = open {
            violations.push(format!(
                "{ctx}: delivery tag {tag:?} left open at the end with {} byte(s)",
                bytes.len()
            ));
        }

        // M: at most once, never partially
        let is_body = |bytes: &Vec<u8>, c: u8| {
            bytes.len() == body_len + 5 && bytes[5..].iter().all(|b| *b == c)
        };
        let m_count = complete.iter().filter(|(_, b)| is_body(b, b'm')).count();
        if m_count > 1 {
            violations.push(format!("{ctx}: M delivered {m_count} times"));
        }
        match obs.completed_at_poll {
            Some(_) if m_count != 1 => violations.push(format!("{ctx}: completed send(M) but M not delivered")),
            _ => {}
        }
        // N: delivered intact, as the last delivery
        if !obs.next_completed {
            violations.push(format!("{ctx}: the next send(N) did not complete"));
        } else if !complete.last().map(|(_, b)| is_body(b, b'n')).unwrap_or(false) {
            violations.push(format!("{ctx}: the next message N was not delivered intact as its own delivery"));
        }
        // Credit: the sender must have spent exactly one credit per delivery the receiver can count
        let cancelled_begun = obs
            .frames_of_cancelled
            .iter()
            .filter(|f| f.performative.delivery_tag.is_some())
            .count() as u32;
        if obs.credits_consumed_by_cancelled != cancelled_begun {
            violations.push(format!(
                "{ctx}: CREDIT LEAK: the cancelled send consumed {} credit(s) / advanced delivery-count_snd, but {} \
                 delivery(ies) of it reached the channel",
                obs.credits_consumed_by_cancelled, cancelled_begun
            ));
        }
        let _ = begun;
    }

    /// The C16 quantifier: for every k (drop after the k-th poll), one-frame and several-frame
    /// messages, link->session capacities 1, 2, 3.
    #[test]
    fn c16_send_s2_drop_after_kth_poll_all_or_nothing() {
        let mut violations = Vec::new();
        // (max_message_size, body_len): payload = 5 + body_len bytes
        //   (0, 20)  -> 1 transfer of 25 bytes
        //   (10, 20) -> 25 bytes split by the LINK into 10 + 10 + 5 (more = true, true, false)
        for (max_message_size, body_len) in [(0u64, 20usize), (10, 20)] {
            for capacity in 1..=3usize {
                for k in 1..=6usize {
                    let obs = drop_after_kth_poll(capacity, max_message_size, body_len, k);
                    let ctx = format!(
                        "max_message_size={max_message_size} payload={} capacity={capacity} drop-after-poll k={k}",
                        body_len + 5
                    );
                    println!(
                        "S2 {ctx}: send(M) {}; credits consumed by it={}; its frames in the channel={}; full sequence={}",
                        match obs.completed_at_poll {
                            Some(i) => format!("completed at poll {i}"),
                            None => "CANCELLED".to_string(),
                        },
                        obs.credits_consumed_by_cancelled,
                        describe(&obs.frames_of_cancelled),
                        describe(&obs.all_frames),
                    );
                    check(&obs, body_len, &ctx, &mut violations);
                    if obs.completed_at_poll.is_some() {
                        break; // larger k are the same run
                    }
                }
            }
        }
        for v in &violations {
            println!("S2 VIOLATION {v}");
        }
        assert!(
            violations.is_empty(),
            "C16 (send half) violated in {} case(s):\n  {}",
            violations.len(),
            violations.join("\n  ")
        );
    }

    /// The cancel points that ARE safe (so the failures above are not artefacts of the rig):
    /// dropped while waiting for CREDIT; and a send that finds room in the channel.
    #[test]
    fn c16_send_control_safe_cancel_points() {
        // (a) no credit: the future waits on the Notify; dropping it changes nothing
        let mut rig = Rig::new(1, 0);
        for _ in 0..3 {
            let mut fut = Box::pin(rig.sender.send(body('m', 20)));
            assert!(poll_once(fut.as_mut()).is_pending());
            assert!(poll_once(fut.as_mut()).is_pending());
        }
        assert_eq!((rig.link_credit(), rig.delivery_count()), (0, 0));
        rig.incoming_flow(0, 2);
        assert_eq!((rig.link_credit(), rig.delivery_count()), (2, 0));
        let mut seen = Vec::new();
        {
            let mut fut = Box::pin(rig.sender.send(body('n', 20)));
            assert!(matches!(poll_once(fut.as_mut()), Poll::Ready(Ok(_))));
        }
        rig.engine_takes_all(&mut seen);
        assert_eq!(seen.len(), 1);
        assert!(!seen[0].performative.more);
        assert_eq!((rig.link_credit(), rig.delivery_count()), (1, 1));

        // (b) several frames with room for all of them: completes at the first poll, intact
        let mut rig = Rig::new(3, 10);
        rig.incoming_flow(0, 2);
        {
            let mut fut = Box::pin(rig.sender.send(body('n', 20)));
            assert!(matches!(poll_once(fut.as_mut()), Poll::Ready(Ok(_))));
        }
        let mut seen = Vec::new();
        rig.engine_takes_all(&mut seen);
        let more: Vec<bool> = seen.iter().map(|s| s.performative.more).collect();
        assert_eq!(more, vec![true, true, false]);
        assert_eq!((rig.link_credit(), rig.delivery_count()), (1, 1));
    }
}
