// append-to: serde_amqp/src/lazy.rs
// run: cargo test -p serde_amqp --offline --features derive --lib d83_demo
// before the fix: to_vec(&{lazy: 5i64}) panics (ser.rs `unreachable!()` in serialize_i64), to_vec(&{lazy: ByteBuf[0x41]}) writes the binary WITHOUT
// its vbin8 header (c1 03 02 40 41 instead of c1 05 02 40 a0 01 41), serialized_size disagrees, to_value gives Null / Bool(true) or Err(InvalidValue)

#[cfg(test)]
mod d83_demo {
    use crate::{from_slice, lazy::LazyValue, primitives::OrderedMap, serialized_size, to_value, to_vec, Value};
    use serde_bytes::ByteBuf;

    fn lazy_null() -> LazyValue {
        from_slice(&[0x40]).unwrap()
    }

    /// C03/C05: the value written after a LazyValue by the same serializer (a map entry's value after its key) is written as itself
    #[test]
    fn bytes_after_a_lazy_value_keep_their_header() {
        let mut m = OrderedMap::new();
        m.insert(lazy_null(), ByteBuf::from(vec![0x41u8]));
        let bytes = to_vec(&m).unwrap();
        assert_eq!(bytes, vec![0xc1, 0x05, 0x02, 0x40, 0xa0, 0x01, 0x41]);
        assert_eq!(serialized_size(&m).unwrap(), bytes.len());
        let back: OrderedMap<LazyValue, ByteBuf> = from_slice(&bytes).unwrap();
        assert_eq!(back, m);
    }

    /// C03: no panic
    #[test]
    fn long_after_a_lazy_value_is_written() {
        let mut m = OrderedMap::new();
        m.insert(lazy_null(), 5i64);
        let bytes = to_vec(&m).unwrap();
        assert_eq!(bytes, vec![0xc1, 0x04, 0x02, 0x40, 0x55, 0x05]);
        assert_eq!(serialized_size(&m).unwrap(), bytes.len());
    }

    /// C20: the value tree is what the bytes decode to
    #[test]
    fn tree_of_a_map_keyed_by_a_lazy_value() {
        let mut m = OrderedMap::new();
        m.insert(lazy_null(), ByteBuf::from(vec![0x41u8]));
        let tree = to_value(&m).expect("to_value");
        let mut expected = OrderedMap::new();
        expected.insert(Value::Null, Value::Binary(ByteBuf::from(vec![0x41u8])));
        assert_eq!(tree, Value::Map(expected));
        let mut m2 = OrderedMap::new();
        m2.insert(lazy_null(), 5i64);
        assert!(to_value(&m2).is_ok(), "to_value of {{lazy: 5i64}}: {:?}", to_value(&m2));
    }
}
