// append-to: new module at end of fe2o3-amqp/src/link/sender.rs
// run: hunt_c08_resume
#[cfg(test)]
mod hunt_c08_resume {
    use std::time::Duration;

    use fe2o3_amqp_types::{
        definitions::{Handle, SenderSettleMode},
        performatives::Detach,
    };

    use self::support::{link_flow, Peer};
    use crate::{connection::Connection, frames::amqp::FrameBody, session::Session, Sender};

    /// scripted receiver peer
    mod support {
        use std::time::Duration;

        use fe2o3_amqp_types::{
            definitions::{Handle, ReceiverSettleMode, Role, SenderSettleMode},
            messaging::{Source, Target},
            performatives::{Attach, Begin, Flow, Open},
        };
        use futures_util::{SinkExt, StreamExt};
        use tokio::io::{AsyncReadExt, AsyncWriteExt, DuplexStream};

        use crate::{
            frames::amqp::{Frame, FrameBody},
            transport::Transport,
        };

        pub(super) struct Peer {
            pub t: Transport<DuplexStream, Frame>,
        }

        impl Peer {
            /// header + open exchange
            pub async fn accept(mut io: DuplexStream) -> Self {
                let mut hdr = [0u8; 8];
                io.read_exact(&mut hdr).await.unwrap();
                assert_eq!(&hdr, b"AMQP\x00\x01\x00\x00");
                io.write_all(b"AMQP\x00\x01\x00\x00").await.unwrap();
                let mut t = Transport::<_, Frame>::bind(io, 65536, None);
                match t.next().await.unwrap().unwrap().body {
                    FrameBody::Open(_) => {}
                    other => panic!("expected open, got {:?}", other),
                }
                let open = Open {
                    container_id: "scripted-peer".into(),
                    hostname: None,
                    max_frame_size: 65536.into(),
                    channel_max: 10.into(),
                    idle_time_out: None,
                    outgoing_locales: None,
                    incoming_locales: None,
                    offered_capabilities: None,
                    desired_capabilities: None,
                    properties: None,
                };
                t.send(Frame::new(0u16, FrameBody::Open(open))).await.unwrap();
                Self { t }
            }

            pub async fn next(&mut self) -> FrameBody {
                loop {
                    let frame = tokio::time::timeout(Duration::from_secs(5), self.t.next())
                        .await
                        .expect("peer: no frame within 5s")
                        .expect("peer: stream ended")
                        .expect("peer: decode error");
                    if let FrameBody::Empty = frame.body {
                        continue;
                    }
                    return frame.body;
                }
            }

            /// next frame, or None if nothing arrives within `ms`
            pub async fn next_within(&mut self, ms: u64) -> Option<FrameBody> {
                match tokio::time::timeout(Duration::from_millis(ms), self.t.next()).await {
                    Ok(Some(Ok(frame))) => Some(frame.body),
                    Ok(other) => panic!("peer: {:?}", other.map(|r| r.map(|_| ()))),
                    Err(_) => None,
                }
            }

            pub async fn send(&mut self, body: FrameBody) {
                self.t.send(Frame::new(0u16, body)).await.unwrap();
            }

            /// answer the client's begin; the session incoming-window of the peer is `incoming_window`
            pub async fn begin(&mut self, incoming_window: u32) {
                match self.next().await {
                    FrameBody::Begin(_) => {}
                    other => panic!("expected begin, got {:?}", other),
                }
                let begin = Begin {
                    remote_channel: Some(0),
                    next_outgoing_id: 0,
                    incoming_window,
                    outgoing_window: 2048,
                    handle_max: Handle(7),
                    offered_capabilities: None,
                    desired_capabilities: None,
                    properties: None,
                };
                self.send(FrameBody::Begin(begin)).await;
            }

            /// answer the sender's attach as a receiver, returns the sender's attach
            pub async fn attach_receiver(&mut self) -> Attach {
                let remote = match self.next().await {
                    FrameBody::Attach(a) => a,
                    other => panic!("expected attach, got {:?}", other),
                };
                let attach = Attach {
                    name: remote.name.clone(),
                    handle: Handle(0),
                    role: Role::Receiver,
                    snd_settle_mode: SenderSettleMode::Settled,
                    rcv_settle_mode: ReceiverSettleMode::First,
                    source: Some(Box::new(Source::default())),
                    target: Some(Box::new(Target::builder().address("q").build().into())),
                    unsettled: None,
                    incomplete_unsettled: false,
                    initial_delivery_count: None,
                    max_message_size: None,
                    offered_capabilities: None,
                    desired_capabilities: None,
                    properties: None,
                };
                self.send(FrameBody::Attach(attach)).await;
                remote
            }
        }

        pub(super) fn link_flow(
            next_incoming_id: u32,
            incoming_window: u32,
            delivery_count: Option<u32>,
            link_credit: u32,
            drain: bool,
        ) -> FrameBody {
            FrameBody::Flow(Flow {
                next_incoming_id: Some(next_incoming_id),
                incoming_window,
                next_outgoing_id: 0,
                outgoing_window: 2048,
                handle: Some(Handle(0)),
                delivery_count,
                link_credit: Some(link_credit),
                available: None,
                drain,
                echo: false,
                properties: None,
            })
        }
    }

    /// History:
    ///   attach; flow(dc=0, credit=10); three deliveries; detach (non closing) / detach
    ///   sender resumes: attach(initial-delivery-count = X)
    ///   receiver: delivery-count_rcv := X (2.6.7, 2.7.3), flow(dc = X, credit = 2)
    ///   sender.send() is waiting for credit -> has to complete, two credits were granted
    #[tokio::test]
    async fn hunt_c08_resumed_sender_uses_the_credit_granted_after_resume() {
        let (client_io, peer_io) = tokio::io::duplex(1 << 16);
        let peer_task = tokio::spawn(Peer::accept(peer_io));
        let mut connection = Connection::builder()
            .container_id("client")
            .open_with_stream(client_io)
            .await
            .unwrap();
        let mut peer = peer_task.await.unwrap();

        let (session, _) = tokio::join!(Session::begin(&mut connection), peer.begin(2048));
        let mut session = session.unwrap();

        let (sender, first_attach) = tokio::join!(
            Sender::builder()
                .name("hunt-c08-resume")
                .target("q")
                .sender_settle_mode(SenderSettleMode::Settled)
                .attach(&mut session),
            peer.attach_receiver()
        );
        let mut sender = sender.unwrap();
        assert_eq!(first_attach.initial_delivery_count, Some(0));

        peer.send(link_flow(0, 2048, Some(0), 10, false)).await;
        for i in 0..3 {
            sender.send(format!("m{}", i)).await.unwrap();
            match peer.next().await {
                FrameBody::Transfer { .. } => {}
                other => panic!("expected transfer, got {:?}", other),
            }
        }

        // non-closing detach, answered by the peer
        let (detached, _) = tokio::join!(sender.detach(), async {
            match peer.next().await {
                FrameBody::Detach(d) => assert!(!d.closed),
                other => panic!("expected detach, got {:?}", other),
            }
            peer.send(FrameBody::Detach(Detach {
                handle: Handle(0),
                closed: false,
                error: None,
            }))
            .await;
        });
        let detached = detached.map_err(|(_, e)| e).unwrap();

        // resume on the same session
        let (resumed, second_attach) = tokio::join!(detached.resume(), peer.attach_receiver());
        let mut sender = resumed.map_err(|e| e.kind).unwrap();

        // The receiver learns the sender's delivery-count from the attach and grants two credits
        let dc_rcv = second_attach
            .initial_delivery_count
            .expect("initial-delivery-count MUST NOT be null for a sender");
        // (echo = true, and the answer is awaited, so that the flow has been applied for sure
        // before send() is called)
        let mut grant = link_flow(3, 2048, Some(dc_rcv), 2, false);
        if let FrameBody::Flow(flow) = &mut grant {
            flow.echo = true;
        }
        peer.send(grant).await;
        let answer = match peer.next().await {
            FrameBody::Flow(flow) => flow,
            other => panic!("expected the echoed flow, got {:?}", other),
        };

        let sent = tokio::time::timeout(Duration::from_secs(2), sender.send("after-resume")).await;
        assert!(
            sent.is_ok(),
            "the resumed sender announced initial-delivery-count = {} in its attach, the receiver \
             granted flow(delivery-count = {}, link-credit = 2), and send() is still waiting for \
             credit after 2s; the sender's own view, echoed after the grant: delivery-count = \
             {:?}, link-credit = {:?}",
            dc_rcv,
            dc_rcv,
            answer.delivery_count,
            answer.link_credit
        );
        sent.unwrap().unwrap();
        match peer.next().await {
            FrameBody::Transfer { .. } => {}
            other => panic!("expected transfer, got {:?}", other),
        }
    }
}
