    // D13 demonstration (C12): after close_with_error (state DISCARDING) the endpoint has sent its Close and must
    // send nothing more; on the unfixed tree the heartbeat keeps writing empty frames until the peer answers.
    mod d13_demo {
        use std::time::Duration;

        use fe2o3_amqp_types::performatives::{Close, Open};
        use futures_util::{SinkExt, StreamExt};
        use tokio::io::{AsyncReadExt, AsyncWriteExt, DuplexStream};

        use crate::connection::Connection;
        use crate::frames::amqp::{Frame, FrameBody};
        use crate::transport::Transport;

        /// Scripted peer: exchanges the protocol header, expects the Open as
        /// the first frame and answers with its own Open that asks for
        /// heartbeats (`idle_time_out`).
        async fn peer_open(
            mut io: DuplexStream,
            idle_time_out: Option<u32>,
        ) -> Transport<DuplexStream, Frame> {
            let mut hdr = [0u8; 8];
            io.read_exact(&mut hdr).await.unwrap();
            assert_eq!(&hdr, b"AMQP\x00\x01\x00\x00");
            io.write_all(&hdr).await.unwrap();
            let mut transport = Transport::<_, Frame>::bind(io, 65536, None);
            let first = transport.next().await.unwrap().unwrap();
            assert!(matches!(first.body, FrameBody::Open(_)));
            let open = Open {
                container_id: "peer".to_string(),
                hostname: None,
                max_frame_size: Default::default(),
                channel_max: Default::default(),
                idle_time_out,
                outgoing_locales: None,
                incoming_locales: None,
                offered_capabilities: None,
                desired_capabilities: None,
                properties: None,
            };
            transport
                .send(Frame::new(0u16, FrameBody::Open(open)))
                .await
                .unwrap();
            transport
        }

        /// The peer asked for heartbeats and is slow to answer the local
        /// Close: after its Close the endpoint must not send anything.
        #[tokio::test(flavor = "current_thread")]
        async fn d13_nothing_is_sent_after_close_with_error_while_peer_is_slow() {
            let (client_io, peer_io) = tokio::io::duplex(1 << 16);
            let peer = tokio::spawn(peer_open(peer_io, Some(40)));
            let mut handle = Connection::builder()
                .container_id("d13")
                .open_with_stream(client_io)
                .await
                .unwrap();
            let mut peer = peer.await.unwrap();

            let closing = tokio::spawn(async move {
                let error = fe2o3_amqp_types::definitions::Error::new(fe2o3_amqp_types::definitions::AmqpError::InternalError, None, None);
                handle.close_with_error(error).await
            });

            // Heartbeats are fine until the Close shows up
            let close = loop {
                let frame = tokio::time::timeout(Duration::from_secs(5), peer.next())
                    .await
                    .expect("endpoint must send its close")
                    .unwrap()
                    .unwrap();
                match frame.body {
                    FrameBody::Empty => continue,
                    FrameBody::Close(close) => break close,
                    other => panic!("unexpected frame {:?}", other),
                }
            };
            assert!(close.error.is_some());

            // The peer is slow: several heartbeat periods pass before it
            // answers. Nothing may be sent after the endpoint's Close.
            let silence = tokio::time::timeout(Duration::from_millis(400), peer.next()).await;
            assert!(
                silence.is_err(),
                "endpoint sent {:?} after its close",
                silence
            );

            // Now the peer answers; the endpoint just closes the transport
            peer.send(Frame::new(0u16, FrameBody::Close(Close { error: None })))
                .await
                .unwrap();
            let eof = tokio::time::timeout(Duration::from_secs(5), peer.next())
                .await
                .expect("endpoint must stop after the close exchange");
            assert!(eof.is_none(), "endpoint sent {:?} after its close", eof);

            let result = closing.await.unwrap();
            assert!(result.is_ok(), "clean close must be reported, got {:?}", result);
        }
    }
