// append-to: new module at end of fe2o3-amqp/src/link/receiver_link.rs
// run: hunt_c02_f3
//
// Finding 3: the receiving link keeps deliveries in its unsettled map (the map that is sent
// in `attach.unsettled` when the link is resumed) although they are settled:
//  (a) rcv-settle-mode=second, the sender sent the delivery pre-settled, the application
//      accepts it: `ReceiverLink::dispose` INSERTS the tag (no disposition is sent), forever;
//  (b) rcv-settle-mode=second, the sender settles the delivery before the application accepts
//      it: same insertion;
//  (c) a pre-settled delivery that arrives in more than one transfer frame is inserted by
//      `on_incomplete_transfer` and never removed;
//  (d) an aborted (=implicitly settled) multi-frame delivery is never removed either;
//  (e) rcv-settle-mode=first: a settled disposition of the SENDER is not applied at all (the
//      session only routes sender dispositions for links in mode second).
#[cfg(test)]
mod hunt_c02_f3 {
    #![allow(dead_code, unused_imports)]
    // ---------------------------------------------------------------------------------------
    // A scripted AMQP peer speaking the wire protocol over `tokio::io::duplex`, and a real
    // fe2o3-amqp client connection/session on the other end.
    // ---------------------------------------------------------------------------------------
    use std::time::Duration;

    use fe2o3_amqp_types::{
        definitions::{Handle, ReceiverSettleMode, Role, SenderSettleMode},
        messaging::{Accepted, DeliveryState, Released},
        performatives::{Attach, Begin, Detach, Disposition, Flow, Open, Transfer},
    };
    use futures_util::{SinkExt, StreamExt};
    use tokio::io::{AsyncReadExt, AsyncWriteExt, DuplexStream};

    use crate::{
        connection::{Connection, ConnectionHandle},
        frames::amqp::{Frame, FrameBody},
        session::{Session, SessionHandle},
        transport::Transport,
    };

    const STEP: Duration = Duration::from_secs(5);

    struct Peer {
        t: Transport<DuplexStream, Frame>,
    }

    impl Peer {
        /// Protocol header + open
        async fn accept(mut io: DuplexStream) -> Self {
            let mut hdr = [0u8; 8];
            io.read_exact(&mut hdr).await.unwrap();
            assert_eq!(&hdr, b"AMQP\x00\x01\x00\x00");
            io.write_all(&hdr).await.unwrap();
            let t = Transport::<DuplexStream, Frame>::bind(io, 64 * 1024, None);
            let mut peer = Peer { t };
            match peer.recv().await {
                FrameBody::Open(_) => {}
                other => panic!("expected open, got {:?}", other),
            }
            peer.send(FrameBody::Open(Open {
                container_id: "scripted-peer".into(),
                hostname: None,
                max_frame_size: (64 * 1024u32).into(),
                channel_max: 16u16.into(),
                idle_time_out: None,
                outgoing_locales: None,
                incoming_locales: None,
                offered_capabilities: None,
                desired_capabilities: None,
                properties: None,
            }))
            .await;
            peer
        }

        async fn send(&mut self, body: FrameBody) {
            self.t.send(Frame::new(0u16, body)).await.unwrap();
        }

        /// Next non-empty frame
        async fn recv(&mut self) -> FrameBody {
            loop {
                let frame = tokio::time::timeout(STEP, self.t.next())
                    .await
                    .expect("peer: timed out waiting for a frame")
                    .expect("peer: stream ended")
                    .expect("peer: transport error");
                match frame.into_body() {
                    FrameBody::Empty => continue,
                    body => return body,
                }
            }
        }

        /// Answer the client's begin. `next_outgoing_id` is the first delivery-id the PEER
        /// would use for its own transfers
        async fn begin(&mut self, next_outgoing_id: u32) -> Begin {
            let begin = match self.recv().await {
                FrameBody::Begin(b) => b,
                other => panic!("expected begin, got {:?}", other),
            };
            self.send(FrameBody::Begin(Begin {
                remote_channel: Some(0),
                next_outgoing_id,
                incoming_window: 100_000,
                outgoing_window: 100_000,
                handle_max: Default::default(),
                offered_capabilities: None,
                desired_capabilities: None,
                properties: None,
            }))
            .await;
            begin
        }

        /// Answer the attach of a client SENDER link: the peer is the receiving end
        async fn attach_as_receiver(
            &mut self,
            handle: u32,
            rcv_settle_mode: ReceiverSettleMode,
            max_message_size: Option<u64>,
        ) -> Attach {
            let attach = match self.recv().await {
                FrameBody::Attach(a) => a,
                other => panic!("expected attach, got {:?}", other),
            };
            assert_eq!(attach.role, Role::Sender);
            self.send(FrameBody::Attach(Attach {
                name: attach.name.clone(),
                handle: Handle(handle),
                role: Role::Receiver,
                snd_settle_mode: attach.snd_settle_mode.clone(),
                rcv_settle_mode,
                source: attach.source.clone(),
                target: attach.target.clone(),
                unsettled: None,
                incomplete_unsettled: false,
                initial_delivery_count: None,
                max_message_size,
                offered_capabilities: None,
                desired_capabilities: None,
                properties: None,
            }))
            .await;
            attach
        }

        /// Grant link credit to the client's sender. `next_incoming_id` is the transfer-id the
        /// peer expects next from the client
        async fn grant_credit(&mut self, handle: u32, next_incoming_id: u32, credit: u32) {
            self.send(FrameBody::Flow(Flow {
                next_incoming_id: Some(next_incoming_id),
                incoming_window: 100_000,
                next_outgoing_id: 0,
                outgoing_window: 100_000,
                handle: Some(Handle(handle)),
                delivery_count: Some(0),
                link_credit: Some(credit),
                available: None,
                drain: false,
                echo: false,
                properties: None,
            }))
            .await;
        }

        async fn recv_transfer(&mut self) -> Transfer {
            match self.recv().await {
                FrameBody::Transfer { performative, .. } => performative,
                other => panic!("expected transfer, got {:?}", other),
            }
        }

        async fn dispose(
            &mut self,
            first: u32,
            last: Option<u32>,
            settled: bool,
            state: DeliveryState,
        ) {
            self.send(FrameBody::Disposition(Disposition {
                role: Role::Receiver,
                first,
                last,
                settled,
                state: Some(state),
                batchable: false,
            }))
            .await;
        }

        /// Answer the attach of a client RECEIVER link: the peer is the sending end
        async fn attach_as_sender(&mut self, handle: u32, snd_settle_mode: SenderSettleMode) -> Attach {
            let attach = match self.recv().await {
                FrameBody::Attach(a) => a,
                other => panic!("expected attach, got {:?}", other),
            };
            assert_eq!(attach.role, Role::Receiver);
            self.send(FrameBody::Attach(Attach {
                name: attach.name.clone(),
                handle: Handle(handle),
                role: Role::Sender,
                snd_settle_mode,
                rcv_settle_mode: attach.rcv_settle_mode.clone(),
                source: attach.source.clone(),
                target: attach.target.clone(),
                unsettled: None,
                incomplete_unsettled: false,
                initial_delivery_count: Some(0),
                max_message_size: None,
                offered_capabilities: None,
                desired_capabilities: None,
                properties: None,
            }))
            .await;
            attach
        }

        async fn recv_flow(&mut self) -> Flow {
            match self.recv().await {
                FrameBody::Flow(f) => f,
                other => panic!("expected flow, got {:?}", other),
            }
        }

        async fn recv_disposition(&mut self) -> Disposition {
            match self.recv().await {
                FrameBody::Disposition(d) => d,
                other => panic!("expected disposition, got {:?}", other),
            }
        }

        /// One transfer frame of a delivery sent by the peer
        #[allow(clippy::too_many_arguments)]
        async fn transfer(
            &mut self,
            handle: u32,
            delivery_id: Option<u32>,
            delivery_tag: Option<&[u8]>,
            settled: Option<bool>,
            more: bool,
            aborted: bool,
            payload: &[u8],
        ) {
            self.send(FrameBody::Transfer {
                performative: Transfer {
                    handle: Handle(handle),
                    delivery_id,
                    delivery_tag: delivery_tag.map(|t| t.to_vec().into()),
                    message_format: Some(0),
                    settled,
                    more,
                    rcv_settle_mode: None,
                    state: None,
                    resume: false,
                    aborted,
                    batchable: false,
                },
                payload: bytes::Bytes::copy_from_slice(payload),
            })
            .await;
        }
    }

    /// amqp-value section holding the string "x"
    const MSG_X: &[u8] = &[0x00, 0x53, 0x77, 0xa1, 0x01, b'x'];

    async fn client(io: DuplexStream) -> ConnectionHandle<()> {
        Connection::builder()
            .container_id("client")
            .open_with_stream(io)
            .await
            .expect("client open")
    }

    use crate::link::{delivery::Delivery, Receiver};
    use fe2o3_amqp_types::{definitions::DeliveryTag, primitives::Value};

    fn retained(receiver: &Receiver, tag: &[u8]) -> bool {
        receiver
            .inner
            .link
            .unsettled
            .read()
            .as_ref()
            .map(|m| m.contains_key(&DeliveryTag::from(tag.to_vec())))
            .unwrap_or(false)
    }

    async fn setup(
        rcv_settle_mode: ReceiverSettleMode,
        snd_settle_mode: SenderSettleMode,
    ) -> (Peer, ConnectionHandle<()>, SessionHandle<()>, Receiver) {
        let (cio, pio) = tokio::io::duplex(64 * 1024);
        let peer_task = tokio::spawn(async move {
            let mut peer = Peer::accept(pio).await;
            peer.begin(0).await;
            peer.attach_as_sender(0, snd_settle_mode).await;
            let flow = peer.recv_flow().await;
            assert!(flow.link_credit.unwrap() > 0);
            peer
        });
        let mut conn = client(cio).await;
        let mut session = Session::begin(&mut conn).await.unwrap();
        let receiver = Receiver::builder()
            .name("r")
            .source("q")
            .receiver_settle_mode(rcv_settle_mode)
            .attach(&mut session)
            .await
            .unwrap();
        let peer = peer_task.await.unwrap();
        (peer, conn, session, receiver)
    }

    /// (a) pre-settled delivery on a link with rcv-settle-mode=second, then accept
    #[tokio::test]
    async fn hunt_c02_f3a_mode_second_presettled_delivery_accepted() {
        let (mut peer, _conn, _session, mut receiver) =
            setup(ReceiverSettleMode::Second, SenderSettleMode::Settled).await;
        peer.transfer(0, Some(0), Some(b"t0"), Some(true), false, false, MSG_X)
            .await;
        let delivery: Delivery<Value> = tokio::time::timeout(STEP, receiver.recv())
            .await
            .unwrap()
            .unwrap();
        assert!(!retained(&receiver, b"t0"), "pre-settled: never unsettled");
        receiver.accept(&delivery).await.unwrap();
        assert!(
            !retained(&receiver, b"t0"),
            "the pre-settled delivery t0 is in the receiver's unsettled map after accept()"
        );
    }

    /// (b) the sender settles the delivery (e.g. ttl expired) before the application accepts
    #[tokio::test]
    async fn hunt_c02_f3b_mode_second_sender_settles_before_accept() {
        let (mut peer, _conn, _session, mut receiver) =
            setup(ReceiverSettleMode::Second, SenderSettleMode::Unsettled).await;
        peer.transfer(0, Some(0), Some(b"t0"), Some(false), false, false, MSG_X)
            .await;
        let delivery: Delivery<Value> = tokio::time::timeout(STEP, receiver.recv())
            .await
            .unwrap()
            .unwrap();
        assert!(retained(&receiver, b"t0"));
        // the sender settles
        peer.send(FrameBody::Disposition(Disposition {
            role: Role::Sender,
            first: 0,
            last: None,
            settled: true,
            state: Some(DeliveryState::Released(Released {})),
            batchable: false,
        }))
        .await;
        for _ in 0..200 {
            if !retained(&receiver, b"t0") {
                break;
            }
            tokio::time::sleep(Duration::from_millis(5)).await;
        }
        assert!(!retained(&receiver, b"t0"), "removed by the sender's settlement");
        receiver.accept(&delivery).await.unwrap();
        assert!(
            !retained(&receiver, b"t0"),
            "the delivery t0, settled by the sender, is back in the receiver's unsettled map after accept()"
        );
    }

    /// (c) pre-settled delivery in two transfer frames, rcv-settle-mode=first
    #[tokio::test]
    async fn hunt_c02_f3c_presettled_multi_frame_delivery() {
        let (mut peer, _conn, _session, mut receiver) =
            setup(ReceiverSettleMode::First, SenderSettleMode::Settled).await;
        peer.transfer(0, Some(0), Some(b"t0"), Some(true), true, false, &MSG_X[..3])
            .await;
        peer.transfer(0, None, None, None, false, false, &MSG_X[3..])
            .await;
        let _delivery: Delivery<Value> = tokio::time::timeout(STEP, receiver.recv())
            .await
            .unwrap()
            .unwrap();
        assert!(
            !retained(&receiver, b"t0"),
            "the pre-settled delivery t0 is in the receiver's unsettled map"
        );
    }

    /// (d) aborted multi-frame delivery, followed by a complete pre-settled one
    #[tokio::test]
    async fn hunt_c02_f3d_aborted_multi_frame_delivery() {
        let (mut peer, _conn, _session, mut receiver) =
            setup(ReceiverSettleMode::First, SenderSettleMode::Mixed).await;
        peer.transfer(0, Some(0), Some(b"t0"), Some(false), true, false, &MSG_X[..3])
            .await;
        peer.transfer(0, None, None, None, false, true, &[]).await;
        peer.transfer(0, Some(1), Some(b"t1"), Some(true), false, false, MSG_X)
            .await;
        let delivery: Delivery<Value> = tokio::time::timeout(STEP, receiver.recv())
            .await
            .unwrap()
            .unwrap();
        assert_eq!(delivery.delivery_id(), &1);
        assert!(
            !retained(&receiver, b"t0"),
            "the aborted (implicitly settled) delivery t0 is in the receiver's unsettled map"
        );
    }

    /// (e) rcv-settle-mode=first, the sender settles the delivery before the application has
    /// disposed of it. The next (pre-settled) delivery is only used to know that the
    /// disposition in front of it has been processed by the session.
    #[tokio::test]
    async fn hunt_c02_f3e_mode_first_sender_settles_first() {
        let (mut peer, _conn, _session, mut receiver) =
            setup(ReceiverSettleMode::First, SenderSettleMode::Mixed).await;
        peer.transfer(0, Some(0), Some(b"t0"), Some(false), false, false, MSG_X)
            .await;
        let _d0: Delivery<Value> = tokio::time::timeout(STEP, receiver.recv())
            .await
            .unwrap()
            .unwrap();
        assert!(retained(&receiver, b"t0"));
        peer.send(FrameBody::Disposition(Disposition {
            role: Role::Sender,
            first: 0,
            last: None,
            settled: true,
            state: Some(DeliveryState::Released(Released {})),
            batchable: false,
        }))
        .await;
        peer.transfer(0, Some(1), Some(b"t1"), Some(true), false, false, MSG_X)
            .await;
        let d1: Delivery<Value> = tokio::time::timeout(STEP, receiver.recv())
            .await
            .unwrap()
            .unwrap();
        assert_eq!(d1.delivery_id(), &1);
        assert!(
            !retained(&receiver, b"t0"),
            "delivery t0 was settled by the sender but is still in the receiver's unsettled map"
        );
    }
}
