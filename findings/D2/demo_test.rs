#[cfg(test)]
mod d2_tests {
    // D2 demonstration (C11): a delivery split at link level into exactly two frames
    // (max-message-size < payload <= 2 * max-message-size) must carry its delivery-tag on the
    // first frame only; otherwise the session stamps a second delivery-id on the continuation.
    #[tokio::test]
    async fn d2_two_frame_link_split_clears_tag_on_continuation() {
        use std::sync::{Arc, OnceLock};
        use fe2o3_amqp_types::{
            definitions::{DeliveryTag, ReceiverSettleMode, SenderSettleMode},
            messaging::Target,
            performatives::Transfer,
        };
        use tokio::sync::{mpsc, Notify};
        use crate::{
            endpoint::{InputHandle, OutputHandle},
            link::{state::{LinkFlowState, LinkFlowStateInner, LinkState}, LinkFrame, SenderLink},
            util::Consumer,
        };

        let flow_state = Consumer::new(
            Arc::new(Notify::new()),
            Arc::new(LinkFlowState::sender(LinkFlowStateInner {
                initial_delivery_count: 0, delivery_count: 0, link_credit: 10, available: 0, drain: false, properties: None,
            })),
        );
        let link: SenderLink<Target> = SenderLink {
            role: std::marker::PhantomData,
            local_state: LinkState::Attached,
            name: "d2".to_string(),
            output_handle: Some(OutputHandle(0)),
            input_handle: Some(InputHandle(0)),
            snd_settle_mode: SenderSettleMode::Mixed,
            rcv_settle_mode: ReceiverSettleMode::First,
            source: None,
            target: None,
            max_message_size: 10,
            offered_capabilities: None,
            desired_capabilities: None,
            flow_state,
            unsettled: Arc::new(parking_lot::RwLock::new(None)),
            session_stop_reason: Arc::new(OnceLock::new()),
            verify_incoming_source: false,
            verify_incoming_target: false,
        };
        let (tx, mut rx) = mpsc::channel(8);
        let transfer = Transfer {
            handle: 0.into(),
            delivery_id: None,
            delivery_tag: Some(DeliveryTag::from(vec![0u8, 0, 0, 1])),
            message_format: Some(0),
            settled: Some(false),
            more: false,
            rcv_settle_mode: None,
            state: None,
            resume: false,
            aborted: false,
            batchable: false,
        };
        let payload = bytes::Bytes::from(vec![7u8; 15]); // 10 < 15 <= 20: exactly two frames
        link.send_transfer_without_modifying_unsettled_map(&tx, transfer, payload).await.unwrap();
        let mut frames = Vec::new();
        while let Ok(f) = rx.try_recv() { frames.push(f); }
        assert_eq!(frames.len(), 2);
        let mut total = 0;
        for (i, f) in frames.iter().enumerate() {
            match f {
                LinkFrame::Transfer { performative, payload, .. } => {
                    total += payload.len();
                    assert_eq!(performative.more, i == 0);
                    assert_eq!(performative.delivery_tag.is_some(), i == 0, "frame {} delivery_tag", i);
                }
                _ => panic!("unexpected frame"),
            }
        }
        assert_eq!(total, 15);
    }
}
