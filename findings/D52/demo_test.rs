// append-to: new module at end of fe2o3-amqp/src/acceptor/connection.rs
// run: hunt_c11_duplicate_identifiers --features acceptor
#[cfg(test)]
mod hunt_c11_duplicate_identifiers {
    //! C11: "At any moment no two attached links of a session share a handle, no two sessions
    //! of a connection share a channel ... Every incoming frame reaches the link or session
    //! that the peer's handle or channel designates and no other."
    //!
    //! The routing tables keyed by the peer's identifiers (`link_by_input_handle`,
    //! `session_by_incoming_channel`) are written with a plain `insert`. A peer that names a
    //! handle / channel which is still held by an attached link / a mapped session is not
    //! refused (handle-in-use / a connection error): the new holder silently replaces the old
    //! one, both stay attached / mapped, and everything the peer sends for the first holder
    //! reaches the second one.
    //!
    //! NOTE: all three histories need a peer that breaks the protocol (it reuses an
    //! identifier before it has detached / ended the previous holder).

    use std::time::Duration;

    use fe2o3_amqp_types::{
        definitions::{Handle, ReceiverSettleMode, Role, SenderSettleMode},
        messaging::{Source, Target},
        performatives::{Attach, Begin, Flow, Open},
    };
    use futures_util::{SinkExt, StreamExt};
    use tokio::io::{AsyncReadExt, AsyncWriteExt, DuplexStream};

    use crate::{
        acceptor::{ConnectionAcceptor, LinkAcceptor, LinkEndpoint, SessionAcceptor},
        connection::Connection,
        frames::amqp::{Frame, FrameBody},
        session::Session,
        transport::Transport,
        Sender,
    };

    type Peer = Transport<DuplexStream, Frame>;

    async fn next_frame(peer: &mut Peer) -> Frame {
        loop {
            let frame = tokio::time::timeout(Duration::from_secs(5), peer.next())
                .await
                .expect("scripted peer: timed out waiting for a frame")
                .expect("scripted peer: stream ended")
                .expect("scripted peer: decode error");
            if !matches!(frame.body, FrameBody::Empty) {
                return frame;
            }
        }
    }

    fn peer_open_frame() -> Frame {
        let open = Open {
            container_id: "scripted-peer".to_string(),
            hostname: None,
            max_frame_size: 65536.into(),
            channel_max: 100.into(),
            idle_time_out: None,
            outgoing_locales: None,
            incoming_locales: None,
            offered_capabilities: None,
            desired_capabilities: None,
            properties: None,
        };
        Frame::new(0u16, FrameBody::Open(open))
    }

    fn begin(remote_channel: Option<u16>) -> Begin {
        Begin {
            remote_channel,
            next_outgoing_id: 0,
            incoming_window: 1000,
            outgoing_window: 1000,
            handle_max: Handle(u32::MAX),
            offered_capabilities: None,
            desired_capabilities: None,
            properties: None,
        }
    }

    /// scripted peer in the role of the listener: header + open exchange
    async fn peer_open_as_listener(mut io: DuplexStream) -> Peer {
        let mut header = [0u8; 8];
        io.read_exact(&mut header).await.unwrap();
        io.write_all(b"AMQP\x00\x01\x00\x00").await.unwrap();
        let mut peer: Peer = Transport::bind(io, 65536, None);
        assert!(matches!(next_frame(&mut peer).await.body, FrameBody::Open(_)));
        peer.send(peer_open_frame()).await.unwrap();
        peer
    }

    /// scripted peer in the role of the client: header + open exchange
    async fn peer_open_as_client(mut io: DuplexStream) -> Peer {
        io.write_all(b"AMQP\x00\x01\x00\x00").await.unwrap();
        let mut header = [0u8; 8];
        io.read_exact(&mut header).await.unwrap();
        let mut peer: Peer = Transport::bind(io, 65536, None);
        peer.send(peer_open_frame()).await.unwrap();
        assert!(matches!(next_frame(&mut peer).await.body, FrameBody::Open(_)));
        peer
    }

    /// an Attach of a sending link initiated by the scripted peer
    fn peer_sender_attach(name: &str, handle: u32) -> Attach {
        Attach {
            name: name.to_string(),
            handle: Handle(handle),
            role: Role::Sender,
            snd_settle_mode: SenderSettleMode::Mixed,
            rcv_settle_mode: ReceiverSettleMode::First,
            source: Some(Box::new(Source::builder().address("src").build())),
            target: Some(Box::new(Target::builder().address("q").build().into())),
            unsettled: None,
            incomplete_unsettled: false,
            initial_delivery_count: Some(0),
            max_message_size: None,
            offered_capabilities: None,
            desired_capabilities: None,
            properties: None,
        }
    }

    /// client session, the peer answers the attach of a second link with the handle it has
    /// already given to the first link
    #[tokio::test]
    async fn client_refuses_attach_answer_on_a_peer_handle_in_use() {
        let (client_io, peer_io) = tokio::io::duplex(1 << 16);
        let peer_task = tokio::spawn(async move {
            let mut peer = peer_open_as_listener(peer_io).await;
            let frame = next_frame(&mut peer).await;
            assert!(matches!(frame.body, FrameBody::Begin(_)));
            peer.send(Frame::new(0u16, FrameBody::Begin(begin(Some(frame.channel)))))
                .await
                .unwrap();
            for _ in 0..2 {
                let attach = match next_frame(&mut peer).await.body {
                    FrameBody::Attach(attach) => attach,
                    other => panic!("scripted peer: expected Attach, got {:?}", other),
                };
                let mut answer = attach.clone();
                answer.handle = Handle(5); // the same handle for both links
                answer.role = Role::Receiver;
                answer.initial_delivery_count = None;
                peer.send(Frame::new(0u16, FrameBody::Attach(answer)))
                    .await
                    .unwrap();
            }
            // one credit for the holder of handle 5
            let flow = Flow {
                next_incoming_id: Some(0),
                incoming_window: 1000,
                next_outgoing_id: 0,
                outgoing_window: 1000,
                handle: Some(Handle(5)),
                delivery_count: Some(0),
                link_credit: Some(1),
                available: None,
                drain: false,
                echo: false,
                properties: None,
            };
            peer.send(Frame::new(0u16, FrameBody::Flow(flow))).await.unwrap();
            // keep the connection alive
            while let Ok(Some(Ok(_))) =
                tokio::time::timeout(Duration::from_secs(2), peer.next()).await
            {}
        });

        let mut connection = Connection::builder()
            .container_id("hunt-client")
            .open_with_stream(client_io)
            .await
            .expect("open");
        let mut session = Session::begin(&mut connection).await.expect("begin");
        let _sender_a = Sender::attach(&mut session, "a", "q").await.expect("attach a");
        let sender_b = Sender::attach(&mut session, "b", "q").await;
        assert!(
            sender_b.is_err(),
            "C11: link \"b\" became attached under peer handle 5 while link \"a\" is still \
             attached under peer handle 5; the duplicate was not refused (handle-in-use)"
        );
        peer_task.abort();
    }

    /// listener session, the peer attaches a second link under the handle of its first link
    #[tokio::test]
    async fn listener_refuses_attach_on_a_peer_handle_in_use() {
        let (peer_io, server_io) = tokio::io::duplex(1 << 16);
        let peer_task = tokio::spawn(async move {
            let mut peer = peer_open_as_client(peer_io).await;
            peer.send(Frame::new(0u16, FrameBody::Begin(begin(None))))
                .await
                .unwrap();
            assert!(matches!(next_frame(&mut peer).await.body, FrameBody::Begin(_)));
            peer.send(Frame::new(
                0u16,
                FrameBody::Attach(peer_sender_attach("a", 0)),
            ))
            .await
            .unwrap();
            peer.send(Frame::new(
                0u16,
                FrameBody::Attach(peer_sender_attach("b", 0)), // the same handle again
            ))
            .await
            .unwrap();
            while let Ok(Some(Ok(_))) =
                tokio::time::timeout(Duration::from_secs(2), peer.next()).await
            {}
        });

        let acceptor = ConnectionAcceptor::new("hunt-listener");
        let mut connection = acceptor.accept(server_io).await.expect("accept connection");
        let mut session = SessionAcceptor::new()
            .accept(&mut connection)
            .await
            .expect("accept session");
        let link_acceptor = LinkAcceptor::new();
        let first = link_acceptor.accept(&mut session).await;
        assert!(matches!(first, Ok(LinkEndpoint::Receiver(_))), "accept a");
        let second =
            tokio::time::timeout(Duration::from_secs(1), link_acceptor.accept(&mut session)).await;
        assert!(
            !matches!(second, Ok(Ok(_))),
            "C11: link \"b\" became attached under peer handle 0 while link \"a\" is still \
             attached under peer handle 0; the duplicate was not refused (handle-in-use)"
        );
        peer_task.abort();
    }

    /// listener connection, the peer begins a second session on the channel of its first one
    #[tokio::test]
    async fn listener_refuses_begin_on_a_peer_channel_in_use() {
        let (peer_io, server_io) = tokio::io::duplex(1 << 16);
        let peer_task = tokio::spawn(async move {
            let mut peer = peer_open_as_client(peer_io).await;
            peer.send(Frame::new(3u16, FrameBody::Begin(begin(None))))
                .await
                .unwrap();
            assert!(matches!(next_frame(&mut peer).await.body, FrameBody::Begin(_)));
            // the first session is mapped; begin again on the same channel
            peer.send(Frame::new(3u16, FrameBody::Begin(begin(None))))
                .await
                .unwrap();
            while let Ok(Some(Ok(_))) =
                tokio::time::timeout(Duration::from_secs(2), peer.next()).await
            {}
        });

        let acceptor = ConnectionAcceptor::new("hunt-listener");
        let mut connection = acceptor.accept(server_io).await.expect("accept connection");
        let session_acceptor = SessionAcceptor::new();
        let _first = session_acceptor
            .accept(&mut connection)
            .await
            .expect("accept first session");
        let second = tokio::time::timeout(
            Duration::from_secs(1),
            session_acceptor.accept(&mut connection),
        )
        .await;
        assert!(
            !matches!(second, Ok(Ok(_))),
            "C11: a second session became mapped on peer channel 3 while the first session is \
             still mapped on peer channel 3; the duplicate Begin was not refused"
        );
        peer_task.abort();
    }
}
