// append-to: new module at end of fe2o3-amqp/src/session/mod.rs
// run: hunt_c02_f1
//
// Finding 1: a disposition whose range first..last wraps around 2^32 (first = 0xFFFF_FFFF,
// last = 0) is a legal RFC-1982 range covering two deliveries, but
// `Session::on_incoming_disposition` iterates `first..=last` as plain integers, which is an
// empty range: neither send is ever resolved.
#[cfg(test)]
mod hunt_c02_f1 {
    #![allow(dead_code, unused_imports)]
    // ---------------------------------------------------------------------------------------
    // A scripted AMQP peer speaking the wire protocol over `tokio::io::duplex`, and a real
    // fe2o3-amqp client connection/session on the other end.
    // ---------------------------------------------------------------------------------------
    use std::time::Duration;

    use fe2o3_amqp_types::{
        definitions::{Handle, ReceiverSettleMode, Role, SenderSettleMode},
        messaging::{Accepted, DeliveryState, Released},
        performatives::{Attach, Begin, Detach, Disposition, Flow, Open, Transfer},
    };
    use futures_util::{SinkExt, StreamExt};
    use tokio::io::{AsyncReadExt, AsyncWriteExt, DuplexStream};

    use crate::{
        connection::{Connection, ConnectionHandle},
        frames::amqp::{Frame, FrameBody},
        session::{Session, SessionHandle},
        transport::Transport,
    };

    const STEP: Duration = Duration::from_secs(5);

    struct Peer {
        t: Transport<DuplexStream, Frame>,
    }

    impl Peer {
        /// Protocol header + open
        async fn accept(mut io: DuplexStream) -> Self {
            let mut hdr = [0u8; 8];
            io.read_exact(&mut hdr).await.unwrap();
            assert_eq!(&hdr, b"AMQP\x00\x01\x00\x00");
            io.write_all(&hdr).await.unwrap();
            let t = Transport::<DuplexStream, Frame>::bind(io, 64 * 1024, None);
            let mut peer = Peer { t };
            match peer.recv().await {
                FrameBody::Open(_) => {}
                other => panic!("expected open, got {:?}", other),
            }
            peer.send(FrameBody::Open(Open {
                container_id: "scripted-peer".into(),
                hostname: None,
                max_frame_size: (64 * 1024u32).into(),
                channel_max: 16u16.into(),
                idle_time_out: None,
                outgoing_locales: None,
                incoming_locales: None,
                offered_capabilities: None,
                desired_capabilities: None,
                properties: None,
            }))
            .await;
            peer
        }

        async fn send(&mut self, body: FrameBody) {
            self.t.send(Frame::new(0u16, body)).await.unwrap();
        }

        /// Next non-empty frame
        async fn recv(&mut self) -> FrameBody {
            loop {
                let frame = tokio::time::timeout(STEP, self.t.next())
                    .await
                    .expect("peer: timed out waiting for a frame")
                    .expect("peer: stream ended")
                    .expect("peer: transport error");
                match frame.into_body() {
                    FrameBody::Empty => continue,
                    body => return body,
                }
            }
        }

        /// Answer the client's begin. `next_outgoing_id` is the first delivery-id the PEER
        /// would use for its own transfers
        async fn begin(&mut self, next_outgoing_id: u32) -> Begin {
            let begin = match self.recv().await {
                FrameBody::Begin(b) => b,
                other => panic!("expected begin, got {:?}", other),
            };
            self.send(FrameBody::Begin(Begin {
                remote_channel: Some(0),
                next_outgoing_id,
                incoming_window: 100_000,
                outgoing_window: 100_000,
                handle_max: Default::default(),
                offered_capabilities: None,
                desired_capabilities: None,
                properties: None,
            }))
            .await;
            begin
        }

        /// Answer the attach of a client SENDER link: the peer is the receiving end
        async fn attach_as_receiver(
            &mut self,
            handle: u32,
            rcv_settle_mode: ReceiverSettleMode,
            max_message_size: Option<u64>,
        ) -> Attach {
            let attach = match self.recv().await {
                FrameBody::Attach(a) => a,
                other => panic!("expected attach, got {:?}", other),
            };
            assert_eq!(attach.role, Role::Sender);
            self.send(FrameBody::Attach(Attach {
                name: attach.name.clone(),
                handle: Handle(handle),
                role: Role::Receiver,
                snd_settle_mode: attach.snd_settle_mode.clone(),
                rcv_settle_mode,
                source: attach.source.clone(),
                target: attach.target.clone(),
                unsettled: None,
                incomplete_unsettled: false,
                initial_delivery_count: None,
                max_message_size,
                offered_capabilities: None,
                desired_capabilities: None,
                properties: None,
            }))
            .await;
            attach
        }

        /// Grant link credit to the client's sender. `next_incoming_id` is the transfer-id the
        /// peer expects next from the client
        async fn grant_credit(&mut self, handle: u32, next_incoming_id: u32, credit: u32) {
            self.send(FrameBody::Flow(Flow {
                next_incoming_id: Some(next_incoming_id),
                incoming_window: 100_000,
                next_outgoing_id: 0,
                outgoing_window: 100_000,
                handle: Some(Handle(handle)),
                delivery_count: Some(0),
                link_credit: Some(credit),
                available: None,
                drain: false,
                echo: false,
                properties: None,
            }))
            .await;
        }

        async fn recv_transfer(&mut self) -> Transfer {
            match self.recv().await {
                FrameBody::Transfer { performative, .. } => performative,
                other => panic!("expected transfer, got {:?}", other),
            }
        }

        async fn dispose(
            &mut self,
            first: u32,
            last: Option<u32>,
            settled: bool,
            state: DeliveryState,
        ) {
            self.send(FrameBody::Disposition(Disposition {
                role: Role::Receiver,
                first,
                last,
                settled,
                state: Some(state),
                batchable: false,
            }))
            .await;
        }

        /// Answer the attach of a client RECEIVER link: the peer is the sending end
        async fn attach_as_sender(&mut self, handle: u32, snd_settle_mode: SenderSettleMode) -> Attach {
            let attach = match self.recv().await {
                FrameBody::Attach(a) => a,
                other => panic!("expected attach, got {:?}", other),
            };
            assert_eq!(attach.role, Role::Receiver);
            self.send(FrameBody::Attach(Attach {
                name: attach.name.clone(),
                handle: Handle(handle),
                role: Role::Sender,
                snd_settle_mode,
                rcv_settle_mode: attach.rcv_settle_mode.clone(),
                source: attach.source.clone(),
                target: attach.target.clone(),
                unsettled: None,
                incomplete_unsettled: false,
                initial_delivery_count: Some(0),
                max_message_size: None,
                offered_capabilities: None,
                desired_capabilities: None,
                properties: None,
            }))
            .await;
            attach
        }

        async fn recv_flow(&mut self) -> Flow {
            match self.recv().await {
                FrameBody::Flow(f) => f,
                other => panic!("expected flow, got {:?}", other),
            }
        }

        async fn recv_disposition(&mut self) -> Disposition {
            match self.recv().await {
                FrameBody::Disposition(d) => d,
                other => panic!("expected disposition, got {:?}", other),
            }
        }

        /// One transfer frame of a delivery sent by the peer
        #[allow(clippy::too_many_arguments)]
        async fn transfer(
            &mut self,
            handle: u32,
            delivery_id: Option<u32>,
            delivery_tag: Option<&[u8]>,
            settled: Option<bool>,
            more: bool,
            aborted: bool,
            payload: &[u8],
        ) {
            self.send(FrameBody::Transfer {
                performative: Transfer {
                    handle: Handle(handle),
                    delivery_id,
                    delivery_tag: delivery_tag.map(|t| t.to_vec().into()),
                    message_format: Some(0),
                    settled,
                    more,
                    rcv_settle_mode: None,
                    state: None,
                    resume: false,
                    aborted,
                    batchable: false,
                },
                payload: bytes::Bytes::copy_from_slice(payload),
            })
            .await;
        }
    }

    /// amqp-value section holding the string "x"
    const MSG_X: &[u8] = &[0x00, 0x53, 0x77, 0xa1, 0x01, b'x'];

    async fn client(io: DuplexStream) -> ConnectionHandle<()> {
        Connection::builder()
            .container_id("client")
            .open_with_stream(io)
            .await
            .expect("client open")
    }

    use crate::link::Sender;
    use fe2o3_amqp_types::messaging::Outcome;

    /// `Session::builder().next_outgoing_id(u32::MAX)` is a public configuration: the first
    /// two deliveries get the ids 0xFFFF_FFFF and 0. The peer accepts and settles both with
    /// ONE disposition first=0xFFFF_FFFF last=0.
    #[tokio::test]
    async fn hunt_c02_f1_disposition_range_wrapping_around_2_pow_32() {
        let (cio, pio) = tokio::io::duplex(64 * 1024);
        let peer_task = tokio::spawn(async move {
            let mut peer = Peer::accept(pio).await;
            let begin = peer.begin(0).await;
            assert_eq!(begin.next_outgoing_id, u32::MAX);
            peer.attach_as_receiver(0, ReceiverSettleMode::First, None)
                .await;
            peer.grant_credit(0, u32::MAX, 10).await;
            let t0 = peer.recv_transfer().await;
            assert_eq!(t0.delivery_id, Some(u32::MAX));
            assert_eq!(t0.settled, Some(false));
            let t1 = peer.recv_transfer().await;
            assert_eq!(t1.delivery_id, Some(0));
            assert_eq!(t1.settled, Some(false));
            // one disposition for the two consecutive deliveries 0xFFFF_FFFF, 0
            peer.dispose(
                u32::MAX,
                Some(0),
                true,
                DeliveryState::Accepted(Accepted {}),
            )
            .await;
            peer // keep the transport open
        });

        let mut conn = client(cio).await;
        let mut session = Session::builder()
            .next_outgoing_id(u32::MAX)
            .begin(&mut conn)
            .await
            .unwrap();
        let mut sender = Sender::attach(&mut session, "s", "q").await.unwrap();
        let f0 = sender.send_batchable("m0").await.unwrap();
        let f1 = sender.send_batchable("m1").await.unwrap();
        let _peer = peer_task.await.unwrap();

        let o0 = tokio::time::timeout(Duration::from_secs(2), f0)
            .await
            .expect("send of delivery 0xFFFF_FFFF never completed although the peer accepted+settled it");
        let o1 = tokio::time::timeout(Duration::from_secs(2), f1)
            .await
            .expect("send of delivery 0 never completed although the peer accepted+settled it");
        assert!(matches!(o0, Ok(Outcome::Accepted(_))), "{:?}", o0);
        assert!(matches!(o1, Ok(Outcome::Accepted(_))), "{:?}", o1);
    }

    use crate::link::{delivery::Delivery, Receiver};
    use fe2o3_amqp_types::{definitions::DeliveryTag, primitives::Value};

    fn retained(receiver: &Receiver, tag: &[u8]) -> bool {
        receiver
            .inner
            .link
            .unsettled
            .read()
            .as_ref()
            .map(|m| m.contains_key(&DeliveryTag::from(tag.to_vec())))
            .unwrap_or(false)
    }

    /// Receiving side, rcv-settle-mode=second. The PEER's session starts its ids at
    /// 0xFFFF_FFFF (its choice, announced in begin.next-outgoing-id). Both deliveries are
    /// accepted (unsettled) by the application; the peer settles both with one disposition
    /// first=0xFFFF_FFFF last=0. The receiver must then forget both deliveries.
    #[tokio::test]
    async fn hunt_c02_f1_receiver_settling_echo_wrapping_around_2_pow_32() {
        let (cio, pio) = tokio::io::duplex(64 * 1024);
        let peer_task = tokio::spawn(async move {
            let mut peer = Peer::accept(pio).await;
            peer.begin(u32::MAX).await;
            peer.attach_as_sender(0, SenderSettleMode::Unsettled).await;
            let _flow = peer.recv_flow().await;
            peer.transfer(0, Some(u32::MAX), Some(b"a"), Some(false), false, false, MSG_X)
                .await;
            peer.transfer(0, Some(0), Some(b"b"), Some(false), false, false, MSG_X)
                .await;
            // the receiver's outcome for both (one or two frames, in any order)
            let mut seen = std::collections::BTreeSet::new();
            while seen.len() < 2 {
                let d = peer.recv_disposition().await;
                assert!(!d.settled && d.role == Role::Receiver);
                assert!(matches!(d.state, Some(DeliveryState::Accepted(_))));
                seen.insert(d.first);
                seen.insert(d.last.unwrap_or(d.first));
            }
            assert!(seen.contains(&0) && seen.contains(&u32::MAX));
            // settle both
            peer.send(FrameBody::Disposition(Disposition {
                role: Role::Sender,
                first: u32::MAX,
                last: Some(0),
                settled: true,
                state: Some(DeliveryState::Accepted(Accepted {})),
                batchable: false,
            }))
            .await;
            peer
        });

        let mut conn = client(cio).await;
        let mut session = Session::begin(&mut conn).await.unwrap();
        let mut receiver = Receiver::builder()
            .name("r")
            .source("q")
            .receiver_settle_mode(ReceiverSettleMode::Second)
            .attach(&mut session)
            .await
            .unwrap();
        let d0: Delivery<Value> = tokio::time::timeout(STEP, receiver.recv())
            .await
            .unwrap()
            .unwrap();
        let d1: Delivery<Value> = tokio::time::timeout(STEP, receiver.recv())
            .await
            .unwrap()
            .unwrap();
        assert_eq!((*d0.delivery_id(), *d1.delivery_id()), (u32::MAX, 0));
        receiver.accept_all(vec![&d0, &d1]).await.unwrap();
        let _peer = peer_task.await.unwrap();

        for _ in 0..200 {
            if !retained(&receiver, b"a") && !retained(&receiver, b"b") {
                break;
            }
            tokio::time::sleep(Duration::from_millis(10)).await;
        }
        assert!(
            !retained(&receiver, b"a") && !retained(&receiver, b"b"),
            "2 s after the sender's settling disposition 0xFFFF_FFFF..0 the receiver still holds: a={} b={}",
            retained(&receiver, b"a"),
            retained(&receiver, b"b")
        );
    }
}
