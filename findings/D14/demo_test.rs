    // D14 demonstration (C03/C05): a string inside an Array is encoded with its CHARACTER count in the str32
    // size field instead of its length in bytes, so any non-ASCII string in an array produces an invalid
    // encoding that does not decode back.
    #[test]
    fn d14_array_of_non_ascii_strings_round_trips() {
        use crate::primitives::Array;
        let value: Array<String> = Array(vec![String::from("h\u{e9}llo"), String::from("z")]);
        let buf = crate::to_vec(&value).unwrap();
        // array8/array32 header, then str32 constructor 0xb1, then per element: 4-byte size + bytes
        let pos = buf.iter().position(|b| *b == 0xb1).expect("str32 element constructor");
        let size = u32::from_be_bytes([buf[pos + 1], buf[pos + 2], buf[pos + 3], buf[pos + 4]]) as usize;
        assert_eq!(size, "h\u{e9}llo".len(), "size field of the first element must count bytes ({} bytes), encoded as {:02x?}", "h\u{e9}llo".len(), buf);
        let back: Array<String> = crate::from_slice(&buf).expect("own encoding must decode");
        assert_eq!(back, value);
    }
