    // D18 demonstration (C03, C05; KNOWN FINDING, not repaired): arrays whose elements are described values.
    // The encoder writes `00 <descriptor> <value constructor>` with the first element and then, for every later element,
    // the descriptor's DATA again (without constructor) in front of the value data: not an AMQP array (one constructor,
    // then only element data). For some element types it panics (stale non_native_type => unreachable!() in serialize_i64).
    // The decoder refuses every array with a described element constructor (InvalidFormatCode).
    // Append inside `mod tests` of serde_amqp/src/de.rs; run: cargo test -p serde_amqp --features derive --lib d18_
    #[test]
    fn d18_array_of_described_values_round_trips() {
        use crate::described::Described;
        use crate::descriptor::Descriptor;
        use crate::primitives::Array;
        use crate::value::Value;
        let d = |v: Value| Value::Described(Box::new(Described { descriptor: Descriptor::Code(0x13), value: v }));
        let value = Value::Array(Array::from(vec![d(Value::Int(7)), d(Value::Int(8))]));
        let buf = crate::to_vec(&value).unwrap();
        // AMQP 1.0 part 1, 1.6.24 + 1.2: e0 size count | 00 80 <8-byte code> 71 | 00 00 00 07 | 00 00 00 08
        assert_eq!(buf.len(), 3 + 11 + 4 + 4, "one constructor per array, then element data only; got {:02x?}", buf);
        let back: Value = crate::from_slice(&buf).expect("own encoding must decode");
        assert_eq!(back, value);
    }
    #[test]
    fn d18_array_of_described_long_does_not_panic() {
        use crate::described::Described;
        use crate::descriptor::Descriptor;
        use crate::primitives::{Array, Symbol};
        use crate::value::Value;
        let d = |v: Value| Value::Described(Box::new(Described { descriptor: Descriptor::Name(Symbol::from("a:b")), value: v }));
        let value = Value::Array(Array::from(vec![d(Value::Long(-4)), d(Value::Long(-4))]));
        let _ = crate::to_vec(&value); // panics: internal error: entered unreachable code (ser.rs serialize_i64)
    }
