// append-to: new module at end of fe2o3-amqp/src/acceptor/session.rs
// run: hunt_c07_f1 --features acceptor
#[cfg(test)]
mod hunt_c07_f1 {
    //! C07: "Transfers that must wait for the window are neither dropped, duplicated nor
    //! reordered, and every one of them is sent once the peer reopens the window."
    //!
    //! On the listener side a flow frame that reopens the session window but names a link
    //! handle the application has not accepted yet (attach + flow pipelined by the peer) is
    //! swallowed by `ListenerSession::on_incoming_flow`: the window is recomputed but the
    //! held-back transfers are not released.
    use std::collections::HashMap;
    use std::sync::{Arc, OnceLock};

    use bytes::Bytes;
    use fe2o3_amqp_types::{
        definitions::{DeliveryTag, Handle},
        performatives::{Begin, Flow, Transfer},
        states::SessionState,
    };
    use tokio::sync::mpsc;

    use super::ListenerSession;
    use crate::{
        endpoint::{IncomingChannel, InputHandle, OutgoingChannel, Session as _},
        session::frame::{SessionFrame, SessionFrameBody, SessionOutgoingItem},
    };

    fn transfer(handle: u32, tag: u8) -> Transfer {
        Transfer {
            handle: Handle(handle),
            delivery_id: None,
            delivery_tag: Some(DeliveryTag::from(vec![tag])),
            message_format: Some(0),
            settled: Some(true),
            more: false,
            rcv_settle_mode: None,
            state: None,
            resume: false,
            aborted: false,
            batchable: false,
        }
    }

    fn transfers_in(item: Option<SessionOutgoingItem>) -> Vec<(Option<u32>, Option<DeliveryTag>)> {
        let frames: Vec<SessionFrame> = match item {
            None => vec![],
            Some(SessionOutgoingItem::SingleFrame(f)) => vec![f],
            Some(SessionOutgoingItem::MultipleFrames(fs)) => fs,
        };
        frames
            .into_iter()
            .filter_map(|f| match f.body {
                SessionFrameBody::Transfer { performative, .. } => {
                    Some((performative.delivery_id, performative.delivery_tag))
                }
                _ => None,
            })
            .collect()
    }

    #[tokio::test]
    async fn flow_for_not_yet_accepted_link_reopens_window_but_parked_transfers_stay() {
        // A listener session whose peer advertised incoming-window = 1 in its begin
        let mut session = crate::session::Builder::new().into_session(
            OutgoingChannel(0),
            SessionState::BeginSent,
            Arc::new(OnceLock::new()),
        );
        session
            .on_incoming_begin(
                IncomingChannel(0),
                Begin {
                    remote_channel: Some(0),
                    next_outgoing_id: 0,
                    incoming_window: 1,
                    outgoing_window: 100,
                    handle_max: Default::default(),
                    offered_capabilities: None,
                    desired_capabilities: None,
                    properties: None,
                },
            )
            .unwrap();
        assert!(matches!(session.local_state, SessionState::Mapped));
        let (link_listener, _link_listener_rx) = mpsc::channel(8);
        let mut listener = ListenerSession {
            session,
            link_listener,
            pending_link_flows: HashMap::new(),
        };

        // A local sender link (handle 0) sends two single-frame deliveries.
        // The first fits the window, the second has to wait.
        let first = listener
            .on_outgoing_transfer(InputHandle(0), transfer(0, 1), Bytes::from_static(b"one"))
            .unwrap();
        assert_eq!(transfers_in(first).len(), 1);
        let second = listener
            .on_outgoing_transfer(InputHandle(0), transfer(0, 2), Bytes::from_static(b"two"))
            .unwrap();
        assert!(second.is_none(), "second transfer is held back by the window");
        assert_eq!(listener.session.remote_incoming_window_exhausted_buffer.len(), 1);

        // The peer has meanwhile attached another link (remote handle 7) that the application
        // has not accepted yet, and sends that link's flow. The flow carries the peer's session
        // state: it has taken transfer 0 and reopens the window to 10.
        let flow = Flow {
            next_incoming_id: Some(1),
            incoming_window: 10,
            next_outgoing_id: 0,
            outgoing_window: 100,
            handle: Some(Handle(7)),
            delivery_count: Some(0),
            link_credit: Some(5),
            available: None,
            drain: false,
            echo: false,
            properties: None,
        };
        let answer = listener.on_incoming_flow(flow).await.unwrap();

        // The window the endpoint believes in is open again ...
        assert!(listener.session.remote_incoming_window >= 9); // (10 before the held-back transfer is released, 9 after; the original demo asserted == 10 here, which a correct repair cannot satisfy)
        // ... so the held-back transfer must go out now (property: "every one of them is sent
        // once the peer reopens the window").
        let sent = transfers_in(answer);
        assert_eq!(
            sent,
            vec![(Some(1), Some(DeliveryTag::from(vec![2u8])))],
            "held-back transfer was not sent although the peer reopened the window \
             (still parked: {}, remote_incoming_window: {})",
            listener.session.remote_incoming_window_exhausted_buffer.len(),
            listener.session.remote_incoming_window,
        );
    }
}
