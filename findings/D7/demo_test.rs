    // D7 demonstration (C03/C05): an array whose elements have zero-width encodings (null) keeps a short
    // byte length however many elements it has, so the 8-bit array form is chosen by byte length alone and the
    // element count is truncated to 8 bits.
    #[test]
    fn d7_array_of_300_nulls_round_trips() {
        use crate::primitives::Array;
        let value: Array<()> = Array::from(vec![(); 300]);
        let buf = crate::ser::to_vec(&value).unwrap();
        let back: Array<()> = crate::de::from_slice(&buf).unwrap();
        assert_eq!(back.0.len(), 300, "encoded as {:02x?}", buf);
    }
