    // D4 demonstration (C04): compound headers whose size field is smaller than the bytes the header itself
    // occupies. Decoding must return an error; with overflow checks on (debug builds, the test profile) the
    // unfixed decoder panics with "attempt to subtract with overflow".
    #[test]
    fn d4_undersized_compound_size_fields_are_errors_not_panics() {
        use crate::primitives::Array;
        use std::collections::BTreeMap;
        let cases: Vec<(&str, Vec<u8>)> = vec![
            ("list8 size 0", vec![0xc0, 0x00, 0x00]),
            ("list32 size 3", vec![0xd0, 0, 0, 0, 3, 0, 0, 0, 0]),
            ("map8 size 0", vec![0xc1, 0x00, 0x00]),
            ("map32 size 2", vec![0xd1, 0, 0, 0, 2, 0, 0, 0, 0]),
            ("map8 odd count 1", vec![0xc1, 0x03, 0x01, 0x50, 0x01]),
            ("map8 odd count 3", vec![0xc1, 0x07, 0x03, 0x50, 0x01, 0x50, 0x02, 0x50, 0x03]),
            ("array8 size 1 count 1", vec![0xe0, 0x01, 0x01, 0x50, 0x07]),
            ("array32 size 4 count 1", vec![0xf0, 0, 0, 0, 4, 0, 0, 0, 1, 0x50, 0x07]),
        ];
        for (name, bytes) in cases {
            let b = bytes.clone();
            let r = std::panic::catch_unwind(move || {
                let _ = from_slice::<Vec<u8>>(&b);
                let _ = from_slice::<(u8,)>(&b);
                let _ = from_slice::<BTreeMap<u8, u8>>(&b);
                let _ = from_slice::<Array<u8>>(&b);
                let _ = from_slice::<crate::Value>(&b);
            });
            assert!(r.is_ok(), "{}: decoder panicked on {:02x?}", name, bytes);
        }
    }
