// append-to: fe2o3-amqp/tests/link_stop_reason.rs
// run: cargo test -p fe2o3-amqp --offline --features acceptor --test link_stop_reason pending_unsettled_send_fails_when_connection_stops
// on cd83d0e (before the fix 56d2fb5): panics with `send() hangs: ...` after the 5 s time-out; on 56d2fb5: passes, the send fails with
// LinkStateError(SessionStopped(ConnectionStopped(RemoteClosedWithError(..))))

/// C14: an UNSETTLED send whose transfer has been written and whose outcome has not arrived must fail (not hang)
/// when the peer closes the connection.
#[tokio::test]
async fn pending_unsettled_send_fails_when_connection_stops() {
    let (mut server_connection, mut client_connection) = establish_connection_pair().await;
    let (mut client_session, mut listener_session) =
        establish_session_pair(&mut server_connection, &mut client_connection).await;

    // the listener's receiver is kept (credit granted) but never calls recv(): no disposition is ever sent
    let link_acceptor = LinkAcceptor::new();
    let (link_result, attach_result) = tokio::join!(
        link_acceptor.accept(&mut listener_session),
        Sender::builder()
            .name("pending-send")
            .source(Source::builder().build())
            .target(Target::builder().build())
            .attach(&mut client_session),
    );
    let _server_receiver = link_result.expect("link accept failed");
    let mut sender = attach_result.expect("sender attach failed");

    let closer = tokio::spawn(async move {
        tokio::time::sleep(Duration::from_millis(300)).await;
        // the peer closes the connection while the send waits for its outcome
        let _ = server_connection.close_with_error(test_error()).await;
        (server_connection, listener_session, _server_receiver)
    });

    let result = tokio::time::timeout(Duration::from_secs(5), sender.send("hello")).await;
    let _keep = closer.await;
    match result {
        Err(_elapsed) => panic!("send() hangs: the connection stopped 4.7 s ago and the pending send was neither resolved nor failed"),
        Ok(Ok(outcome)) => panic!("unexpected outcome {:?}", outcome),
        Ok(Err(e)) => println!("send failed as it should: {:?}", e),
    }
}
