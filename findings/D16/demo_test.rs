    // D16 demonstration (C12): `try_close()` is documented to be called again while the peer's Close has not
    // arrived (it returns RemoteCloseNotReceived and leaves the handle open). Every call queues another
    // ConnectionControl::Close; Connection::send_close wrote the Close frame BEFORE looking at the state, so the
    // second request put a second Close on the wire. The endpoint must send at most one close.
    mod d16_demo {
        use std::time::Duration;

        use fe2o3_amqp_types::performatives::Open;
        use futures_util::{SinkExt, StreamExt};
        use tokio::io::{AsyncReadExt, AsyncWriteExt, DuplexStream};

        use crate::connection::Connection;
        use crate::frames::amqp::{Frame, FrameBody};
        use crate::transport::Transport;

        async fn peer_open(mut io: DuplexStream) -> Transport<DuplexStream, Frame> {
            let mut hdr = [0u8; 8];
            io.read_exact(&mut hdr).await.unwrap();
            io.write_all(&hdr).await.unwrap();
            let mut transport = Transport::<_, Frame>::bind(io, 65536, None);
            let first = transport.next().await.unwrap().unwrap();
            assert!(matches!(first.body, FrameBody::Open(_)));
            let open = Open {
                container_id: "peer".to_string(),
                hostname: None,
                max_frame_size: Default::default(),
                channel_max: Default::default(),
                idle_time_out: None,
                outgoing_locales: None,
                incoming_locales: None,
                offered_capabilities: None,
                desired_capabilities: None,
                properties: None,
            };
            transport.send(Frame::new(0u16, FrameBody::Open(open))).await.unwrap();
            transport
        }

        #[tokio::test(flavor = "current_thread")]
        async fn d16_polling_try_close_sends_one_close() {
            let (client_io, peer_io) = tokio::io::duplex(1 << 16);
            let peer = tokio::spawn(peer_open(peer_io));
            let mut handle = Connection::builder()
                .container_id("d16")
                .open_with_stream(client_io)
                .await
                .unwrap();
            let mut peer = peer.await.unwrap();

            // the application polls try_close while the peer is slow to answer
            for _ in 0..3 {
                let _ = handle.try_close();
                tokio::time::sleep(Duration::from_millis(20)).await;
            }

            // what the peer sees before it answers
            let mut closes = 0;
            while let Ok(Some(Ok(frame))) =
                tokio::time::timeout(Duration::from_millis(100), peer.next()).await
            {
                if matches!(frame.body, FrameBody::Close(_)) {
                    closes += 1;
                }
            }
            assert_eq!(closes, 1, "the endpoint sent {} close frames", closes);
        }
    }
