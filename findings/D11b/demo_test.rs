    // D11b demonstration (C04): a 60 KiB input of nested list8 headers drives the Value decoder into unbounded
    // recursion; with the default 2 MiB test-thread stack the process dies with SIGSEGV/SIGABRT (stack overflow)
    // instead of returning an error.
    #[test]
    fn d11b_deeply_nested_lists_do_not_overflow_the_stack() {
        // list32 [ list32 [ list32 [ ... ] ] ] : each level is d0 <size:4> <count:4 = 1>
        let depth = 20_000usize;
        let mut buf: Vec<u8> = Vec::new();
        // build from the inside out
        let mut inner: Vec<u8> = vec![0x45]; // list0
        for _ in 0..depth {
            let mut lvl = vec![0xd0];
            lvl.extend_from_slice(&((inner.len() as u32 + 4).to_be_bytes()));
            lvl.extend_from_slice(&1u32.to_be_bytes());
            lvl.extend_from_slice(&inner);
            inner = lvl;
            if inner.len() > 400_000 { break; }
        }
        buf.extend_from_slice(&inner);
        let r: Result<crate::Value, _> = crate::from_slice(&buf);
        // either Ok or Err is fine; reaching this line at all is the point
        let _ = r.is_ok();
    }
