    // D9 demonstration (C06): a performative other than transfer cannot be continued in another frame. When its
    // encoding exceeds the max-frame-size, Transport::start_send cut the encoded bytes every max-frame-size bytes
    // and wrote each piece as a frame of its own: the peer receives a truncated Open followed by "frames" made of
    // the middle of a string. The endpoint must not write such bytes (the send has to fail locally).
    mod d9_demo {
        use fe2o3_amqp_types::performatives::Open;
        use futures_util::{SinkExt, StreamExt};

        use crate::frames::amqp::{Frame, FrameBody};
        use crate::transport::Transport;

        #[tokio::test(flavor = "current_thread")]
        async fn d9_oversize_open_is_not_written_as_pseudo_frames() {
            let (a, b) = tokio::io::duplex(1 << 16);
            let mut sender = Transport::<_, Frame>::bind(a, 512, None);
            let mut peer = Transport::<_, Frame>::bind(b, 512, None);
            let open = Open {
                container_id: "c".repeat(2000),
                hostname: None,
                max_frame_size: Default::default(),
                channel_max: Default::default(),
                idle_time_out: None,
                outgoing_locales: None,
                incoming_locales: None,
                offered_capabilities: None,
                desired_capabilities: None,
                properties: None,
            };
            let sent = sender.send(Frame::new(0u16, FrameBody::Open(open))).await;
            drop(sender);
            // everything the peer can read must be a well-formed frame
            let mut garbage = Vec::new();
            while let Some(item) = peer.next().await {
                match item {
                    Ok(frame) => {
                        if !matches!(frame.body, FrameBody::Empty) {
                            garbage.push(format!("{:?}", frame.body).chars().take(40).collect::<String>());
                        }
                    }
                    Err(e) => { garbage.push(format!("decode error: {:?}", e).chars().take(80).collect::<String>()); break; }
                }
            }
            assert!(sent.is_err() && garbage.is_empty(),
                "send returned {:?}; the peer read {:?}", sent.map_err(|e| format!("{:?}", e)), garbage);
        }
    }
