// append-to: new module at end of fe2o3-amqp/src/link/receiver.rs
// run: c10_finding_2
//
// C10 finding 2: a contradictory continuation frame is reported as an error, but the partially
// received delivery is kept, and the next continuation frame is appended to it; the application
// is then handed a SPLICED message as a perfectly valid delivery on its next `recv`.
#[cfg(test)]
mod c10_finding_2 {
    use super::*;
    use crate::endpoint::{InputHandle, OutputHandle};
    use crate::link::state::{LinkFlowState, LinkFlowStateInner, LinkState};
    use bytes::Bytes;
    use fe2o3_amqp_types::messaging::{
        message::__private::Serializable, AmqpValue, Batch, Body, Data, Message,
    };
    use fe2o3_amqp_types::primitives::{Binary, Value};
    use serde_amqp::to_vec;
    use std::marker::PhantomData;
    use std::time::Duration;

    /// A receiving link endpoint in the Attached state with `credit` link credit. Frames pushed
    /// into `in_tx` are exactly what the session's `LinkRelay` would forward to the link, and
    /// `inner.recv()` is exactly what `Receiver::recv` calls.
    struct Harness {
        inner: ReceiverInner<ReceiverLink<Target>>,
        in_tx: mpsc::Sender<LinkFrame>,
        _out_rx: mpsc::Receiver<LinkFrame>,
        _ctrl_rx: mpsc::Receiver<SessionControl>,
    }

    fn harness(credit: u32) -> Harness {
        let flow_state: ReceiverFlowState = Arc::new(LinkFlowState::receiver(LinkFlowStateInner {
            initial_delivery_count: 0,
            delivery_count: 0,
            link_credit: credit,
            available: 0,
            drain: false,
            properties: None,
        }));
        let link: ReceiverLink<Target> = crate::link::Link {
            role: PhantomData,
            local_state: LinkState::Attached,
            name: "l".into(),
            output_handle: Some(OutputHandle(0)),
            input_handle: Some(InputHandle(0)),
            snd_settle_mode: Default::default(),
            rcv_settle_mode: ReceiverSettleMode::First,
            source: None,
            target: None,
            max_message_size: 0,
            offered_capabilities: None,
            desired_capabilities: None,
            flow_state,
            unsettled: Arc::new(parking_lot::RwLock::new(None)),
            session_stop_reason: Arc::new(OnceLock::new()),
            verify_incoming_source: false,
            verify_incoming_target: false,
        };
        let (in_tx, in_rx) = mpsc::channel(1024);
        let (out_tx, out_rx) = mpsc::channel(1024);
        let (ctrl_tx, ctrl_rx) = mpsc::channel(1024);
        let inner = ReceiverInner {
            link,
            buffer_size: 1024,
            credit_mode: CreditMode::Manual,
            processed: Arc::new(AtomicU32::new(0)),
            auto_accept: false,
            session: ctrl_tx,
            outgoing: out_tx,
            incoming: in_rx,
            incomplete_transfer: None,
        };
        Harness {
            inner,
            in_tx,
            _out_rx: out_rx,
            _ctrl_rx: ctrl_rx,
        }
    }

    /// First (or only) transfer frame of a delivery
    fn first(id: u32, tag: &[u8], more: bool) -> Transfer {
        Transfer {
            handle: Handle(0),
            delivery_id: Some(id),
            delivery_tag: Some(DeliveryTag::from(tag.to_vec())),
            message_format: Some(0),
            settled: None,
            more,
            rcv_settle_mode: None,
            state: None,
            resume: false,
            aborted: false,
            batchable: false,
        }
    }

    /// Continuation transfer frame that omits delivery-id, delivery-tag and message-format
    fn cont(more: bool) -> Transfer {
        Transfer {
            handle: Handle(0),
            delivery_id: None,
            delivery_tag: None,
            message_format: None,
            settled: None,
            more,
            rcv_settle_mode: None,
            state: None,
            resume: false,
            aborted: false,
            batchable: false,
        }
    }

    async fn push(h: &Harness, performative: Transfer, payload: Bytes) {
        h.in_tx
            .send(LinkFrame::Transfer {
                input_handle: InputHandle(0),
                performative,
                payload,
            })
            .await
            .unwrap();
    }

    /// `Receiver::recv` with a deadline: `None` means "nothing was handed to the application"
    async fn recv_within<T>(h: &mut Harness) -> Option<Result<Delivery<T>, RecvError>>
    where
        for<'de> T: FromBody<'de> + Send,
    {
        tokio::time::timeout(Duration::from_millis(200), h.inner.recv::<T>())
            .await
            .ok()
    }

    fn string_message(s: &str) -> Bytes {
        Bytes::from(
            to_vec(&Serializable(Message::<Body<Value>>::from(Body::Value(
                AmqpValue(Value::String(s.to_string())),
            ))))
            .unwrap(),
        )
    }

    #[allow(dead_code)]
    fn data_message(sections: &[&[u8]]) -> Bytes {
        let batch = Batch::new(
            sections
                .iter()
                .map(|s| Data(Binary::from(s.to_vec())))
                .collect::<Vec<_>>(),
        );
        Bytes::from(to_vec(&Serializable(Message::<Body<Value>>::from(Body::Data(batch)))).unwrap())
    }

    /// One delivery of three Data sections sent in three frames; the middle frame carries a
    /// contradictory message-format. Expected: an error and no message. Observed: an error,
    /// then a delivery whose body is [section 1, section 3].
    #[tokio::test]
    async fn c10_finding_2_gap_after_contradictory_message_format() {
        let msg = data_message(&[b"first-section", b"second-section", b"third-section"]);
        let one = data_message(&[b"first-section"]).len();
        let two = data_message(&[b"first-section", b"second-section"]).len();

        let mut h = harness(10);
        push(&h, first(7, b"t", true), msg.slice(..one)).await;
        let mut contradictory = cont(true);
        contradictory.message_format = Some(1); // first frame said 0
        push(&h, contradictory, msg.slice(one..two)).await;
        push(&h, cont(false), msg.slice(two..)).await;

        // the contradiction is reported ...
        let r = recv_within::<Body<Value>>(&mut h).await;
        assert!(
            matches!(r, Some(Err(RecvError::InconsistentFieldInMultiFrameDelivery))),
            "expected the contradiction to be reported, got {:?}",
            r.map(|r| r.map(|d| d.message))
        );
        // ... and must not be followed by a spliced message
        let r = recv_within::<Body<Value>>(&mut h).await;
        if let Some(Ok(d)) = &r {
            panic!(
                "a spliced message was handed to the application: delivery-id {} body {:?}",
                d.delivery_id, d.message.body
            );
        }
    }

    /// The peer starts delivery B (new delivery-id and tag) while delivery A is still incomplete.
    /// Expected: an error and neither A nor a mixture. Observed: an error, then delivery-id 0 /
    /// tag "a" with the first half of A followed by the second half of B.
    #[tokio::test]
    async fn c10_finding_2_two_deliveries_spliced() {
        let a = string_message("AAAAAAAAAAAAAAAAAAAA");
        let b = string_message("BBBBBBBBBBBBBBBBBBBB");
        let n = a.len();

        let mut h = harness(10);
        push(&h, first(0, b"a", true), a.slice(..n / 2)).await;
        push(&h, first(1, b"b", true), b.slice(..n / 2)).await; // contradicts delivery-id and tag
        push(&h, cont(false), b.slice(n / 2..)).await;

        let r = recv_within::<Body<Value>>(&mut h).await;
        assert!(
            matches!(r, Some(Err(RecvError::InconsistentFieldInMultiFrameDelivery))),
            "expected the contradiction to be reported, got {:?}",
            r.map(|r| r.map(|d| d.message))
        );
        let r = recv_within::<Body<Value>>(&mut h).await;
        if let Some(Ok(d)) = &r {
            panic!(
                "a spliced message was handed to the application: delivery-id {} tag {:?} body {:?}",
                d.delivery_id, d.delivery_tag, d.message.body
            );
        }
    }
}
