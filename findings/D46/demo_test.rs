// append-to: new module at end of fe2o3-amqp/src/transaction/session.rs
// run: hunt_c18_f3 --features acceptor,transaction
#[cfg(test)]
#[allow(unused_imports, dead_code)]
mod hunt_c18_f3 {
    use std::time::Duration;

    use fe2o3_amqp_types::primitives::Value;
    use tokio::time::timeout;

    use crate::{
        acceptor::{
            ConnectionAcceptor, LinkAcceptor, LinkEndpoint, ListenerConnectionHandle,
            ListenerSessionHandle, SessionAcceptor,
        },
        connection::{Connection, ConnectionHandle},
        session::SessionHandle,
        transaction::{
            coordinator::ControlLinkAcceptor, Controller, Transaction, TransactionDischarge,
            TransactionPosting,
        },
        Receiver, Sender, Session,
    };

    const T: Duration = Duration::from_secs(5);

    async fn setup() -> (
        ConnectionHandle<()>,
        SessionHandle<()>,
        ListenerConnectionHandle,
        ListenerSessionHandle,
    ) {
        let (client_io, server_io) = tokio::io::duplex(64 * 1024);
        let acceptor = ConnectionAcceptor::builder()
            .container_id("hunt-listener")
            .build();
        let connection_task = tokio::spawn(async move { acceptor.accept(server_io).await });
        let mut client_connection = Connection::builder()
            .container_id("hunt-client")
            .open_with_stream(client_io)
            .await
            .unwrap();
        let mut server_connection = connection_task.await.unwrap().unwrap();
        let session_acceptor = SessionAcceptor::builder()
            .control_link_acceptor(ControlLinkAcceptor::default())
            .build();
        let (session_result, begin_result) = tokio::join!(
            session_acceptor.accept(&mut server_connection),
            Session::begin(&mut client_connection),
        );
        (
            client_connection,
            begin_result.unwrap(),
            server_connection,
            session_result.unwrap(),
        )
    }

    /// Attach a client sender and accept the matching listener receiver
    async fn attach_pair(
        client_session: &mut SessionHandle<()>,
        listener_session: &mut ListenerSessionHandle,
        name: &str,
        addr: &str,
    ) -> (Sender, Receiver) {
        let link_acceptor = LinkAcceptor::new();
        let (snd, rcv) = tokio::join!(
            Sender::attach(client_session, name.to_string(), addr.to_string()),
            link_acceptor.accept(listener_session),
        );
        let rcv = match rcv.unwrap() {
            LinkEndpoint::Receiver(r) => r,
            LinkEndpoint::Sender(_) => panic!("expected receiver"),
        };
        (snd.unwrap(), rcv)
    }

    /// Finding 3: a post that is put on the wire AFTER the discharge(commit) of its transaction
    #[tokio::test]
    async fn post_sent_after_discharge_is_applied() {
        use crate::transaction::TransactionBase;
        let (_cc, mut cs, _lc, mut ls) = setup().await;
        let (mut sender, mut receiver) = attach_pair(&mut cs, &mut ls, "l1", "q1").await;
        let controller = Controller::attach(&mut cs, "ctrl").await.unwrap();

        let txn = Transaction::declare(&controller, None).await.unwrap();
        let txn_id = txn.txn_id().clone();
        txn.post(&mut sender, "m1").await.unwrap();

        // Discharge(commit) goes into the session's outgoing queue first ...
        let commit_fut = txn.commit();
        tokio::pin!(commit_fut);
        assert!(futures_util::poll!(commit_fut.as_mut()).is_pending());
        // ... and a post with the same txn-id right behind it
        let sendable = crate::Sendable::builder().message("late").build();
        let late = crate::transaction::post_inner(&txn_id, &mut sender, sendable, true)
            .await
            .unwrap();

        let commit = timeout(T, commit_fut).await.unwrap();
        assert!(commit.is_ok(), "{:?}", commit);
        let late_outcome = timeout(T, late).await;

        let mut got = Vec::new();
        while let Ok(Ok(d)) = timeout(Duration::from_millis(300), receiver.recv::<Value>()).await {
            got.push(d.body().clone());
        }
        assert_eq!(
            got,
            vec![Value::from("m1")],
            "a post that arrived after the discharge was applied (late post outcome: {:?})",
            late_outcome
        );
    }
}
