    // D27 demonstration (C04 / C15: decoding peer bytes never panics): DescribedAccess::next_element_seed (and next_key_seed) did
    // `self.field_count += <count read from the list32 / map32 header>` in u32: a performative whose list header announces
    // 0xFFFFFFFF fields overflows (field_count starts at 1): panic "attempt to add with overflow" in a build with overflow checks,
    // wrap-around to 0 otherwise. 16 bytes from the peer, before any authentication if no SASL layer is configured.
    // (Reported by a seed sub-agent as already present on the unmodified tree.)
    // Append inside `mod tests` of fe2o3-amqp/src/frames/amqp.rs; run: cargo test -p fe2o3-amqp --lib d27_
    #[test]
    fn d27_list32_count_of_a_performative_cannot_overflow_the_field_count() {
        use bytes::BytesMut;
        use tokio_util::codec::Decoder;
        // doff 2, type 0, channel 0 | described: 00 53 10 (open) | list32 size 4 count 0xFFFFFFFF
        let mut src = BytesMut::from(&[0x02u8, 0x00, 0x00, 0x00, 0x00, 0x53, 0x10, 0xd0, 0x00, 0x00, 0x00, 0x04, 0xff, 0xff, 0xff, 0xff][..]);
        let mut decoder = super::FrameDecoder {};
        let result = decoder.decode(&mut src); // must not panic
        assert!(result.is_err(), "a list that announces 2^32 - 1 fields and carries none is malformed: {:?}", result.map(|_| ()));
    }
