// append-to: new module at end of fe2o3-amqp/src/link/mod.rs
// run: c06_resuming_attach_fits_peer_max_frame_size
//
// C06 finding 1: the attach of a resuming link is sized against max-frame-size - 4 although only
// max-frame-size - 8 bytes of performative fit into a frame; an attach that lands in the 4-byte gap
// is refused by Transport::start_send with FramingError (which stops the connection engine).

#[cfg(test)]
mod hunt_c06_attach {
    use std::{
        pin::Pin,
        sync::{Arc, Mutex},
        task::{Context, Poll},
    };

    use fe2o3_amqp_types::messaging::{Accepted, Target};
    use futures_util::SinkExt;
    use serde_bytes::ByteBuf;
    use tokio::io::{AsyncRead, AsyncWrite, ReadBuf};

    use super::{state::LinkFlowStateInner, *};
    use crate::{
        endpoint::OutputHandle,
        frames::amqp::{Frame, FrameBody},
        transport::Transport,
    };

    #[derive(Debug)]
    struct Sink(Arc<Mutex<Vec<u8>>>);
    impl AsyncWrite for Sink {
        fn poll_write(self: Pin<&mut Self>, _: &mut Context<'_>, buf: &[u8]) -> Poll<std::io::Result<usize>> {
            self.0.lock().unwrap().extend_from_slice(buf);
            Poll::Ready(Ok(buf.len()))
        }
        fn poll_flush(self: Pin<&mut Self>, _: &mut Context<'_>) -> Poll<std::io::Result<()>> {
            Poll::Ready(Ok(()))
        }
        fn poll_shutdown(self: Pin<&mut Self>, _: &mut Context<'_>) -> Poll<std::io::Result<()>> {
            Poll::Ready(Ok(()))
        }
    }
    impl AsyncRead for Sink {
        fn poll_read(self: Pin<&mut Self>, _: &mut Context<'_>, _: &mut ReadBuf<'_>) -> Poll<std::io::Result<()>> {
            Poll::Ready(Ok(()))
        }
    }

    fn receiver_link(name_len: usize, unsettled: usize) -> ReceiverLink<Target> {
        let mut map = UnsettledMap::new();
        for i in 0..unsettled as u32 {
            map.insert(
                ByteBuf::from(i.to_be_bytes().to_vec()),
                Some(DeliveryState::Accepted(Accepted {})),
            );
        }
        let flow_state = LinkFlowState::receiver(LinkFlowStateInner {
            initial_delivery_count: 0,
            delivery_count: 0,
            link_credit: 0,
            available: 0,
            drain: false,
            properties: None,
        });
        Link {
            role: PhantomData,
            local_state: LinkState::Unattached,
            name: "n".repeat(name_len),
            output_handle: Some(OutputHandle(0)),
            input_handle: None,
            snd_settle_mode: Default::default(),
            rcv_settle_mode: Default::default(),
            source: None,
            target: Some(Target::builder().address("q").build()),
            max_message_size: 0,
            offered_capabilities: None,
            desired_capabilities: None,
            flow_state: Arc::new(flow_state),
            unsettled: Arc::new(RwLock::new(Some(map))),
            session_stop_reason: Arc::new(OnceLock::new()),
            verify_incoming_source: false,
            verify_incoming_target: false,
        }
    }

    /// The attach of a resuming link is cut down ("incomplete-unsettled") so that it fits into
    /// the peer's max-frame-size. Whatever the size of the unsettled map, the attach that the
    /// link produces for the frame size reported by the connection must be written as one
    /// complete frame of at most max-frame-size bytes.
    #[tokio::test]
    async fn c06_resuming_attach_fits_peer_max_frame_size() {
        const PEER_MAX_FRAME_SIZE: usize = 512;
        let mut failures = Vec::new();
        let mut checked = 0;
        for name_len in 1..=10usize {
            for unsettled in 1..=120usize {
                let written = Arc::new(Mutex::new(Vec::new()));
                let mut transport =
                    Transport::<_, Frame>::bind(Sink(written.clone()), 512, None);
                transport.set_encoder_max_frame_size(PEER_MAX_FRAME_SIZE);

                // What ConnectionControl::GetMaxFrameSize answers (connection/engine.rs on_control)
                let reported = transport.encoder_max_frame_size();

                let link = receiver_link(name_len, unsettled);
                let attach = link
                    .as_maybe_incomplete_attach(reported, OutputHandle(0), false)
                    .unwrap();
                let entries = attach.unsettled.as_ref().map(|m| m.len()).unwrap_or(0);
                let incomplete = attach.incomplete_unsettled;
                checked += 1;
                match transport.send(Frame::new(0u16, FrameBody::Attach(attach))).await {
                    Ok(()) => {
                        let bytes = written.lock().unwrap();
                        let size = u32::from_be_bytes([bytes[0], bytes[1], bytes[2], bytes[3]]) as usize;
                        if size != bytes.len() || size > PEER_MAX_FRAME_SIZE {
                            failures.push(format!(
                                "name_len={} unsettled={}: wrote {} bytes, size field {}",
                                name_len, unsettled, bytes.len(), size
                            ));
                        }
                    }
                    Err(err) => failures.push(format!(
                        "name_len={} unsettled={} (attach carries {} entries, incomplete={}): {:?}",
                        name_len, unsettled, entries, incomplete, err
                    )),
                }
            }
        }
        assert!(
            failures.is_empty(),
            "{} of {} attaches could not be sent: {:#?}",
            failures.len(),
            checked,
            failures
        );
    }
}
