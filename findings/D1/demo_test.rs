    // D1 demonstration (C02): in rcv-settle-mode=second the sender must answer the receiver's
    // non-settled terminal disposition with a settled one for *every* delivery reported,
    // including the last (or only) run of consecutive ids.
    #[test]
    fn d1_settling_echo_covers_last_run() {
        use crate::link::{state::{LinkFlowState, LinkFlowStateInner}, LinkRelay};
        use crate::util::Producer;
        use crate::endpoint::InputHandle;
        use fe2o3_amqp_types::definitions::{DeliveryTag, ReceiverSettleMode, Role};
        use fe2o3_amqp_types::messaging::{Accepted, DeliveryState};
        use fe2o3_amqp_types::performatives::Disposition;
        use tokio::sync::{mpsc, Notify};

        let mut session = mapped_session();
        let (tx, _rx) = mpsc::channel(8);
        let state = LinkFlowState::sender(LinkFlowStateInner {
            initial_delivery_count: 0,
            delivery_count: 0,
            link_credit: 0,
            available: 0,
            drain: false,
            properties: None,
        });
        let producer = Producer::new(Arc::new(Notify::new()), Arc::new(state));
        let unsettled = Arc::new(parking_lot::RwLock::new(None));
        let mut relay = LinkRelay::new_sender(tx, producer, unsettled)
            .with_output_handle(crate::endpoint::OutputHandle(0));
        if let LinkRelay::Sender { receiver_settle_mode, .. } = &mut relay {
            *receiver_settle_mode = ReceiverSettleMode::Second;
        }
        session.link_by_input_handle.insert(InputHandle(0), relay);
        for id in [7u32, 8, 10] {
            session.delivery_tag_by_id.insert(
                (Role::Receiver, id),
                (InputHandle(0), DeliveryTag::from(vec![id as u8])),
            );
        }

        // a single delivery
        let d = Disposition {
            role: Role::Receiver,
            first: 10,
            last: None,
            settled: false,
            state: Some(DeliveryState::Accepted(Accepted {})),
            batchable: false,
        };
        let echoes = session.on_incoming_disposition(d).unwrap().unwrap();
        let covered: Vec<u32> = echoes
            .iter()
            .flat_map(|e| e.first..=e.last.unwrap_or(e.first))
            .collect();
        assert_eq!(covered, vec![10]);

        // a range whose ids form two runs: 7..=8 and 10
        let d = Disposition {
            role: Role::Receiver,
            first: 7,
            last: Some(10),
            settled: false,
            state: Some(DeliveryState::Accepted(Accepted {})),
            batchable: false,
        };
        let echoes = session.on_incoming_disposition(d).unwrap().unwrap();
        assert!(echoes.iter().all(|e| e.settled && e.role == Role::Sender));
        let covered: Vec<u32> = echoes
            .iter()
            .flat_map(|e| e.first..=e.last.unwrap_or(e.first))
            .collect();
        assert_eq!(covered, vec![7, 8, 10]);
    }
