    // D22 demonstration (C13 "a session sends ... later at most one end, and nothing on its channel afterwards"):
    // a transfer is parked in the session because the peer's incoming window is exhausted; the application ends the
    // session (End goes out, state END-SENT); a Flow from the peer that was still in flight then re-opens the window:
    // on the unfixed tree the engine writes the parked Transfer on the channel AFTER its own End.
    // (The same happens with a link Flow carrying echo=true: it is answered with a Flow after the End.)
    // Append inside `mod tests` of fe2o3-amqp/src/session/mod.rs; run: cargo test -p fe2o3-amqp --lib d22_
    #[tokio::test]
    async fn d22_nothing_follows_the_local_end_on_the_channel() {
        use crate::control::SessionControl;
        use crate::endpoint::InputHandle;
        use fe2o3_amqp_types::performatives::{End, Flow, Transfer};
        use std::time::Duration;
        use tokio::sync::mpsc;
        use tokio::time::timeout;

        let mut session = mapped_session();
        // the peer's incoming window is used up ...
        session.remote_incoming_window = 0;
        // ... so a transfer handed over by a link is parked in the session
        let transfer = Transfer {
            handle: 0u32.into(),
            delivery_id: None,
            delivery_tag: Some(vec![1u8, 2, 3, 4].into()),
            message_format: Some(0),
            settled: Some(true),
            more: false,
            rcv_settle_mode: None,
            state: None,
            resume: false,
            aborted: false,
            batchable: false,
        };
        let parked = session
            .on_outgoing_transfer(InputHandle(0), transfer, bytes::Bytes::from_static(b"\x00\x53\x77\x40"))
            .unwrap();
        assert!(parked.is_none(), "window exhausted: the transfer is buffered");

        let (conn_control, _conn_control_rx) = mpsc::channel(16);
        let (control, control_rx) = mpsc::channel(16);
        let (from_peer, incoming) = mpsc::channel(16);
        let (outgoing, mut to_peer) = mpsc::channel(16);
        let (_link_frames, outgoing_link_frames) = mpsc::channel(16);
        let engine = super::engine::SessionEngine {
            conn_control,
            session,
            control: control_rx,
            incoming,
            outgoing,
            outgoing_link_frames,
        };
        let (_join, outcome) = engine.spawn();

        // the application ends the session
        control.send(SessionControl::End(None)).await.unwrap();
        let first = timeout(Duration::from_secs(2), to_peer.recv()).await.expect("End expected").unwrap();
        assert!(matches!(first.body, SessionFrameBody::End(_)), "the local End goes out");

        // a Flow of the peer that was in flight re-opens its incoming window, then the peer answers the End
        from_peer
            .send(SessionFrame::new(
                0u16,
                SessionFrameBody::Flow(Flow {
                    next_incoming_id: Some(0),
                    incoming_window: 100,
                    next_outgoing_id: 0,
                    outgoing_window: 100,
                    handle: None,
                    delivery_count: None,
                    link_credit: None,
                    available: None,
                    drain: false,
                    echo: false,
                    properties: None,
                }),
            ))
            .await
            .unwrap();
        from_peer.send(SessionFrame::new(0u16, SessionFrameBody::End(End { error: None }))).await.unwrap();

        let _ = timeout(Duration::from_secs(2), outcome).await.expect("engine must stop");
        let mut after_end = Vec::new();
        while let Ok(frame) = to_peer.try_recv() {
            after_end.push(format!("{:?}", frame.body).chars().take(60).collect::<String>());
        }
        assert!(after_end.is_empty(), "frames written on the channel after the local End: {:?}", after_end);
    }
