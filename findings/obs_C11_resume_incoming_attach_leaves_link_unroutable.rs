// append-to: new module at end of fe2o3-amqp/src/acceptor/session.rs
// run: hunt_c11_resume_incoming_attach --features acceptor
#[cfg(test)]
mod hunt_c11_resume_incoming_attach {
    //! C11: "Every incoming frame reaches the link or session that the peer's handle or
    //! channel designates and no other."
    //!
    //! A link that was detached (not closed) on a listener session and is re-attached by the
    //! peer is resumed with `Detached{Receiver,Sender}::resume_incoming_attach(remote_attach)`.
    //! The attach of the peer names the handle the peer uses from now on, but the session
    //! never enters that handle into its routing table, so every later frame of the peer on
    //! that handle misses the link.

    use std::time::Duration;

    use crate::{
        acceptor::{
            ConnectionAcceptor, LinkAcceptor, LinkEndpoint, ListenerConnectionHandle,
            ListenerSessionHandle, SessionAcceptor,
        },
        connection::{Connection, ConnectionHandle},
        session::{Session, SessionHandle},
        Receiver, Sender,
    };

    async fn connected_pair() -> (
        ConnectionHandle<()>,
        SessionHandle<()>,
        ListenerConnectionHandle,
        ListenerSessionHandle,
    ) {
        let (client_io, server_io) = tokio::io::duplex(1 << 16);
        let acceptor = ConnectionAcceptor::builder()
            .container_id("hunt-listener")
            .build();
        let accept = tokio::spawn(async move { acceptor.accept(server_io).await });
        let mut client_connection = Connection::builder()
            .container_id("hunt-client")
            .open_with_stream(client_io)
            .await
            .expect("client open");
        let mut listener_connection = accept.await.unwrap().expect("listener accept");

        let session_acceptor = SessionAcceptor::new();
        let (listener_session, client_session) = tokio::join!(
            session_acceptor.accept(&mut listener_connection),
            Session::begin(&mut client_connection),
        );
        (
            client_connection,
            client_session.expect("client begin"),
            listener_connection,
            listener_session.expect("listener session accept"),
        )
    }

    /// peer = sender, local (listener) = receiver that is resumed by the peer's attach
    #[tokio::test]
    async fn transfer_of_peer_reaches_receiver_resumed_by_incoming_attach() {
        let (_cc, mut client_session, _lc, mut listener_session) = connected_pair().await;

        let link_acceptor = LinkAcceptor::new();
        let (endpoint, sender) = tokio::join!(
            link_acceptor.accept(&mut listener_session),
            Sender::attach(&mut client_session, "hunt-link", "q1"),
        );
        let mut sender = sender.expect("client attach");
        let mut receiver = match endpoint.expect("listener accept link") {
            LinkEndpoint::Receiver(receiver) => receiver,
            LinkEndpoint::Sender(_) => panic!("expected a receiver on the listener"),
        };

        // The link works before the detach
        let (outcome, delivery) = tokio::join!(sender.send("before"), async {
            let delivery = receiver.recv::<String>().await.expect("recv before detach");
            receiver.accept(&delivery).await.expect("accept");
            delivery
        });
        outcome.expect("send before detach");
        assert_eq!(delivery.body(), "before");

        // Both ends detach (closed = false)
        let (detached_sender, detached_receiver) = tokio::join!(sender.detach(), receiver.detach());
        let detached_sender = detached_sender.map_err(|(_, e)| e).expect("client detach");
        let detached_receiver = detached_receiver
            .map_err(|(_, e)| e)
            .expect("listener detach");

        // The peer re-attaches the link; the listener application gets the Attach from the
        // session and resumes its detached receiver with it
        let (sender, receiver) = tokio::join!(detached_sender.resume(), async {
            let remote_attach = listener_session
                .next_incoming_attach()
                .await
                .expect("the re-attach of the peer is announced");
            detached_receiver.resume_incoming_attach(remote_attach).await
        });
        let mut sender = sender.map_err(|e| e.kind).expect("client resume");
        let mut receiver: Receiver = receiver
            .map_err(|e| e.kind)
            .expect("listener resume_incoming_attach")
            .into_receiver();
        receiver.set_credit(10).await.expect("set_credit");

        // The peer sends on the handle it named in its attach
        let send = tokio::spawn(async move {
            let _ = sender.send("after").await;
            sender
        });
        let delivery = tokio::time::timeout(Duration::from_secs(3), receiver.recv::<String>())
            .await
            .expect(
                "C11: the transfer the peer sent on the handle of its re-attach never reached \
                 the receiver that was resumed with that attach",
            )
            .expect("recv after resume");
        assert_eq!(delivery.body(), "after");
        receiver.accept(&delivery).await.expect("accept");
        let _ = send.await;
    }

    /// peer = receiver, local (listener) = sender that is resumed by the peer's attach
    #[tokio::test]
    async fn flow_of_peer_reaches_sender_resumed_by_incoming_attach() {
        let (_cc, mut client_session, _lc, mut listener_session) = connected_pair().await;

        let link_acceptor = LinkAcceptor::new();
        let (endpoint, receiver) = tokio::join!(
            link_acceptor.accept(&mut listener_session),
            Receiver::attach(&mut client_session, "hunt-link", "q1"),
        );
        let receiver = receiver.expect("client attach");
        let sender = match endpoint.expect("listener accept link") {
            LinkEndpoint::Sender(sender) => sender,
            LinkEndpoint::Receiver(_) => panic!("expected a sender on the listener"),
        };

        let (detached_receiver, detached_sender) = tokio::join!(receiver.detach(), sender.detach());
        let detached_receiver = detached_receiver
            .map_err(|(_, e)| e)
            .expect("client detach");
        let detached_sender = detached_sender
            .map_err(|(_, e)| e)
            .expect("listener detach");

        let (receiver, sender) = tokio::join!(detached_receiver.resume(), async {
            let remote_attach = listener_session
                .next_incoming_attach()
                .await
                .expect("the re-attach of the peer is announced");
            detached_sender.resume_incoming_attach(remote_attach).await
        });
        let mut receiver = receiver
            .map_err(|e| e.kind)
            .expect("client resume")
            .into_receiver();
        let mut sender = sender
            .map_err(|e| e.kind)
            .expect("listener resume_incoming_attach");

        // The peer grants credit with a flow on the handle it named in its attach
        receiver.set_credit(10).await.expect("set_credit");

        let recv = tokio::spawn(async move {
            let delivery = receiver.recv::<String>().await;
            if let Ok(delivery) = &delivery {
                let _ = receiver.accept(delivery).await;
            }
            (receiver, delivery.map(|d| d.body().clone()))
        });
        tokio::time::timeout(Duration::from_secs(3), sender.send("after"))
            .await
            .expect(
                "C11: the flow the peer sent on the handle of its re-attach never reached the \
                 sender that was resumed with that attach (no credit arrives)",
            )
            .expect("send after resume");
        let (_receiver, body) = recv.await.unwrap();
        assert_eq!(body.expect("client recv"), "after");
    }

    /// the peer detaches the link it re-attached
    #[tokio::test]
    async fn detach_of_peer_reaches_link_resumed_by_incoming_attach() {
        let (_cc, mut client_session, _lc, mut listener_session) = connected_pair().await;

        let link_acceptor = LinkAcceptor::new();
        let (endpoint, sender) = tokio::join!(
            link_acceptor.accept(&mut listener_session),
            Sender::attach(&mut client_session, "hunt-link", "q1"),
        );
        let sender = sender.expect("client attach");
        let receiver = match endpoint.expect("listener accept link") {
            LinkEndpoint::Receiver(receiver) => receiver,
            LinkEndpoint::Sender(_) => panic!("expected a receiver on the listener"),
        };
        let (detached_sender, detached_receiver) = tokio::join!(sender.detach(), receiver.detach());
        let detached_sender = detached_sender.map_err(|(_, e)| e).expect("client detach");
        let detached_receiver = detached_receiver
            .map_err(|(_, e)| e)
            .expect("listener detach");
        let (sender, receiver) = tokio::join!(detached_sender.resume(), async {
            let remote_attach = listener_session
                .next_incoming_attach()
                .await
                .expect("the re-attach of the peer is announced");
            detached_receiver.resume_incoming_attach(remote_attach).await
        });
        let sender = sender.map_err(|e| e.kind).expect("client resume");
        let mut receiver: Receiver = receiver
            .map_err(|e| e.kind)
            .expect("listener resume_incoming_attach")
            .into_receiver();

        // The peer closes the link: its Detach carries the handle of its re-attach
        let closing = tokio::spawn(async move { sender.close().await });
        let seen = tokio::time::timeout(Duration::from_secs(2), receiver.recv::<String>()).await;
        let ended = tokio::time::timeout(Duration::from_millis(200), listener_session.on_end()).await;
        assert!(
            seen.is_ok() && ended.is_err(),
            "C11: the Detach the peer sent on the handle of its re-attach did not reach the resumed receiver (recv: {:?}); the session treated the handle as unattached and ended: {:?}",
            seen.map(|r| r.map(|_| ())),
            ended
        );
        let _ = receiver.close().await;
        let _ = closing.await;
    }
}
