    // D8 demonstration (C15): a 30-byte disposition frame naming a huge id range makes the session
    // task iterate over the whole range although it holds no delivery at all.
    #[test]
    fn d8_disposition_cost_is_proportional_to_range() {
        use fe2o3_amqp_types::definitions::Role;
        use fe2o3_amqp_types::performatives::Disposition;
        let mut session = mapped_session();
        let d = Disposition {
            role: Role::Receiver,
            first: 0,
            last: Some(300_000_000),
            settled: true,
            state: None,
            batchable: false,
        };
        let t = std::time::Instant::now();
        session.on_incoming_disposition(d).unwrap();
        let dt = t.elapsed();
        // nothing is registered, so there is nothing to do; any sane bound is far below 100 ms
        assert!(dt < std::time::Duration::from_millis(100), "took {:?} for an empty session", dt);
    }
