    // D19 demonstration (C05 "one constructor per array", C03; KNOWN FINDING, not repaired): a null (and an empty list) as
    // second or later element of an array is written as its constructor octet again (0x40 / 0x45), although the element
    // constructor is written once and these types have no data octets. The decoder reads zero octets per such element, so the
    // stray octets are taken for whatever follows the array: silent corruption as soon as the array is nested.
    // Append inside `mod tests` of serde_amqp/src/de.rs; run: cargo test -p serde_amqp --features derive --lib d19_
    #[test]
    fn d19_array_of_nulls_inside_a_list_round_trips() {
        use crate::primitives::Array;
        use crate::value::Value;
        let value = Value::List(vec![Value::Array(Array::from(vec![Value::Null, Value::Null])), Value::Int(7)]);
        let buf = crate::to_vec(&value).unwrap();
        // list8 { array8 size=2 count=2 ctor=0x40 (no element data) , smallint 7 }
        assert_eq!(buf, vec![0xc0, 0x07, 0x02, 0xe0, 0x02, 0x02, 0x40, 0x54, 0x07], "got {:02x?}", buf);
        let back: Value = crate::from_slice(&buf).unwrap();
        assert_eq!(back, value);
    }
