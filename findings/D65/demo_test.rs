// append-to: new module at end of fe2o3-amqp/src/session/mod.rs
// run: hunt_c11_reused_output_handle
#[cfg(test)]
mod hunt_c11_reused_output_handle {
    //! C11: "At any moment no two attached links of a session share a handle ... a handle
    //! ... is reused only after the previous holder has detached"
    //!
    //! The session frees the local (output) handle of a link when the link's Detach goes out,
    //! but the relay of that link stays in `link_by_input_handle` (correctly, until the peer's
    //! Detach arrives) and keeps its own copy of the freed output handle. Once the slab has
    //! given the handle to a new link, the session holds two live relays with the same output
    //! handle, and the frame the old relay produces (the echo of a flow) is written under the
    //! handle of the new link.

    use std::time::Duration;

    use fe2o3_amqp_types::{
        definitions::{Handle, Role},
        performatives::{Attach, Begin, Flow, Open},
    };
    use futures_util::{SinkExt, StreamExt};
    use tokio::io::{AsyncReadExt, AsyncWriteExt, DuplexStream};

    use crate::{
        connection::Connection,
        frames::amqp::{Frame, FrameBody},
        session::Session,
        transport::Transport,
        Sender,
    };

    type Peer = Transport<DuplexStream, Frame>;

    async fn next_frame(peer: &mut Peer) -> Frame {
        loop {
            let frame = tokio::time::timeout(Duration::from_secs(5), peer.next())
                .await
                .expect("scripted peer: timed out waiting for a frame")
                .expect("scripted peer: stream ended")
                .expect("scripted peer: decode error");
            if !matches!(frame.body, FrameBody::Empty) {
                return frame;
            }
        }
    }

    /// header + open exchange of a scripted peer
    async fn peer_open(mut io: DuplexStream) -> Peer {
        let mut header = [0u8; 8];
        io.read_exact(&mut header).await.unwrap();
        assert_eq!(&header, b"AMQP\x00\x01\x00\x00");
        io.write_all(b"AMQP\x00\x01\x00\x00").await.unwrap();
        let mut peer: Peer = Transport::bind(io, 65536, None);
        match next_frame(&mut peer).await.body {
            FrameBody::Open(_) => {}
            other => panic!("scripted peer: expected Open, got {:?}", other),
        }
        let open = Open {
            container_id: "scripted-peer".to_string(),
            hostname: None,
            max_frame_size: 65536.into(),
            channel_max: 100.into(),
            idle_time_out: None,
            outgoing_locales: None,
            incoming_locales: None,
            offered_capabilities: None,
            desired_capabilities: None,
            properties: None,
        };
        peer.send(Frame::new(0u16, FrameBody::Open(open))).await.unwrap();
        peer
    }

    /// answers the Begin of the client on `peer_channel`
    async fn peer_begin(peer: &mut Peer, peer_channel: u16) -> u16 {
        let frame = next_frame(peer).await;
        let client_channel = frame.channel;
        match frame.body {
            FrameBody::Begin(_) => {}
            other => panic!("scripted peer: expected Begin, got {:?}", other),
        }
        let begin = Begin {
            remote_channel: Some(client_channel),
            next_outgoing_id: 0,
            incoming_window: 1000,
            outgoing_window: 1000,
            handle_max: Handle(u32::MAX),
            offered_capabilities: None,
            desired_capabilities: None,
            properties: None,
        };
        peer.send(Frame::new(peer_channel, FrameBody::Begin(begin)))
            .await
            .unwrap();
        client_channel
    }

    /// reads the Attach of a sending link of the client and answers it as the receiving end
    /// under `peer_handle`; returns the Attach of the client
    async fn peer_answer_attach(peer: &mut Peer, peer_channel: u16, peer_handle: u32) -> Attach {
        let attach = match next_frame(peer).await.body {
            FrameBody::Attach(attach) => attach,
            other => panic!("scripted peer: expected Attach, got {:?}", other),
        };
        let mut answer = attach.clone();
        answer.handle = Handle(peer_handle);
        answer.role = Role::Receiver;
        answer.initial_delivery_count = None;
        peer.send(Frame::new(peer_channel, FrameBody::Attach(answer)))
            .await
            .unwrap();
        attach
    }

    fn link_flow(peer_handle: u32, link_credit: u32, echo: bool) -> Flow {
        Flow {
            next_incoming_id: Some(0),
            incoming_window: 1000,
            next_outgoing_id: 0,
            outgoing_window: 1000,
            handle: Some(Handle(peer_handle)),
            delivery_count: Some(0),
            link_credit: Some(link_credit),
            available: None,
            drain: false,
            echo,
            properties: None,
        }
    }

    #[tokio::test]
    async fn frame_of_detaching_link_is_not_written_under_the_reused_handle() {
        let (client_io, peer_io) = tokio::io::duplex(1 << 16);
        let (detach_seen_tx, detach_seen_rx) = tokio::sync::oneshot::channel::<()>();
        let peer_task = tokio::spawn(async move {
            let mut peer = peer_open(peer_io).await;
            peer_begin(&mut peer, 0).await;

            // link "a": client handle ha, peer handle 5
            let attach_a = peer_answer_attach(&mut peer, 0, 5).await;
            assert_eq!(attach_a.name, "a");
            let ha = attach_a.handle.clone();

            // the client closes "a"; the peer has not answered yet (its Detach is "in flight")
            match next_frame(&mut peer).await.body {
                FrameBody::Detach(detach) => {
                    assert_eq!(detach.handle, ha);
                    assert!(detach.closed);
                }
                other => panic!("scripted peer: expected Detach of a, got {:?}", other),
            }
            let _ = detach_seen_tx.send(());

            // link "b": the freed handle is handed out again; peer handle 6
            let attach_b = peer_answer_attach(&mut peer, 0, 6).await;
            assert_eq!(attach_b.name, "b");
            assert_eq!(
                attach_b.handle, ha,
                "precondition of this history: the slab reuses the freed handle"
            );

            // A flow for "a" that the peer wrote before it saw the Detach of "a": it carries
            // the peer's handle of "a" (5) and asks for an echo. "b" (peer handle 6) has never
            // been sent a flow.
            peer.send(Frame::new(0u16, FrameBody::Flow(link_flow(5, 7, true))))
                .await
                .unwrap();

            // Whatever the client writes now, nothing written under handle `ha` can stem from
            // "a" any more: `ha` designates "b", and "b" has no reason to write a flow.
            let mut misaddressed = None;
            while let Ok(Some(Ok(frame))) =
                tokio::time::timeout(Duration::from_millis(500), peer.next()).await
            {
                if let FrameBody::Flow(flow) = &frame.body {
                    if flow.handle.as_ref() == Some(&ha) {
                        misaddressed = Some(format!("{:?}", flow));
                    }
                }
            }
            misaddressed
        });

        let mut connection = Connection::builder()
            .container_id("hunt-client")
            .open_with_stream(client_io)
            .await
            .expect("open");
        let mut session = Session::begin(&mut connection).await.expect("begin");
        let sender_a = Sender::attach(&mut session, "a", "q").await.expect("attach a");
        // close() sends the Detach and then waits for the peer's Detach, which does not come
        // during this test
        let _closing_a = tokio::spawn(async move { sender_a.close().await });
        // the Detach of "a" is on the wire (so its handle is free) before "b" is attached
        detach_seen_rx.await.expect("scripted peer saw the Detach of a");
        let _sender_b = Sender::attach(&mut session, "b", "q").await.expect("attach b");

        let misaddressed = peer_task.await.expect("scripted peer panicked");
        assert!(
            misaddressed.is_none(),
            "C11: the echo of a flow that was addressed to the detaching link \"a\" (peer handle \
             5, link-credit 7) was written under the handle that now belongs to link \"b\": {}",
            misaddressed.unwrap()
        );
    }
}
