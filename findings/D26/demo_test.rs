    // D26 demonstration (C03 "map keys of every type", C20 size == encoding): Serializer::serialize_i64 did not clear the one-shot
    // Timestamp marker. Map entries are written key-then-value through ONE serializer (SerializeMap::serialize_entry), so the
    // value of an entry whose key is a timestamp was written as a timestamp too: {Timestamp(1): Long(5)} was encoded
    // c1 13 02 83 <1> 83 <5> (21 octets, serialized_size says 14) and decodes to {Timestamp(1): Timestamp(5)};
    // a typed BTreeMap<Timestamp, i64> does not decode back at all. (Found by a seed sub-agent while writing a C20 demo.)
    // Append inside `mod test` of serde_amqp/src/ser.rs; run: cargo test -p serde_amqp --features derive --lib d26_
    #[test]
    fn d26_map_with_timestamp_key_and_long_value_round_trips() {
        use crate::primitives::Timestamp;
        use std::collections::BTreeMap;
        let mut m: BTreeMap<Timestamp, i64> = BTreeMap::new();
        m.insert(Timestamp::from(1), 5);
        let buf = crate::to_vec(&m).unwrap();
        assert_eq!(crate::serialized_size(&m).unwrap(), buf.len(), "size vs encoding {:02x?}", buf);
        // map8, size, count 2, timestamp 0x83 + 8 octets, smalllong 0x55 05
        assert_eq!(&buf[buf.len() - 2..], &[0x55, 0x05], "the value is a long, not a timestamp: {:02x?}", buf);
        let back: BTreeMap<Timestamp, i64> = crate::from_slice(&buf).expect("own encoding must decode");
        assert_eq!(back, m);
    }
