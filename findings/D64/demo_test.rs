// append-to: new module at end of fe2o3-amqp/src/acceptor/session.rs
// run: hunt_c08_listener --features acceptor
#[cfg(test)]
mod hunt_c08_listener {
    //! A scripted *client* (receiver role) talks to an unmodified listener over `tokio::io::duplex`.
    use std::time::Duration;

    use fe2o3_amqp_types::{
        definitions::{Handle, ReceiverSettleMode, Role, SenderSettleMode},
        messaging::{Source, Target},
        performatives::{Attach, Begin, Flow, Open},
    };
    use futures_util::{SinkExt, StreamExt};
    use tokio::io::{AsyncReadExt, AsyncWriteExt, DuplexStream};

    use crate::{
        acceptor::{ConnectionAcceptor, LinkAcceptor, LinkEndpoint, SessionAcceptor},
        frames::amqp::{Frame, FrameBody},
        transport::Transport,
    };

    async fn next(t: &mut Transport<DuplexStream, Frame>) -> FrameBody {
        loop {
            let frame = tokio::time::timeout(Duration::from_secs(5), t.next())
                .await
                .expect("peer: no frame within 5s")
                .expect("peer: stream ended")
                .expect("peer: decode error");
            if let FrameBody::Empty = frame.body {
                continue;
            }
            return frame.body;
        }
    }

    async fn next_within(t: &mut Transport<DuplexStream, Frame>, ms: u64) -> Option<FrameBody> {
        match tokio::time::timeout(Duration::from_millis(ms), t.next()).await {
            Ok(Some(Ok(frame))) => Some(frame.body),
            Ok(other) => panic!("peer: {:?}", other.map(|r| r.map(|_| ()))),
            Err(_) => None,
        }
    }

    fn flow(delivery_count: Option<u32>, link_credit: u32, drain: bool, echo: bool) -> FrameBody {
        FrameBody::Flow(Flow {
            next_incoming_id: Some(0),
            incoming_window: 2048,
            next_outgoing_id: 0,
            outgoing_window: 2048,
            handle: Some(Handle(0)),
            delivery_count,
            link_credit: Some(link_credit),
            available: None,
            drain,
            echo,
            properties: None,
        })
    }

    /// History: the receiving peer pipelines `attach` and `flow(link-credit = 5, drain = true)`
    /// (delivery-count unset, it has not seen the sender's attach yet). The listener application
    /// accepts the link 200 ms later and has nothing to send.
    ///
    /// Property: "When asked to drain, it uses up or gives back all credit and tells the
    /// receiver so with a flow showing zero credit."
    #[tokio::test]
    async fn hunt_c08_listener_sender_answers_a_drain_that_was_pipelined_behind_the_attach() {
        let (mut peer_io, server_io) = tokio::io::duplex(1 << 16);

        // ---- listener application
        let listener = tokio::spawn(async move {
            let acceptor = ConnectionAcceptor::builder().container_id("listener").build();
            let mut connection = acceptor.accept(server_io).await.unwrap();
            let mut session = SessionAcceptor::new().accept(&mut connection).await.unwrap();
            // the application is busy for a moment before it looks at the incoming attach
            tokio::time::sleep(Duration::from_millis(200)).await;
            let link = LinkAcceptor::new().accept(&mut session).await.unwrap();
            let sender = match link {
                LinkEndpoint::Sender(sender) => sender,
                LinkEndpoint::Receiver(_) => panic!("expected a sender"),
            };
            (connection, session, sender)
        });

        // ---- scripted receiving peer
        peer_io.write_all(b"AMQP\x00\x01\x00\x00").await.unwrap();
        let mut hdr = [0u8; 8];
        peer_io.read_exact(&mut hdr).await.unwrap();
        let mut t = Transport::<_, Frame>::bind(peer_io, 65536, None);
        let open = Open {
            container_id: "scripted-peer".into(),
            hostname: None,
            max_frame_size: 65536.into(),
            channel_max: 10.into(),
            idle_time_out: None,
            outgoing_locales: None,
            incoming_locales: None,
            offered_capabilities: None,
            desired_capabilities: None,
            properties: None,
        };
        t.send(Frame::new(0u16, FrameBody::Open(open))).await.unwrap();
        assert!(matches!(next(&mut t).await, FrameBody::Open(_)));
        let begin = Begin {
            remote_channel: None,
            next_outgoing_id: 0,
            incoming_window: 2048,
            outgoing_window: 2048,
            handle_max: Handle(7),
            offered_capabilities: None,
            desired_capabilities: None,
            properties: None,
        };
        t.send(Frame::new(0u16, FrameBody::Begin(begin))).await.unwrap();
        assert!(matches!(next(&mut t).await, FrameBody::Begin(_)));

        let attach = Attach {
            name: "hunt-c08-listener".into(),
            handle: Handle(0),
            role: Role::Receiver,
            snd_settle_mode: SenderSettleMode::Settled,
            rcv_settle_mode: ReceiverSettleMode::First,
            source: Some(Box::new(Source::builder().address("q").build())),
            target: Some(Box::new(Target::builder().address("q").build().into())),
            unsettled: None,
            incomplete_unsettled: false,
            initial_delivery_count: None,
            max_message_size: None,
            offered_capabilities: None,
            desired_capabilities: None,
            properties: None,
        };
        // attach and the drain request back to back
        t.send(Frame::new(0u16, FrameBody::Attach(attach))).await.unwrap();
        t.send(Frame::new(0u16, flow(None, 5, true, false))).await.unwrap();

        let (_connection, _session, mut sender) = listener.await.unwrap();

        // the listener's attach
        let initial_delivery_count = match next(&mut t).await {
            FrameBody::Attach(attach) => attach.initial_delivery_count.unwrap(),
            other => panic!("expected attach, got {:?}", other),
        };

        // (1) the answer to the drain request
        let answer = next_within(&mut t, 500).await;
        let answered = match &answer {
            Some(FrameBody::Flow(f)) => {
                f.link_credit == Some(0)
                    && f.delivery_count == Some(initial_delivery_count.wrapping_add(5))
            }
            _ => false,
        };

        // (2) the receiver, never having been told anything else, still has delivery-count_rcv =
        // initial-delivery-count. It stops draining and grants three credits; a send has to go
        // through.
        t.send(Frame::new(0u16, flow(Some(initial_delivery_count), 3, false, true)))
            .await
            .unwrap();
        let echoed = loop {
            match next(&mut t).await {
                FrameBody::Flow(f) if f.handle.is_some() => break f,
                _ => continue,
            }
        };
        let sent = tokio::time::timeout(Duration::from_secs(2), sender.send("m0")).await;

        assert!(
            answered,
            "no flow(link-credit = 0, delivery-count = {}) after the pipelined drain request; \
             first frame after the attach: {:?}. Sender's view echoed after the later grant \
             flow(delivery-count = {}, link-credit = 3): delivery-count = {:?}, link-credit = {:?}; \
             send() after that grant completed: {}",
            initial_delivery_count.wrapping_add(5),
            answer,
            initial_delivery_count,
            echoed.delivery_count,
            echoed.link_credit,
            sent.is_ok()
        );
        assert!(sent.is_ok(), "send() still waiting for credit 2s after three credits were granted");
    }
}
