// append-to: new module at end of fe2o3-amqp/src/link/receiver.rs
// run: c10_finding_4 --features transaction,acceptor
//
// C10 finding 4 (listener side, transactional posting): the resource-side `TxnSession` decides
// per FRAME whether a transfer belongs to a transaction, by looking at that frame's `state`.
// When a controller puts the transactional-state on the first transfer frame only (the optional
// field is omitted on continuation frames, like delivery-id / delivery-tag / message-format),
// the first frame is parked in the transaction while the continuation frames are forwarded to the
// receiving link immediately. The application sees an error before the transaction is discharged
// and never receives the message after a successful commit.
#[cfg(all(test, feature = "transaction", feature = "acceptor"))]
mod c10_finding_4 {
    use super::*;
    use crate::endpoint::{InputHandle, OutputHandle};
    use crate::link::state::{LinkFlowState, LinkFlowStateInner, LinkState};
    use bytes::Bytes;
    use fe2o3_amqp_types::messaging::{
        message::__private::Serializable, AmqpValue, Batch, Body, Data, Message,
    };
    use fe2o3_amqp_types::primitives::{Binary, Value};
    use serde_amqp::to_vec;
    use std::marker::PhantomData;
    use std::time::Duration;

    /// A receiving link endpoint in the Attached state with `credit` link credit. Frames pushed
    /// into `in_tx` are exactly what the session's `LinkRelay` would forward to the link, and
    /// `inner.recv()` is exactly what `Receiver::recv` calls.
    struct Harness {
        inner: ReceiverInner<ReceiverLink<Target>>,
        in_tx: mpsc::Sender<LinkFrame>,
        _out_rx: mpsc::Receiver<LinkFrame>,
        _ctrl_rx: mpsc::Receiver<SessionControl>,
    }

    fn harness(credit: u32) -> Harness {
        let flow_state: ReceiverFlowState = Arc::new(LinkFlowState::receiver(LinkFlowStateInner {
            initial_delivery_count: 0,
            delivery_count: 0,
            link_credit: credit,
            available: 0,
            drain: false,
            properties: None,
        }));
        let link: ReceiverLink<Target> = crate::link::Link {
            role: PhantomData,
            local_state: LinkState::Attached,
            name: "l".into(),
            output_handle: Some(OutputHandle(0)),
            input_handle: Some(InputHandle(0)),
            snd_settle_mode: Default::default(),
            rcv_settle_mode: ReceiverSettleMode::First,
            source: None,
            target: None,
            max_message_size: 0,
            offered_capabilities: None,
            desired_capabilities: None,
            flow_state,
            unsettled: Arc::new(parking_lot::RwLock::new(None)),
            session_stop_reason: Arc::new(OnceLock::new()),
            verify_incoming_source: false,
            verify_incoming_target: false,
        };
        let (in_tx, in_rx) = mpsc::channel(1024);
        let (out_tx, out_rx) = mpsc::channel(1024);
        let (ctrl_tx, ctrl_rx) = mpsc::channel(1024);
        let inner = ReceiverInner {
            link,
            buffer_size: 1024,
            credit_mode: CreditMode::Manual,
            processed: Arc::new(AtomicU32::new(0)),
            auto_accept: false,
            session: ctrl_tx,
            outgoing: out_tx,
            incoming: in_rx,
            incomplete_transfer: None,
        };
        Harness {
            inner,
            in_tx,
            _out_rx: out_rx,
            _ctrl_rx: ctrl_rx,
        }
    }

    /// First (or only) transfer frame of a delivery
    fn first(id: u32, tag: &[u8], more: bool) -> Transfer {
        Transfer {
            handle: Handle(0),
            delivery_id: Some(id),
            delivery_tag: Some(DeliveryTag::from(tag.to_vec())),
            message_format: Some(0),
            settled: None,
            more,
            rcv_settle_mode: None,
            state: None,
            resume: false,
            aborted: false,
            batchable: false,
        }
    }

    /// Continuation transfer frame that omits delivery-id, delivery-tag and message-format
    fn cont(more: bool) -> Transfer {
        Transfer {
            handle: Handle(0),
            delivery_id: None,
            delivery_tag: None,
            message_format: None,
            settled: None,
            more,
            rcv_settle_mode: None,
            state: None,
            resume: false,
            aborted: false,
            batchable: false,
        }
    }

    async fn push(h: &Harness, performative: Transfer, payload: Bytes) {
        h.in_tx
            .send(LinkFrame::Transfer {
                input_handle: InputHandle(0),
                performative,
                payload,
            })
            .await
            .unwrap();
    }

    /// `Receiver::recv` with a deadline: `None` means "nothing was handed to the application"
    async fn recv_within<T>(h: &mut Harness) -> Option<Result<Delivery<T>, RecvError>>
    where
        for<'de> T: FromBody<'de> + Send,
    {
        tokio::time::timeout(Duration::from_millis(200), h.inner.recv::<T>())
            .await
            .ok()
    }

    fn string_message(s: &str) -> Bytes {
        Bytes::from(
            to_vec(&Serializable(Message::<Body<Value>>::from(Body::Value(
                AmqpValue(Value::String(s.to_string())),
            ))))
            .unwrap(),
        )
    }

    #[allow(dead_code)]
    fn data_message(sections: &[&[u8]]) -> Bytes {
        let batch = Batch::new(
            sections
                .iter()
                .map(|s| Data(Binary::from(s.to_vec())))
                .collect::<Vec<_>>(),
        );
        Bytes::from(to_vec(&Serializable(Message::<Body<Value>>::from(Body::Data(batch)))).unwrap())
    }

    use crate::endpoint::{HandleDeclare, HandleDischarge, OutgoingChannel, Session as _};
    use crate::transaction::{
        coordinator::ControlLinkAcceptor, manager::TransactionManager, session::TxnSession,
    };
    use fe2o3_amqp_types::states::SessionState;
    use fe2o3_amqp_types::transaction::TransactionalState;

    async fn run(state_on_every_frame: bool) {
        // a mapped listener session with a transaction manager, and one receiving link on it
        let session = crate::session::Builder::new().into_session(
            OutgoingChannel(0),
            SessionState::Mapped,
            Arc::new(OnceLock::new()),
        );
        let (ctrl_tx, _ctrl_rx) = mpsc::channel(16);
        let (cl_out_tx, _cl_out_rx) = mpsc::channel(16);
        let mut txn_session = TxnSession {
            control: ctrl_tx,
            session,
            txn_manager: TransactionManager::new(cl_out_tx, ControlLinkAcceptor::default()),
        };
        let mut h = harness(10);
        let relay = LinkRelay::new_receiver(
            h.in_tx.clone(),
            h.inner.link.flow_state.clone(),
            h.inner.link.unsettled.clone(),
            ReceiverSettleMode::First,
        );
        txn_session
            .allocate_incoming_link("l".into(), relay, InputHandle(0))
            .unwrap();
        let txn_id = txn_session.allocate_transaction_id().unwrap();
        let txn_state = DeliveryState::TransactionalState(TransactionalState {
            txn_id: txn_id.clone(),
            outcome: None,
        });

        // the controller posts one message in two transfer frames
        let m = string_message("AAAAAAAAAAAAAAAAAAAA");
        let n = m.len();
        let mut f1 = first(0, b"a", true);
        f1.state = Some(txn_state.clone());
        txn_session
            .on_incoming_transfer(f1, m.slice(..n / 2))
            .await
            .unwrap();
        let mut f2 = cont(false);
        if state_on_every_frame {
            f2.state = Some(txn_state.clone());
        }
        txn_session
            .on_incoming_transfer(f2, m.slice(n / 2..))
            .await
            .unwrap();

        // nothing may reach the application before the transaction is discharged
        let before = recv_within::<Body<Value>>(&mut h).await;
        assert!(
            before.is_none(),
            "the application received something before the final frame was released by the commit: {:?}",
            before.map(|r| r.map(|d| d.message))
        );

        // commit
        let outcome = txn_session.commit_transaction(txn_id).await.unwrap();
        assert!(outcome.is_ok());

        // now the message is received exactly once and unchanged
        let after = recv_within::<Body<Value>>(&mut h).await;
        match after {
            Some(Ok(d)) => assert_eq!(
                d.message.body,
                Body::Value(AmqpValue(Value::String("AAAAAAAAAAAAAAAAAAAA".into())))
            ),
            other => panic!(
                "the committed message was not handed to the application: {:?}",
                other.map(|r| r.map(|d| d.message))
            ),
        }
        assert!(recv_within::<Body<Value>>(&mut h).await.is_none());
    }

    /// control: passes on the unmodified tree
    #[tokio::test]
    async fn c10_finding_4_control_state_on_every_frame() {
        run(true).await;
    }

    /// fails on the unmodified tree
    #[tokio::test]
    async fn c10_finding_4_state_on_first_frame_only() {
        run(false).await;
    }
}
