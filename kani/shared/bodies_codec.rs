// Harness bodies for the serde_amqp codec, shared by the Kani crate (symbolic inputs) and the replay
// program (concrete inputs of a counterexample).
use super::src_trait::Src;
use serde_amqp::{from_slice, serialized_size, to_vec, Value};

/// spec oracle, written from the AMQP 1.0 type system (part 1, section 1.6), independent of format_code.rs
fn spec_u32(x: u32) -> ([u8; 9], usize) {
    let b = x.to_be_bytes();
    if x == 0 { ([0x43, 0, 0, 0, 0, 0, 0, 0, 0], 1) } else if x <= 255 { ([0x52, x as u8, 0, 0, 0, 0, 0, 0, 0], 2) } else { ([0x70, b[0], b[1], b[2], b[3], 0, 0, 0, 0], 5) }
}
fn spec_u64(x: u64) -> ([u8; 9], usize) {
    let b = x.to_be_bytes();
    if x == 0 { ([0x44, 0, 0, 0, 0, 0, 0, 0, 0], 1) } else if x <= 255 { ([0x53, x as u8, 0, 0, 0, 0, 0, 0, 0], 2) }
    else { ([0x80, b[0], b[1], b[2], b[3], b[4], b[5], b[6], b[7]], 9) }
}
fn spec_i32(x: i32) -> ([u8; 9], usize) {
    let b = x.to_be_bytes();
    if x >= -128 && x <= 127 { ([0x54, x as i8 as u8, 0, 0, 0, 0, 0, 0, 0], 2) } else { ([0x71, b[0], b[1], b[2], b[3], 0, 0, 0, 0], 5) }
}
fn spec_i64(x: i64) -> ([u8; 9], usize) {
    let b = x.to_be_bytes();
    if x >= -128 && x <= 127 { ([0x55, x as i8 as u8, 0, 0, 0, 0, 0, 0, 0], 2) }
    else { ([0x81, b[0], b[1], b[2], b[3], b[4], b[5], b[6], b[7]], 9) }
}
fn same(v: &[u8], spec: &[u8], n: usize) -> bool {
    if v.len() != n { return false; }
    let mut i = 0;
    while i < n { if v[i] != spec[i] { return false; } i += 1; }
    true
}

macro_rules! rt {
    ($name:ident, $t:ty, $get:ident, $spec:expr) => {
        pub fn $name<S: Src>(s: &mut S) {
            let x: $t = s.$get();
            let v = to_vec(&x).unwrap();
            let (sp, n) = ($spec)(x);
            assert!(same(&v, &sp, n), "C05: not the smallest spec encoding");
            assert!(serialized_size(&x).unwrap() == v.len(), "C20: serialized_size != encoded length");
            let y: $t = from_slice(&v).unwrap();
            assert!(y == x, "C03: round trip");
        }
    };
}
rt!(rt_u32, u32, u32, spec_u32);
rt!(rt_u64, u64, u64, spec_u64);
rt!(rt_i32, i32, i32, spec_i32);
rt!(rt_i64, i64, i64, spec_i64);
rt!(rt_u8, u8, u8, |x: u8| ([0x50u8, x, 0, 0, 0, 0, 0, 0, 0], 2usize));
rt!(rt_i8, i8, i8, |x: i8| ([0x51u8, x as u8, 0, 0, 0, 0, 0, 0, 0], 2usize));
rt!(rt_u16, u16, u16, |x: u16| { let b = x.to_be_bytes(); ([0x60u8, b[0], b[1], 0, 0, 0, 0, 0, 0], 3usize) });
rt!(rt_i16, i16, i16, |x: i16| { let b = x.to_be_bytes(); ([0x61u8, b[0], b[1], 0, 0, 0, 0, 0, 0], 3usize) });
rt!(rt_bool, bool, bool, |x: bool| ([if x { 0x41u8 } else { 0x42u8 }, 0, 0, 0, 0, 0, 0, 0, 0], 1usize));
rt!(rt_char, char, char, |x: char| { let b = (x as u32).to_be_bytes(); ([0x73u8, b[0], b[1], b[2], b[3], 0, 0, 0, 0], 5usize) });

pub fn rt_f32<S: Src>(s: &mut S) {
    let bits = s.u32();
    let x = f32::from_bits(bits);
    let v = to_vec(&x).unwrap();
    let b = bits.to_be_bytes();
    assert!(same(&v, &[0x72, b[0], b[1], b[2], b[3]], 5));
    assert!(serialized_size(&x).unwrap() == v.len());
    let y: f32 = from_slice(&v).unwrap();
    assert!(y.to_bits() == bits);
}
pub fn rt_f64<S: Src>(s: &mut S) {
    let bits = s.u64();
    let x = f64::from_bits(bits);
    let v = to_vec(&x).unwrap();
    let b = bits.to_be_bytes();
    assert!(same(&v, &[0x82, b[0], b[1], b[2], b[3], b[4], b[5], b[6], b[7]], 9));
    assert!(serialized_size(&x).unwrap() == v.len());
    let y: f64 = from_slice(&v).unwrap();
    assert!(y.to_bits() == bits);
}
pub fn rt_unit<S: Src>(_s: &mut S) {
    let v = to_vec(&()).unwrap();
    assert!(same(&v, &[0x40], 1));
    assert!(serialized_size(&()).unwrap() == 1);
    let _: () = from_slice(&v).unwrap();
}

// C05 (decoder side): every spec-valid width variant of a primitive decodes to the value the spec assigns.
pub fn dec_u32_variants<S: Src>(s: &mut S) {
    let b: [u8; 4] = s.bytes();
    assert!(from_slice::<u32>(&[0x70, b[0], b[1], b[2], b[3]]).unwrap() == u32::from_be_bytes(b));
    assert!(from_slice::<u32>(&[0x52, b[0]]).unwrap() == b[0] as u32);
    assert!(from_slice::<u32>(&[0x43]).unwrap() == 0);
}
pub fn dec_u64_variants<S: Src>(s: &mut S) {
    let b: [u8; 8] = s.bytes();
    assert!(from_slice::<u64>(&[0x80, b[0], b[1], b[2], b[3], b[4], b[5], b[6], b[7]]).unwrap() == u64::from_be_bytes(b));
    assert!(from_slice::<u64>(&[0x53, b[0]]).unwrap() == b[0] as u64);
    assert!(from_slice::<u64>(&[0x44]).unwrap() == 0);
}
pub fn dec_i32_variants<S: Src>(s: &mut S) {
    let b: [u8; 4] = s.bytes();
    assert!(from_slice::<i32>(&[0x71, b[0], b[1], b[2], b[3]]).unwrap() == i32::from_be_bytes(b));
    assert!(from_slice::<i32>(&[0x54, b[0]]).unwrap() == b[0] as i8 as i32);
}
pub fn dec_i64_variants<S: Src>(s: &mut S) {
    let b: [u8; 8] = s.bytes();
    assert!(from_slice::<i64>(&[0x81, b[0], b[1], b[2], b[3], b[4], b[5], b[6], b[7]]).unwrap() == i64::from_be_bytes(b));
    assert!(from_slice::<i64>(&[0x55, b[0]]).unwrap() == b[0] as i8 as i64);
}
pub fn dec_bool_variants<S: Src>(_s: &mut S) {
    assert!(from_slice::<bool>(&[0x41]).unwrap() == true);
    assert!(from_slice::<bool>(&[0x42]).unwrap() == false);
    assert!(from_slice::<bool>(&[0x56, 0x01]).unwrap() == true);
    assert!(from_slice::<bool>(&[0x56, 0x00]).unwrap() == false);
}

// C04 (bounded stand-in): every byte string of length <= 3 decodes as the type to Ok or Err -- no panic, no overflow.
macro_rules! total3 {
    ($name:ident, $t:ty) => {
        pub fn $name<S: Src>(s: &mut S) {
            let b: [u8; 3] = s.bytes();
            let n = s.usize();
            s.assume(n <= 3);
            if n <= 3 { let _ = from_slice::<$t>(&b[..n]); }
        }
    };
}
total3!(total3_u32, u32);
total3!(total3_u64, u64);
total3!(total3_i32, i32);
total3!(total3_i64, i64);
total3!(total3_bool, bool);
total3!(total3_u8, u8);
total3!(total3_u16, u16);
total3!(total3_char, char);
total3!(total3_value, Value);

// compound headers with hostile size / count bytes (this is where `size - OFFSET` lives)
macro_rules! hdr3 {
    ($name:ident, $code:expr, $t:ty) => {
        pub fn $name<S: Src>(s: &mut S) {
            let size = s.u8();
            let count = s.u8();
            let buf = [$code, size, count];
            let _ = from_slice::<$t>(&buf);
        }
    };
}
hdr3!(hdr3_list8_vec, 0xc0u8, Vec<u8>);
hdr3!(hdr3_list8_tuple, 0xc0u8, (u8,));
hdr3!(hdr3_map8, 0xc1u8, std::collections::BTreeMap<u8, u8>);
hdr3!(hdr3_array8, 0xe0u8, serde_amqp::primitives::Array<u8>);

macro_rules! hdr5 {
    ($name:ident, $code:expr, $t:ty) => {
        pub fn $name<S: Src>(s: &mut S) {
            let size = s.u8();
            let count = s.u8();
            let a = s.u8();
            let b = s.u8();
            let n = s.usize();
            s.assume(n <= 5);
            let buf = [$code, size, count, a, b];
            if n <= 5 { let _ = from_slice::<$t>(&buf[..n]); }
        }
    };
}
hdr5!(total_list8_header_vec_u8, 0xc0u8, Vec<u8>);
hdr5!(total_array8_header_vec_u8, 0xe0u8, serde_amqp::primitives::Array<u8>);
hdr5!(total_map8_header, 0xc1u8, std::collections::BTreeMap<u8, u8>);

pub fn hdr_map8_one_key_no_value<S: Src>(s: &mut S) {
    let size = s.u8();
    let count = s.u8();
    s.assume(count <= 3);
    let a = s.u8();
    let buf = [0xc1, size, count, 0x50, a];
    let _ = from_slice::<std::collections::BTreeMap<u8, u8>>(&buf);
}

// C20: the stream reader and the slice reader agree and leave the tail untouched
pub fn reader_agrees_u32<S: Src>(s: &mut S) {
    let b: [u8; 7] = s.bytes();
    let r1 = from_slice::<u32>(&b);
    let mut cur = std::io::Cursor::new(&b[..]);
    let r2 = serde_amqp::from_reader::<u32>(&mut cur);
    match (r1, r2) {
        (Ok(x), Ok(y)) => {
            assert!(x == y, "C20: slice and stream decoders disagree");
            let used = match b[0] { 0x43 => 1, 0x52 => 2, _ => 5 };
            assert!(cur.position() as usize == used, "C20: stream reader consumed more/less than the encoding");
        }
        (Err(_), Err(_)) => {}
        _ => panic!("C20: one decoder accepts what the other rejects"),
    }
}

pub const ALL: &[&str] = &[
    "rt_u32", "rt_u64", "rt_i32", "rt_i64", "rt_u8", "rt_i8", "rt_u16", "rt_i16", "rt_bool", "rt_char", "rt_f32", "rt_f64", "rt_unit",
    "dec_u32_variants", "dec_u64_variants", "dec_i32_variants", "dec_i64_variants", "dec_bool_variants",
    "total3_u32", "total3_u64", "total3_i32", "total3_i64", "total3_bool", "total3_u8", "total3_u16", "total3_char", "total3_value",
    "hdr3_list8_vec", "hdr3_list8_tuple", "hdr3_map8", "hdr3_array8", "total_list8_header_vec_u8", "total_array8_header_vec_u8",
    "total_map8_header", "hdr_map8_one_key_no_value", "reader_agrees_u32",
];

pub fn dispatch<S: Src>(name: &str, s: &mut S) -> bool {
    macro_rules! d { ($($n:ident),*) => { match name { $( stringify!($n) => { $n(s); true } )* _ => false } } }
    d!(rt_u32, rt_u64, rt_i32, rt_i64, rt_u8, rt_i8, rt_u16, rt_i16, rt_bool, rt_char, rt_f32, rt_f64, rt_unit,
       dec_u32_variants, dec_u64_variants, dec_i32_variants, dec_i64_variants, dec_bool_variants,
       total3_u32, total3_u64, total3_i32, total3_i64, total3_bool, total3_u8, total3_u16, total3_char, total3_value,
       hdr3_list8_vec, hdr3_list8_tuple, hdr3_map8, hdr3_array8, total_list8_header_vec_u8, total_array8_header_vec_u8,
       total_map8_header, hdr_map8_one_key_no_value, reader_agrees_u32)
}
