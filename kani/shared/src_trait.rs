// Source of harness inputs: symbolic under Kani, a recorded byte string under replay.
pub trait Src {
    fn u8(&mut self) -> u8;
    fn assume(&mut self, c: bool);
    fn bool(&mut self) -> bool;
    fn u16(&mut self) -> u16;
    fn u32(&mut self) -> u32;
    fn u64(&mut self) -> u64;
    fn usize(&mut self) -> usize;
    fn i8(&mut self) -> i8;
    fn i16(&mut self) -> i16;
    fn i32(&mut self) -> i32;
    fn i64(&mut self) -> i64;
    fn char(&mut self) -> char;
    fn bytes<const N: usize>(&mut self) -> [u8; N] {
        let mut a = [0u8; N];
        let mut i = 0;
        while i < N { a[i] = self.u8(); i += 1; }
        a
    }
}

#[cfg(kani)]
pub struct KaniSrc;
#[cfg(kani)]
impl Src for KaniSrc {
    fn u8(&mut self) -> u8 { kani::any() }
    fn assume(&mut self, c: bool) { kani::assume(c) }
    fn bool(&mut self) -> bool { kani::any() }
    fn u16(&mut self) -> u16 { kani::any() }
    fn u32(&mut self) -> u32 { kani::any() }
    fn u64(&mut self) -> u64 { kani::any() }
    fn usize(&mut self) -> usize { kani::any() }
    fn i8(&mut self) -> i8 { kani::any() }
    fn i16(&mut self) -> i16 { kani::any() }
    fn i32(&mut self) -> i32 { kani::any() }
    fn i64(&mut self) -> i64 { kani::any() }
    fn char(&mut self) -> char { kani::any() }
}

/// replays the concrete values of a Kani counterexample (little-endian bytes of each `any()` in call order)
#[cfg(not(kani))]
pub struct ReplaySrc { pub data: Vec<u8>, pub pos: usize, pub assumption_violated: bool }
#[cfg(not(kani))]
impl ReplaySrc {
    fn take(&mut self, n: usize) -> u64 {
        let mut v = 0u64;
        for i in 0..n {
            let b = if self.pos < self.data.len() { self.data[self.pos] } else { 0 };
            self.pos += 1;
            v |= (b as u64) << (8 * i);
        }
        v
    }
}
#[cfg(not(kani))]
impl Src for ReplaySrc {
    fn u8(&mut self) -> u8 { self.take(1) as u8 }
    fn assume(&mut self, c: bool) { if !c { self.assumption_violated = true; } }
    fn bool(&mut self) -> bool { self.take(1) != 0 }
    fn u16(&mut self) -> u16 { self.take(2) as u16 }
    fn u32(&mut self) -> u32 { self.take(4) as u32 }
    fn u64(&mut self) -> u64 { self.take(8) }
    fn usize(&mut self) -> usize { self.take(8) as usize }
    fn i8(&mut self) -> i8 { self.take(1) as u8 as i8 }
    fn i16(&mut self) -> i16 { self.take(2) as u16 as i16 }
    fn i32(&mut self) -> i32 { self.take(4) as u32 as i32 }
    fn i64(&mut self) -> i64 { self.take(8) as i64 }
    fn char(&mut self) -> char { char::from_u32(self.take(4) as u32).unwrap_or('\0') }
}
