//! Kani harnesses on the real `fe2o3-amqp-types` crate: typed protocol items through the derive-generated
//! (de)serializers. BOUNDED stand-ins: scalar fields symbolic, compound/optional-map fields absent.
#![allow(unused)]
#[cfg(kani)]
mod harnesses {
    use fe2o3_amqp_types::definitions::Role;
    use fe2o3_amqp_types::messaging::{Accepted, DeliveryState, Released};
    use fe2o3_amqp_types::performatives::{Disposition, Flow};
    use serde_amqp::{from_slice, serialized_size, to_vec};

    #[kani::proof]
    #[kani::unwind(32)]
    fn rt_disposition_scalars() {
        let d = Disposition {
            role: if kani::any() { Role::Sender } else { Role::Receiver },
            first: kani::any(),
            last: if kani::any() { Some(kani::any()) } else { None },
            settled: kani::any(),
            state: if kani::any() { Some(DeliveryState::Accepted(Accepted {})) } else { None },
            batchable: kani::any(),
        };
        let v = to_vec(&d).unwrap();
        assert!(serialized_size(&d).unwrap() == v.len());
        let back: Disposition = from_slice(&v).unwrap();
        assert!(back == d);
    }

    #[kani::proof]
    #[kani::unwind(32)]
    fn rt_flow_scalars() {
        let f = Flow {
            next_incoming_id: if kani::any() { Some(kani::any()) } else { None },
            incoming_window: kani::any(),
            next_outgoing_id: kani::any(),
            outgoing_window: kani::any(),
            handle: if kani::any() { Some(fe2o3_amqp_types::definitions::Handle(kani::any())) } else { None },
            delivery_count: if kani::any() { Some(kani::any()) } else { None },
            link_credit: if kani::any() { Some(kani::any()) } else { None },
            available: if kani::any() { Some(kani::any()) } else { None },
            drain: kani::any(),
            echo: kani::any(),
            properties: None,
        };
        let v = to_vec(&f).unwrap();
        assert!(serialized_size(&f).unwrap() == v.len());
        let back: Flow = from_slice(&v).unwrap();
        assert!(back == f);
    }
}
