use serde_amqp::from_slice;

// C05 (decoder side): every spec-valid width variant of a primitive decodes to the value the spec assigns.
#[kani::proof]
#[kani::unwind(12)]
fn dec_u32_variants() {
    let b: [u8; 4] = kani::any();
    assert!(from_slice::<u32>(&[0x70, b[0], b[1], b[2], b[3]]).unwrap() == u32::from_be_bytes(b));
    assert!(from_slice::<u32>(&[0x52, b[0]]).unwrap() == b[0] as u32);
    assert!(from_slice::<u32>(&[0x43]).unwrap() == 0);
}
#[kani::proof]
#[kani::unwind(12)]
fn dec_u64_variants() {
    let b: [u8; 8] = kani::any();
    assert!(from_slice::<u64>(&[0x80, b[0], b[1], b[2], b[3], b[4], b[5], b[6], b[7]]).unwrap() == u64::from_be_bytes(b));
    assert!(from_slice::<u64>(&[0x53, b[0]]).unwrap() == b[0] as u64);
    assert!(from_slice::<u64>(&[0x44]).unwrap() == 0);
}
#[kani::proof]
#[kani::unwind(12)]
fn dec_i32_variants() {
    let b: [u8; 4] = kani::any();
    assert!(from_slice::<i32>(&[0x71, b[0], b[1], b[2], b[3]]).unwrap() == i32::from_be_bytes(b));
    assert!(from_slice::<i32>(&[0x54, b[0]]).unwrap() == b[0] as i8 as i32);
}
#[kani::proof]
#[kani::unwind(12)]
fn dec_i64_variants() {
    let b: [u8; 8] = kani::any();
    assert!(from_slice::<i64>(&[0x81, b[0], b[1], b[2], b[3], b[4], b[5], b[6], b[7]]).unwrap() == i64::from_be_bytes(b));
    assert!(from_slice::<i64>(&[0x55, b[0]]).unwrap() == b[0] as i8 as i64);
}
#[kani::proof]
#[kani::unwind(12)]
fn dec_bool_variants() {
    assert!(from_slice::<bool>(&[0x41]).unwrap() == true);
    assert!(from_slice::<bool>(&[0x42]).unwrap() == false);
    assert!(from_slice::<bool>(&[0x56, 0x01]).unwrap() == true);
    assert!(from_slice::<bool>(&[0x56, 0x00]).unwrap() == false);
}

// C04 (bounded stand-in): every byte string of length <= 3 decodes as the type to Ok or Err -- no panic, no overflow.
macro_rules! total3 {
    ($name:ident, $t:ty) => {
        #[kani::proof]
        #[kani::unwind(12)]
        fn $name() {
            let b: [u8; 3] = kani::any();
            let n: usize = kani::any();
            kani::assume(n <= 3);
            let _ = from_slice::<$t>(&b[..n]);
        }
    };
}
total3!(total3_u32, u32);
total3!(total3_u64, u64);
total3!(total3_i32, i32);
total3!(total3_i64, i64);
total3!(total3_bool, bool);
total3!(total3_u8, u8);
total3!(total3_u16, u16);
total3!(total3_char, char);

// ---- compound headers with hostile size / count bytes (C04 bounded; this is where `size - OFFSET` lives) ----
use serde_amqp::Value;

#[kani::proof]
#[kani::unwind(10)]
fn total_list8_header_vec_u8() {
    // list8: 0xc0 size count items...
    let size: u8 = kani::any();
    let count: u8 = kani::any();
    let a: u8 = kani::any();
    let b: u8 = kani::any();
    let n: usize = kani::any();
    kani::assume(n <= 5);
    let buf = [0xc0, size, count, a, b];
    let _ = from_slice::<Vec<u8>>(&buf[..n]);
}

#[kani::proof]
#[kani::unwind(10)]
fn total_array8_header_vec_u8() {
    // array8: 0xe0 size count ctor items...
    let size: u8 = kani::any();
    let count: u8 = kani::any();
    let a: u8 = kani::any();
    let b: u8 = kani::any();
    let n: usize = kani::any();
    kani::assume(n <= 5);
    let buf = [0xe0, size, count, a, b];
    let _ = from_slice::<serde_amqp::primitives::Array<u8>>(&buf[..n]);
}

#[kani::proof]
#[kani::unwind(10)]
fn total_map8_header() {
    let size: u8 = kani::any();
    let count: u8 = kani::any();
    let a: u8 = kani::any();
    let b: u8 = kani::any();
    let n: usize = kani::any();
    kani::assume(n <= 5);
    let buf = [0xc1, size, count, a, b];
    let _ = from_slice::<std::collections::BTreeMap<u8, u8>>(&buf[..n]);
}

#[kani::proof]
#[kani::unwind(26)]
fn total3_value() {
    let b: [u8; 3] = kani::any();
    let n: usize = kani::any();
    kani::assume(n <= 3);
    let _ = from_slice::<Value>(&b[..n]);
}

// C20: the stream reader and the slice reader agree and leave the tail untouched
#[kani::proof]
#[kani::unwind(12)]
fn reader_agrees_u32() {
    let b: [u8; 7] = kani::any();
    let r1 = from_slice::<u32>(&b);
    let mut cur = std::io::Cursor::new(&b[..]);
    let r2 = serde_amqp::from_reader::<u32>(&mut cur);
    match (r1, r2) {
        (Ok(x), Ok(y)) => {
            assert!(x == y);
            // bytes consumed by the stream reader == length of the encoding that was decoded
            let used = match b[0] { 0x43 => 1, 0x52 => 2, _ => 5 };
            assert!(cur.position() as usize == used);
        }
        (Err(_), Err(_)) => {}
        _ => assert!(false),
    }
}

// ---- small fixed-shape compound headers (quick tier): size and count bytes fully symbolic ----
macro_rules! hdr3 {
    ($name:ident, $code:expr, $t:ty) => {
        #[kani::proof]
        #[kani::unwind(8)]
        fn $name() {
            let size: u8 = kani::any();
            let count: u8 = kani::any();
            let buf = [$code, size, count];
            let _ = from_slice::<$t>(&buf);
        }
    };
}
hdr3!(hdr3_list8_vec, 0xc0u8, Vec<u8>);
hdr3!(hdr3_list8_tuple, 0xc0u8, (u8,));
hdr3!(hdr3_map8, 0xc1u8, std::collections::BTreeMap<u8, u8>);
hdr3!(hdr3_array8, 0xe0u8, serde_amqp::primitives::Array<u8>);

#[kani::proof]
#[kani::unwind(8)]
fn hdr_map8_one_key_no_value() {
    // map8 with a symbolic (possibly odd) count followed by exactly one ubyte
    let size: u8 = kani::any();
    let count: u8 = kani::any();
    kani::assume(count <= 3);
    let a: u8 = kani::any();
    let buf = [0xc1, size, count, 0x50, a];
    let _ = from_slice::<std::collections::BTreeMap<u8, u8>>(&buf);
}
