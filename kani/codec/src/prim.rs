use serde_amqp::{from_slice, to_vec, serialized_size};

/// spec oracle, written from the AMQP 1.0 type system (part 1, section 1.6), independent of format_code.rs
fn spec_u32(x: u32) -> ([u8; 5], usize) {
    let b = x.to_be_bytes();
    if x == 0 { ([0x43, 0, 0, 0, 0], 1) } else if x <= 255 { ([0x52, x as u8, 0, 0, 0], 2) } else { ([0x70, b[0], b[1], b[2], b[3]], 5) }
}
fn spec_u64(x: u64) -> ([u8; 9], usize) {
    let b = x.to_be_bytes();
    if x == 0 { ([0x44, 0, 0, 0, 0, 0, 0, 0, 0], 1) } else if x <= 255 { ([0x53, x as u8, 0, 0, 0, 0, 0, 0, 0], 2) }
    else { ([0x80, b[0], b[1], b[2], b[3], b[4], b[5], b[6], b[7]], 9) }
}
fn spec_i32(x: i32) -> ([u8; 5], usize) {
    let b = x.to_be_bytes();
    if x >= -128 && x <= 127 { ([0x54, x as i8 as u8, 0, 0, 0], 2) } else { ([0x71, b[0], b[1], b[2], b[3]], 5) }
}
fn spec_i64(x: i64) -> ([u8; 9], usize) {
    let b = x.to_be_bytes();
    if x >= -128 && x <= 127 { ([0x55, x as i8 as u8, 0, 0, 0, 0, 0, 0, 0], 2) }
    else { ([0x81, b[0], b[1], b[2], b[3], b[4], b[5], b[6], b[7]], 9) }
}

fn same(v: &[u8], spec: &[u8], n: usize) -> bool {
    if v.len() != n { return false; }
    let mut i = 0;
    while i < n { if v[i] != spec[i] { return false; } i += 1; }
    true
}

macro_rules! rt {
    ($name:ident, $t:ty, $spec:expr) => {
        #[kani::proof]
        #[kani::unwind(12)]
        fn $name() {
            let x: $t = kani::any();
            let v = to_vec(&x).unwrap();
            let (s, n) = ($spec)(x);
            assert!(same(&v, &s, n));                       // C05: smallest spec encoding, big-endian
            assert!(serialized_size(&x).unwrap() == v.len());   // C20: size without encoding == length of encoding
            let y: $t = from_slice(&v).unwrap();
            assert!(y == x);                                // C03: round trip
        }
    };
}

rt!(rt_u32, u32, spec_u32);
rt!(rt_u64, u64, spec_u64);
rt!(rt_i32, i32, spec_i32);
rt!(rt_i64, i64, spec_i64);
rt!(rt_u8, u8, |x: u8| ([0x50u8, x], 2usize));
rt!(rt_i8, i8, |x: i8| ([0x51u8, x as u8], 2usize));
rt!(rt_u16, u16, |x: u16| { let b = x.to_be_bytes(); ([0x60u8, b[0], b[1]], 3usize) });
rt!(rt_i16, i16, |x: i16| { let b = x.to_be_bytes(); ([0x61u8, b[0], b[1]], 3usize) });
rt!(rt_bool, bool, |x: bool| ([if x { 0x41u8 } else { 0x42u8 }], 1usize));
rt!(rt_char, char, |x: char| { let b = (x as u32).to_be_bytes(); ([0x73u8, b[0], b[1], b[2], b[3]], 5usize) });

#[kani::proof]
#[kani::unwind(12)]
fn rt_f32() {
    let bits: u32 = kani::any();
    let x = f32::from_bits(bits);
    let v = to_vec(&x).unwrap();
    let b = bits.to_be_bytes();
    assert!(same(&v, &[0x72, b[0], b[1], b[2], b[3]], 5));
    assert!(serialized_size(&x).unwrap() == v.len());
    let y: f32 = from_slice(&v).unwrap();
    assert!(y.to_bits() == bits);
}

#[kani::proof]
#[kani::unwind(12)]
fn rt_f64() {
    let bits: u64 = kani::any();
    let x = f64::from_bits(bits);
    let v = to_vec(&x).unwrap();
    let b = bits.to_be_bytes();
    assert!(same(&v, &[0x82, b[0], b[1], b[2], b[3], b[4], b[5], b[6], b[7]], 9));
    assert!(serialized_size(&x).unwrap() == v.len());
    let y: f64 = from_slice(&v).unwrap();
    assert!(y.to_bits() == bits);
}

#[kani::proof]
#[kani::unwind(12)]
fn rt_unit() {
    let v = to_vec(&()).unwrap();
    assert!(same(&v, &[0x40], 1));
    assert!(serialized_size(&()).unwrap() == 1);
    let _: () = from_slice(&v).unwrap();
}
