//! Kani harnesses on the real `serde_amqp` crate (path dependency on /repo).
//! `complete` harnesses are loop-free over full-domain symbolic inputs (a proof for all values);
//! `bounded` ones state their bound in vlib/props.py and are never counted as proved.
#![allow(unused)]
#[cfg(kani)]
mod prim;
#[cfg(kani)]
mod dec;
