//! Kani harnesses on the real `serde_amqp` crate (path dependency on /repo).
//! The harness bodies live in /verif/kani/shared and are shared with the replay program, so a
//! counterexample found here can be re-executed on the real code with the concrete values.
#![allow(unused)]
#[path = "../../shared/src_trait.rs"]
pub mod src_trait;
#[path = "../../shared/bodies_codec.rs"]
pub mod bodies;

#[cfg(kani)]
mod harnesses {
    use super::bodies;
    use super::src_trait::KaniSrc;
    macro_rules! h {
        ($name:ident, $unwind:expr) => {
            #[kani::proof]
            #[kani::unwind($unwind)]
            fn $name() { bodies::$name(&mut KaniSrc) }
        };
    }
    h!(rt_u32, 12); h!(rt_u64, 12); h!(rt_i32, 12); h!(rt_i64, 12); h!(rt_u8, 12); h!(rt_i8, 12); h!(rt_u16, 12); h!(rt_i16, 12);
    h!(rt_bool, 12); h!(rt_char, 12); h!(rt_f32, 12); h!(rt_f64, 12); h!(rt_unit, 12);
    h!(dec_u32_variants, 12); h!(dec_u64_variants, 12); h!(dec_i32_variants, 12); h!(dec_i64_variants, 12); h!(dec_bool_variants, 12);
    h!(total3_u32, 12); h!(total3_u64, 12); h!(total3_i32, 12); h!(total3_i64, 12); h!(total3_bool, 12); h!(total3_u8, 12); h!(total3_u16, 12); h!(total3_char, 12);
    h!(total3_value, 26);
    h!(hdr3_list8_vec, 8); h!(hdr3_list8_tuple, 8); h!(hdr3_map8, 8); h!(hdr3_array8, 24);
    h!(total_list8_header_vec_u8, 10); h!(total_array8_header_vec_u8, 24); h!(total_map8_header, 10); h!(hdr_map8_one_key_no_value, 8);
    h!(reader_agrees_u32, 12);
}
