//! Kani harnesses on the real `fe2o3-amqp` crate (public API only; no hook needed).
#![allow(unused)]
#[cfg(kani)]
mod sasl {
    use fe2o3_amqp::acceptor::sasl_acceptor::{SaslAcceptor, SaslPlainMechanism, SaslServerFrame};
    use fe2o3_amqp_types::primitives::{Binary, Symbol};
    use fe2o3_amqp_types::sasl::{SaslCode, SaslInit, SaslResponse};

    fn code_of(f: SaslServerFrame) -> Option<SaslCode> {
        match f { SaslServerFrame::Outcome(o) => Some(o.code), _ => None }
    }

    /// C19 (bounded): PLAIN accepts iff the initial response is exactly `[authzid] NUL user NUL pass` (RFC 4616: the password
    /// contains no NUL, so a third NUL makes the response invalid) with user/pass byte-equal to the configured ones.
    /// (An earlier version of this oracle accepted `... NUL pass NUL anything`, mirroring the code: D66.)
    #[kani::proof]
    #[kani::unwind(10)]
    fn plain_init_iff_valid() {
        let mut mech = SaslPlainMechanism::new("ab", "cd");
        let bytes: [u8; 7] = kani::any();
        let n: usize = kani::any();
        kani::assume(n <= 7);
        let resp = bytes[..n].to_vec();
        // independent oracle: split at the first three NULs
        let mut idx = [usize::MAX; 3];
        let mut k = 0;
        let mut i = 0;
        while i < n { if bytes[i] == 0 && k < 3 { idx[k] = i; k += 1; } i += 1; }
        let valid = k == 2 && {
            let u0 = idx[0] + 1; let u1 = idx[1];
            let p0 = idx[1] + 1; let p1 = n;
            u1 - u0 == 2 && bytes[u0] == b'a' && bytes[u0 + 1] == b'b'
                && p1 - p0 == 2 && bytes[p0] == b'c' && bytes[p0 + 1] == b'd'
        };
        let init = SaslInit { mechanism: Symbol::from("PLAIN"), initial_response: Some(Binary::from(resp)), hostname: None };
        let code = code_of(mech.on_init(init)).unwrap();
        assert!(matches!(code, SaslCode::Ok) == valid);
    }

    #[kani::proof]
    #[kani::unwind(10)]
    fn plain_missing_response_and_on_response_never_ok() {
        let mut mech = SaslPlainMechanism::new("ab", "cd");
        let init = SaslInit { mechanism: Symbol::from("PLAIN"), initial_response: None, hostname: None };
        assert!(!matches!(code_of(mech.on_init(init)).unwrap(), SaslCode::Ok));
        let b: [u8; 3] = kani::any();
        let r = SaslResponse { response: Binary::from(b.to_vec()) };
        assert!(!matches!(code_of(mech.on_response(r)).unwrap(), SaslCode::Ok));
    }
}

#[cfg(kani)]
mod helpers {
    use fe2o3_amqp::verif_facade as f;

    /// ASSUMED contract of session::consecutive_chunk_indices used by unit SESSION (bounded check on the real fn)
    #[kani::proof]
    #[kani::unwind(8)]
    fn cci_session_contract() {
        let n: usize = kani::any();
        kani::assume(n <= 4);
        let raw: [u32; 4] = kani::any();
        // strictly ascending (precondition: is_consecutive computes right - left)
        let mut i = 1;
        while i < n { kani::assume(raw[i - 1] < raw[i]); i += 1; }
        let ids = &raw[..n];
        let r = f::session_consecutive_chunk_indices(ids);
        // exactly the positions p in 1..n with ids[p] - ids[p-1] != 1, ascending
        let mut expect = [0usize; 4];
        let mut k = 0;
        let mut p = 1;
        while p < n { if ids[p] - ids[p - 1] != 1 { expect[k] = p; k += 1; } p += 1; }
        assert!(r.len() == k);
        let mut j = 0;
        while j < k { assert!(r[j] == expect[j]); j += 1; }
    }

    /// receiver side: a new run starts where ids are not consecutive OR the per-transfer settle mode changes
    #[kani::proof]
    #[kani::unwind(8)]
    fn cci_receiver_contract() {
        let n: usize = kani::any();
        kani::assume(n <= 2);
        let ids: [u32; 3] = kani::any();
        let modes: [Option<bool>; 3] = [kani::any(), kani::any(), None];
        let mut i = 1;
        while i < n { kani::assume(ids[i - 1] < ids[i]); i += 1; }
        let mut infos = Vec::new();
        let mut q = 0;
        while q < n { infos.push((ids[q], modes[q])); q += 1; }
        let r = f::receiver_consecutive_chunk_indices(&infos);
        let mut k = 0;
        let mut p = 1;
        while p < n {
            let brk = ids[p] - ids[p - 1] != 1 || modes[p] != modes[p - 1];
            if brk { assert!(k < r.len() && r[k] == p); k += 1; }
            p += 1;
        }
        assert!(r.len() == k);
    }

    /// ASSUMED contract of count_number_of_sections_and_offset used by unit REASM
    #[kani::proof]
    #[kani::unwind(10)]
    fn count_sections_bounds() {
        let n: usize = kani::any();
        kani::assume(n <= 6);
        let b: [u8; 6] = kani::any();
        let (number, offset) = f::count_number_of_sections_and_offset(&b[..n]);
        assert!(number as usize <= n);
        assert!(offset as usize <= n);
    }

    /// chained-buffer reader: successive reads return the concatenation of the frame payloads, in order
    #[kani::proof]
    #[kani::unwind(10)]
    fn chained_reader_is_concat() {
        let b: [u8; 5] = kani::any();
        let c1: usize = kani::any();
        let c2: usize = kani::any();
        kani::assume(c1 <= c2 && c2 <= 5);
        let chunks = vec![b[..c1].to_vec(), b[c1..c2].to_vec(), b[c2..].to_vec()];
        let a: usize = kani::any();
        let d: usize = kani::any();
        kani::assume(a <= 5 && d <= 5 && a + d <= 5);
        let out = f::chained_reader_reads(chunks, &[a, d]);
        assert!(out.len() == 2);
        assert!(out[0].len() == a);
        assert!(out[1].len() == d);
        let mut i = 0;
        while i < a { assert!(out[0][i] == b[i]); i += 1; }
        let mut j = 0;
        while j < d { assert!(out[1][j] == b[a + j]); j += 1; }
    }
}
