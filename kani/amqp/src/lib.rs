//! Kani harnesses on the real `fe2o3-amqp` crate (public API only; no hook needed).
#![allow(unused)]
#[cfg(kani)]
mod sasl {
    use fe2o3_amqp::acceptor::sasl_acceptor::{SaslAcceptor, SaslPlainMechanism, SaslServerFrame};
    use fe2o3_amqp_types::primitives::{Binary, Symbol};
    use fe2o3_amqp_types::sasl::{SaslCode, SaslInit, SaslResponse};

    fn code_of(f: SaslServerFrame) -> Option<SaslCode> {
        match f { SaslServerFrame::Outcome(o) => Some(o.code), _ => None }
    }

    /// C19 (bounded): PLAIN accepts iff the initial response is `authzid NUL user NUL pass [NUL ...]`
    /// with user/pass byte-equal to the configured ones.
    #[kani::proof]
    #[kani::unwind(10)]
    fn plain_init_iff_valid() {
        let mut mech = SaslPlainMechanism::new("ab", "cd");
        let bytes: [u8; 7] = kani::any();
        let n: usize = kani::any();
        kani::assume(n <= 7);
        let resp = bytes[..n].to_vec();
        // independent oracle: split at the first three NULs
        let mut idx = [usize::MAX; 3];
        let mut k = 0;
        let mut i = 0;
        while i < n { if bytes[i] == 0 && k < 3 { idx[k] = i; k += 1; } i += 1; }
        let valid = k >= 2 && {
            let u0 = idx[0] + 1; let u1 = idx[1];
            let p0 = idx[1] + 1; let p1 = if k >= 3 { idx[2] } else { n };
            u1 - u0 == 2 && bytes[u0] == b'a' && bytes[u0 + 1] == b'b'
                && p1 - p0 == 2 && bytes[p0] == b'c' && bytes[p0 + 1] == b'd'
        };
        let init = SaslInit { mechanism: Symbol::from("PLAIN"), initial_response: Some(Binary::from(resp)), hostname: None };
        let code = code_of(mech.on_init(init)).unwrap();
        assert!(matches!(code, SaslCode::Ok) == valid);
    }

    #[kani::proof]
    #[kani::unwind(10)]
    fn plain_missing_response_and_on_response_never_ok() {
        let mut mech = SaslPlainMechanism::new("ab", "cd");
        let init = SaslInit { mechanism: Symbol::from("PLAIN"), initial_response: None, hostname: None };
        assert!(!matches!(code_of(mech.on_init(init)).unwrap(), SaslCode::Ok));
        let b: [u8; 3] = kani::any();
        let r = SaslResponse { response: Binary::from(b.to_vec()) };
        assert!(!matches!(code_of(mech.on_response(r)).unwrap(), SaslCode::Ok));
    }
}
