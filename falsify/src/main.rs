//! Falsifier: for a failed Verus obligation of one of the arithmetic state-transition contracts, search for a
//! concrete input on which the REAL function (called through fe2o3_amqp::verif_facade, feature `verif-hooks`)
//! disagrees with the executable twin of the contract clause. Boundary grid x seeded random values.
//! usage: verif-falsify <family> <seed>      families: C07.flow C07.send C08.flow C09.enforce
use fe2o3_amqp::verif_facade as f;

const B: [u32; 12] = [0, 1, 2, 3, 5, 0x10, 0x100, 0x7FFF_FFFF, 0x8000_0000, 0xFFFF_FFF0, 0xFFFF_FFFE, 0xFFFF_FFFF];

struct Rng(u64);
impl Rng {
    fn next(&mut self) -> u32 {
        self.0 ^= self.0 << 13; self.0 ^= self.0 >> 7; self.0 ^= self.0 << 17;
        let v = (self.0 >> 16) as u32;
        // bias towards the wrap-around region and small numbers
        match self.0 % 4 { 0 => v % 64, 1 => 0xFFFF_FFFFu32.wrapping_sub(v % 64), 2 => B[(v % 12) as usize], _ => v }
    }
    fn opt(&mut self) -> Option<u32> { if self.next() % 3 == 0 { None } else { Some(self.next()) } }
}

fn window_from_peer(base: u32, iw: u32, noi: u32) -> u32 { iw.saturating_sub(noi.wrapping_sub(base)) }
fn credit_from_peer(dc_rcv: u32, credit: u32, dc_snd: u32) -> u32 { credit.saturating_sub(dc_snd.wrapping_sub(dc_rcv)) }

fn c07_flow(init: u32, noi: u32, riw: u32, nii: Option<u32>, iw: u32, fnoi: u32, fow: u32) -> Option<String> {
    let got = f::session_on_incoming_flow(init, noi, riw, nii, iw, fnoi, fow);
    let want = (window_from_peer(nii.unwrap_or(init), iw, noi), fnoi, fow, noi);
    if got != Some(want) {
        return Some(format!("Session::on_incoming_flow initial_outgoing_id={init:#x} next_outgoing_id={noi:#x} remote_incoming_window={riw:#x} flow{{next_incoming_id:{nii:x?}, incoming_window:{iw:#x}, next_outgoing_id:{fnoi:#x}, outgoing_window:{fow:#x}}} => (remote_incoming_window,next_incoming_id,remote_outgoing_window,next_outgoing_id) got {got:x?} want {want:x?}"));
    }
    None
}

fn c07_send(noi: u32, riw: u32, n: usize, with_tag: bool) -> Option<String> {
    let (ids, noi2, riw2, held) = f::session_on_outgoing_transfers(noi, riw, n, with_tag);
    let m = std::cmp::min(riw as usize, n);
    let want_ids: Vec<Option<u32>> = (0..m).map(|i| if with_tag { Some(noi.wrapping_add(i as u32)) } else { None }).collect();
    let want = (want_ids, noi.wrapping_add(m as u32), riw - m as u32, n - m);
    if (ids.clone(), noi2, riw2, held) != want {
        return Some(format!("Session::on_outgoing_transfer x{n} (with_tag={with_tag}) from next_outgoing_id={noi:#x} remote_incoming_window={riw:#x} => (delivery ids of frames emitted, next_outgoing_id, remote_incoming_window, held back) got {:x?} want {want:x?}", (ids, noi2, riw2, held)));
    }
    None
}

fn c08_flow(init: u32, dc: u32, credit: u32, fdc: Option<u32>, fcredit: Option<u32>, drain: bool, echo: bool) -> Option<String> {
    let got = f::sender_on_incoming_flow(init, dc, credit, fdc, fcredit, drain, echo);
    let c = match fcredit { Some(c) => credit_from_peer(fdc.unwrap_or(init), c, dc), None => credit };
    let want = if drain {
        let ndc = dc.wrapping_add(c);
        (ndc, 0, true, Some((Some(ndc), Some(0), true)))
    } else {
        (dc, c, false, if echo { Some((Some(dc), Some(c), false)) } else { None })
    };
    if got != want {
        return Some(format!("LinkFlowState<Sender>::on_incoming_flow initial_delivery_count={init:#x} delivery_count={dc:#x} link_credit={credit:#x} flow{{delivery_count:{fdc:x?}, link_credit:{fcredit:x?}, drain:{drain}, echo:{echo}}} => (delivery_count, link_credit, drain, flow returned) got {got:x?} want {want:x?}"));
    }
    None
}

fn c09_enforce(dc: u32, credit: u32, count: u32) -> Option<String> {
    let got = f::receiver_consume(dc, credit, count);
    let want = if credit < count { Err(()) } else { Ok((dc.wrapping_add(count), credit - count)) };
    if got != want {
        return Some(format!("LinkFlowState<Receiver>::consume delivery_count={dc:#x} link_credit={credit:#x} count={count} => got {got:x?} want {want:x?}"));
    }
    None
}

// ---- bounded exhaustive agreement runs for contracts that enter the Verus units as ASSUMED (iterator-adapter code outside the subset) ----
/// oracle: a new run starts at i+1 wherever ids[i+1] is not ids[i]+1 (or the per-delivery settle mode changes)
fn cci_oracle(ids: &[u32], modes: Option<&[Option<bool>]>) -> Vec<usize> {
    let mut r = Vec::new();
    for i in 0..ids.len().saturating_sub(1) {
        let consecutive = ids[i + 1].wrapping_sub(ids[i]) == 1 && ids[i + 1] > ids[i];
        let same_mode = modes.map(|m| m[i] == m[i + 1]).unwrap_or(true);
        if !(consecutive && same_mode) { r.push(i + 1); }
    }
    r
}
/// every ascending sequence of length <= 6 over a small id alphabet (the call sites sort / iterate ascending), every mode assignment
fn cci_all(receiver: bool, tried: &mut u64) -> Option<String> {
    const IDS: [u32; 8] = [0, 1, 2, 3, 5, 6, 0xFFFF_FFFE, 0xFFFF_FFFF];
    for len in 0..=6usize {
        let mut idx = vec![0usize; len];
        loop {
            let ids: Vec<u32> = idx.iter().map(|&k| IDS[k]).collect();
            if ids.windows(2).all(|w| w[0] <= w[1]) {
                if receiver {
                    let nm = 3usize.pow(len as u32);
                    for code in 0..nm {
                        let mut c = code;
                        let modes: Vec<Option<bool>> = (0..len).map(|_| { let d = c % 3; c /= 3; match d { 0 => None, 1 => Some(false), _ => Some(true) } }).collect();
                        *tried += 1;
                        let infos: Vec<(u32, Option<bool>)> = ids.iter().cloned().zip(modes.iter().cloned()).collect();
                        let got = f::receiver_consecutive_chunk_indices(&infos);
                        let want = cci_oracle(&ids, Some(&modes));
                        if got != want { return Some(format!("receiver_link::consecutive_chunk_indices {infos:x?} => got {got:?} want {want:?}")); }
                    }
                } else {
                    *tried += 1;
                    let got = f::session_consecutive_chunk_indices(&ids);
                    let want = cci_oracle(&ids, None);
                    if got != want { return Some(format!("session::consecutive_chunk_indices {ids:x?} => got {got:?} want {want:?}")); }
                }
            }
            // next tuple
            let mut k = 0;
            while k < len { idx[k] += 1; if idx[k] < IDS.len() { break; } idx[k] = 0; k += 1; }
            if k == len { break; }
        }
    }
    None
}
/// section counter: number of 3-byte section headers (00 53 7x / 00 80 .. 7x is not scanned here) and the distance from the last one to the end;
/// the units only assume the bounds, the oracle checks the exact meaning
fn sections_all(tried: &mut u64) -> Option<String> {
    const A: [u8; 7] = [0x00, 0x53, 0x70, 0x75, 0x78, 0x80, 0x01];
    for len in 0..=7usize {
        let mut idx = vec![0usize; len];
        loop {
            let b: Vec<u8> = idx.iter().map(|&k| A[k]).collect();
            *tried += 1;
            let (n, off) = f::count_number_of_sections_and_offset(&b);
            if n as usize > b.len() || off as usize > b.len() { return Some(format!("count_number_of_sections_and_offset {b:02x?} => ({n}, {off}) exceeds the input length {}", b.len())); }
            let mut want_n = 0u32; let mut last = 0usize;
            for i in 0..b.len().saturating_sub(2) { if b[i] == 0x00 && b[i + 1] == 0x53 && (0x70..=0x78).contains(&b[i + 2]) { want_n += 1; last = i; } }
            let want_off = (b.len() - last) as u64;
            if b.iter().all(|x| *x != 0x80) && (n, off) != (want_n, want_off) { return Some(format!("count_number_of_sections_and_offset {b:02x?} => got ({n}, {off}) want ({want_n}, {want_off})")); }
            let mut k = 0;
            while k < len { idx[k] += 1; if idx[k] < A.len() { break; } idx[k] = 0; k += 1; }
            if k == len { break; }
        }
    }
    None
}

/// bounded round trip of untyped values: every leaf class, then up to two levels of compound wrappers around it
mod value_rt {
    use serde_amqp::{from_slice, to_vec, Value, primitives::*, described::Described, descriptor::Descriptor};
    fn leaves() -> Vec<Value> {
        vec![Value::Null, Value::Bool(true), Value::Bool(false), Value::Ubyte(1), Value::Ushort(2), Value::Uint(0), Value::Uint(3), Value::Uint(300), Value::Ulong(0), Value::Ulong(5), Value::Ulong(500),
            Value::Byte(-1), Value::Short(-2), Value::Int(-3), Value::Int(-300), Value::Long(-4), Value::Long(-400), Value::Float(1.5f32.into()), Value::Double(2.5f64.into()),
            Value::Decimal32(Dec32::from([1, 2, 3, 4])), Value::Decimal64(Dec64::from([1, 2, 3, 4, 5, 6, 7, 8])), Value::Decimal128(Dec128::from([9u8; 16])),
            Value::Char('x'), Value::Char('\u{1F600}'), Value::Timestamp(Timestamp::from(12345)), Value::Uuid(Uuid::from([7u8; 16])),
            Value::Binary(vec![1u8, 2, 3].into()), Value::Binary(vec![0u8; 255].into()), Value::Binary(vec![0u8; 256].into()),
            Value::String("h\u{e9}llo".into()), Value::String("x".repeat(255)), Value::String("\u{e9}".repeat(128)), Value::Symbol(Symbol::from("sym")), Value::Symbol(Symbol::from("s".repeat(256))),
            Value::List(vec![]), Value::Map(Default::default()), Value::Array(Array::from(vec![]))]
    }
    fn is_described(v: &Value) -> bool { matches!(v, Value::Described(_)) }
    /// the compound wrappers
    fn wrap(x: &Value) -> Vec<Value> {
        let mut out = vec![];
        out.push(Value::Array(Array::from(vec![x.clone()])));
        out.push(Value::Array(Array::from(vec![x.clone(), x.clone()])));
        out.push(Value::Array(Array::from(vec![x.clone(); 3])));
        out.push(Value::Array(Array::from(vec![x.clone(); 300])));
        out.push(Value::List(vec![x.clone()]));
        out.push(Value::List(vec![x.clone(), Value::Int(7), x.clone()]));
        let mut m = Value::Map(Default::default());
        if let Value::Map(mm) = &mut m { mm.insert(x.clone(), x.clone()); mm.insert(Value::Symbol(Symbol::from("k")), x.clone()); }
        out.push(m);
        // a map entry whose VALUE is of another kind than its key (a one-shot marker set by the key -- timestamp, array -- must not reach the value: D26, D68)
        let mut m2 = Value::Map(Default::default());
        if let Value::Map(mm) = &mut m2 { mm.insert(x.clone(), Value::List(vec![Value::Int(7), Value::Bool(true)])); }
        out.push(m2);
        let mut m3 = Value::Map(Default::default());
        if let Value::Map(mm) = &mut m3 { mm.insert(x.clone(), Value::Long(5)); }
        out.push(m3);
        // arrays of compound elements of DIFFERENT encoded widths under one element constructor (D69)
        out.push(Value::Array(Array::from(vec![Value::List(vec![]), Value::List(vec![x.clone()])])));
        out.push(Value::Array(Array::from(vec![Value::List(vec![x.clone()]), Value::List(vec![])])));
        out.push(Value::Array(Array::from(vec![Value::List(vec![x.clone()]), Value::List(vec![x.clone(); 40])])));
        out.push(Value::Described(Box::new(Described { descriptor: Descriptor::Code(0x13), value: x.clone() })));
        out.push(Value::Described(Box::new(Described { descriptor: Descriptor::Name(Symbol::from("a:b")), value: x.clone() })));
        out
    }
    /// input classes kept apart (known findings): 1 = an array of described values occurs in it (D18), 2 = an array of two or more zero-width elements (null, empty list) occurs in it (D19)
    fn class(v: &Value) -> u8 {
        match v {
            Value::Array(a) => {
                let mut c = 0;
                if a.0.first().map(is_described).unwrap_or(false) { c |= 1; }
                if a.0.len() >= 2 && (matches!(a.0[0], Value::Null) || matches!(&a.0[0], Value::List(l) if l.is_empty())) { c |= 2; }
                a.0.first().map(class).unwrap_or(0) | c
            }
            Value::List(l) => l.iter().fold(0, |c, x| c | class(x)),
            Value::Map(m) => m.iter().fold(0, |c, (k, x)| c | class(k) | class(x)),
            Value::Described(d) => class(&d.value),
            _ => 0,
        }
    }
    fn rt(v: &Value) -> Option<String> {
        let show = |v: &Value| -> String { let s = format!("{:?}", v); s.chars().take(160).collect() };
        let b = match std::panic::catch_unwind(|| to_vec(v)) {
            Err(_) => return Some(format!("serde_amqp::to_vec({}) PANICS", show(v))),
            Ok(Err(e)) => return Some(format!("serde_amqp::to_vec({}) fails: {:?}", show(v), e)),
            Ok(Ok(b)) => b,
        };
        let hx: String = b.iter().take(48).map(|x| format!("{:02x}", x)).collect::<Vec<_>>().join(" ");
        match std::panic::catch_unwind(|| serde_amqp::serialized_size(v)) {
            Ok(Ok(n)) if n != b.len() => return Some(format!("serde_amqp::serialized_size({}) = {} but to_vec writes {} octets [{}{}]", show(v), n, b.len(), hx, if b.len() > 48 { " .." } else { "" })),
            Err(_) => return Some(format!("serde_amqp::serialized_size({}) PANICS", show(v))),
            _ => {}
        }
        match std::panic::catch_unwind(|| from_slice::<Value>(&b)) {
            Err(_) => Some(format!("serde_amqp round trip: {} is encoded as [{}{}] ({} bytes), on which from_slice PANICS", show(v), hx, if b.len() > 48 { " .." } else { "" }, b.len())),
            Ok(Err(e)) => Some(format!("serde_amqp round trip: {} is encoded as [{}{}] ({} bytes), which does not decode: {:?}", show(v), hx, if b.len() > 48 { " .." } else { "" }, b.len(), e)),
            Ok(Ok(d)) if d != *v => Some(format!("serde_amqp round trip: {} is encoded as [{}{}] ({} bytes), which decodes to a different value {}", show(v), hx, if b.len() > 48 { " .." } else { "" }, b.len(), show(&d))),
            Ok(Ok(_)) => None,
        }
    }
    /// every leaf, every wrapper of a leaf, every wrapper of those; `want` selects the input class (0: everything outside the two known classes)
    pub fn all(want: u8, tried: &mut u64) -> Option<String> {
        std::panic::set_hook(Box::new(|_| {}));
        let l0 = leaves();
        let mut l1 = vec![];
        for x in &l0 { l1.extend(wrap(x)); }
        let all_fail = std::env::var("VERIF_RT_ALL").is_ok();
        let mut first = None;
        let mut one = |v: &Value, tried: &mut u64| -> bool {
            let c = class(v);
            if (want == 0 && c != 0) || (want != 0 && c & want == 0) { return false; }
            *tried += 1;
            if let Some(m) = rt(v) { if all_fail { println!("FAIL {}", m); } if first.is_none() { first = Some(m); } return !all_fail; }
            false
        };
        for v in l0.iter().chain(l1.iter()) { if one(v, tried) { return first; } }
        for x in &l1 { for v in wrap(x) { if one(&v, tried) { return first; } } }
        first
    }
}

/// C20: `serialized_size(v) == to_vec(v).len()` for DESCRIBED composites (derive(SerializeComposite): described list / described basic), which do not
/// occur among untyped `Value`s: empty bodies, bodies on both sides of the list8 / list32 boundary, composites nested in composites
mod size_composites {
    use fe2o3_amqp::types::{definitions::{self, Role}, messaging::{Accepted, Released, Rejected, Modified, Received, Header, Properties, ApplicationProperties, Data, AmqpValue, DeliveryState, Outcome}, performatives::{Disposition, End, Detach, Flow}};
    use serde_amqp::{serialized_size, to_vec, primitives::Binary, Value};
    fn one<T: serde_amqp::serde::Serialize + std::fmt::Debug>(v: &T, tried: &mut u64) -> Option<String> {
        *tried += 1;
        let b = match to_vec(v) { Ok(b) => b, Err(e) => return Some(format!("to_vec({:.120?}) fails: {:?}", v, e)) };
        match serialized_size(v) {
            Ok(n) if n == b.len() => None,
            Ok(n) => { let hx: String = b.iter().take(24).map(|x| format!("{:02x}", x)).collect::<Vec<_>>().join(" ");
                Some(format!("serde_amqp::serialized_size({:.120?}) = {} but to_vec writes {} octets [{}{}]", v, n, b.len(), hx, if b.len() > 24 { " .." } else { "" })) }
            Err(e) => Some(format!("serialized_size({:.120?}) fails: {:?}", v, e)),
        }
    }
    pub fn all(tried: &mut u64) -> Option<String> {
        macro_rules! t { ($e:expr) => { if let Some(m) = one(&$e, tried) { return Some(m); } } }
        t!(Accepted {}); t!(Released {}); t!(Rejected { error: None }); t!(Modified { delivery_failed: None, undeliverable_here: None, message_annotations: None });
        t!(Received { section_number: 1, section_offset: 2 });
        t!(End { error: None }); t!(Header::default()); t!(Properties::default());
        t!(DeliveryState::Accepted(Accepted {})); t!(Outcome::Released(Released {}));
        t!(Disposition { role: Role::Receiver, first: 0, last: None, settled: true, state: Some(DeliveryState::Accepted(Accepted {})), batchable: false });
        t!(Detach { handle: 3u32.into(), closed: true, error: Some(definitions::Error::new(definitions::AmqpError::InternalError, Some("x".repeat(300)), None)) });
        t!(Flow { next_incoming_id: Some(1), incoming_window: 2, next_outgoing_id: 3, outgoing_window: 4, handle: None, delivery_count: None, link_credit: None, available: None, drain: false, echo: false, properties: None });
        // a described list whose body crosses the list8 / list32 boundary (descriptor 3 octets): every body size 230 ..= 270
        for n in 220usize..=270 {
            t!(Properties { user_id: Some(Binary::from(vec![7u8; n])), ..Default::default() });
            t!(Rejected { error: Some(definitions::Error::new(definitions::AmqpError::InternalError, Some("d".repeat(n)), None)) });
        }
        for n in [0usize, 1, 252, 253, 254, 255, 256, 300] { t!(Data(Binary::from(vec![1u8; n]))); t!(AmqpValue(Value::String("s".repeat(n)))); }
        t!(ApplicationProperties::default());
        None
    }
}

/// C20: "converting a typed value to the untyped value tree and back is equivalent to going through bytes":
/// from_value::<T>(to_value(&v)) agrees with from_slice::<T>(&to_vec(&v)) (both Ok with equal values)
mod value_tree {
    use std::collections::BTreeMap;
    use fe2o3_amqp::types::{definitions::Role, messaging::{Accepted, Header, Properties, DeliveryState, Data, AmqpValue}, performatives::{Disposition, End}};
    use serde_amqp::{from_slice, from_value, to_value, to_vec, described::Described, descriptor::Descriptor, primitives::*, serde::{de::DeserializeOwned, Serialize}, Value};
    fn one<T: Serialize + DeserializeOwned + PartialEq + std::fmt::Debug>(v: &T, tried: &mut u64) -> Option<String> {
        *tried += 1;
        let via_bytes: Result<T, String> = to_vec(v).map_err(|e| format!("{:?}", e)).and_then(|b| from_slice::<T>(&b).map_err(|e| format!("{:?}", e)));
        let tree = to_value(v);
        let via_tree: Result<T, String> = match &tree { Ok(t) => from_value::<T>(t.clone()).map_err(|e| format!("{:?}", e)), Err(e) => Err(format!("to_value: {:?}", e)) };
        let same = match (&via_bytes, &via_tree) { (Ok(a), Ok(b)) => a == b && a == v, _ => false };
        if same { None } else {
            Some(format!("{} {:.100?}: through bytes {:.140?}; through the value tree ({:.100?}) {:.140?}", std::any::type_name::<T>(), v, via_bytes, tree.ok(), via_tree))
        }
    }
    pub fn all(class: u8, tried: &mut u64) -> Option<String> {
        macro_rules! t { ($e:expr) => { if let Some(m) = one(&$e, tried) { return Some(m); } } }
        match class {
            // plain (undescribed) typed values: primitives, sequences, tuples, maps, arrays -- arrays of lists / tuples included
            0 => {
                t!(7i32); t!(-7i64); t!(200u8); t!(0u32); t!(300u32); t!(0u64); t!(5_000_000_000u64); t!(true); t!(false); t!('x'); t!(1.5f32); t!(-2.5f64); t!(-3i8); t!(-300i16); t!(60000u16);
                t!(String::from("h\u{e9}llo")); t!("x".repeat(300)); t!(Symbol::from("sym")); t!(Binary::from(vec![1u8, 2, 3])); t!(Binary::from(vec![0u8; 300]));
                t!(Timestamp::from(12345)); t!(Uuid::from([7u8; 16])); t!(Dec32::from([1, 2, 3, 4])); t!(Dec64::from([1u8; 8])); t!(Dec128::from([9u8; 16]));
                t!(None::<i32>); t!(Some(5i32)); t!(Some(String::from("s"))); t!(());
                t!(Vec::<i32>::new()); t!(vec![1i32, 2, 3]); t!(vec![String::from("a"), String::from("b")]); t!(vec![vec![1i32], vec![], vec![2, 3]]); t!(vec![Some(1i32), None]);
                t!((1i32, String::from("x"))); t!((true, 2u8, Symbol::from("s")));
                t!(BTreeMap::from([(String::from("a"), 1i32), (String::from("b"), 2)])); t!(BTreeMap::from([(1i32, vec![1i32, 2])]));
                t!(OrderedMap::<Symbol, i32>::from_iter([(Symbol::from("k"), 1)])); t!(OrderedMap::<String, String>::from_iter([(String::from("k"), String::from("v"))]));
                t!(Array::from(Vec::<i32>::new())); t!(Array::from(vec![1i32, 2, 3])); t!(Array::from(vec![Symbol::from("a"), Symbol::from("b")])); t!(Array::from(vec![String::from("a")]));
                t!(Array::from(vec![vec![1i32], vec![2i32]])); t!(Array::from(vec![(1i32, 2i32), (3, 4)])); t!(Array::from(vec![Array::from(vec![1i32]), Array::from(vec![2i32, 3])]));
                t!(vec![Array::from(vec![1u8, 2])]); t!(Some(Array::from(vec![true, false])));
                None
            }
            // described types (derive(SerializeComposite / DeserializeComposite), Described<T>)
            1 => {
                t!(Accepted {}); t!(End { error: None }); t!(Header::default()); t!(Properties { user_id: Some(Binary::from(vec![1u8, 2])), ..Default::default() });
                t!(Disposition { role: Role::Receiver, first: 0, last: None, settled: true, state: Some(DeliveryState::Accepted(Accepted {})), batchable: false });
                t!(Data(Binary::from(vec![1u8]))); t!(AmqpValue(7i32));
                t!(Described { descriptor: Descriptor::Code(0x13), value: 7i32 });
                None
            }
            // the untyped tree itself as the target type
            _ => {
                t!(Value::Int(1)); t!(Value::String("s".into())); t!(Value::Symbol(Symbol::from("s"))); t!(Value::Timestamp(Timestamp::from(5)));
                t!(Value::List(vec![Value::Int(1), Value::Bool(true)])); t!(Value::Array(Array::from(vec![Value::Int(1), Value::Int(2)])));
                t!(Value::Described(Box::new(Described { descriptor: Descriptor::Code(0x24), value: Value::List(vec![]) })));
                t!(OrderedMap::<Symbol, Value>::from_iter([(Symbol::from("k"), Value::Symbol(Symbol::from("v")))]));
                None
            }
        }
    }
}

/// C05: "trailing-field elision, null-for-default": a composite whose defaulted fields are elided (or sent as null) decodes to the value the
/// SPECIFICATION gives those fields (AMQP 1.0 part 2 / part 3 field tables) -- the expected values are written out here, not taken from `Default`
mod spec_defaults {
    use fe2o3_amqp::types::{definitions::{ReceiverSettleMode, SenderSettleMode}, messaging::{Header, Source, Target, TerminusDurability, TerminusExpiryPolicy},
        performatives::{Attach, Begin, Detach, Disposition, Flow, Open, Transfer}};
    use serde_amqp::from_slice;
    pub fn all(tried: &mut u64) -> Option<String> {
        macro_rules! dec { ($t:ty, $b:expr) => { { *tried += 1; match from_slice::<$t>(&$b) { Ok(v) => v, Err(e) => return Some(format!("{} from {:02x?} does not decode: {:?}", stringify!($t), $b, e)) } } } }
        macro_rules! chk { ($what:expr, $got:expr, $want:expr) => { if $got != $want { return Some(format!("{}: decoded {:?}, the specification's default is {:?}", $what, $got, $want)); } } }
        for (how, b) in [("all fields elided (list0)", vec![0x00u8, 0x53, 0x70, 0x45]), ("all fields null", vec![0x00, 0x53, 0x70, 0xc0, 0x06, 0x05, 0x40, 0x40, 0x40, 0x40, 0x40]), ("empty list8", vec![0x00, 0x53, 0x70, 0xc0, 0x01, 0x00])] {
            let h = dec!(Header, b);
            chk!(format!("header.durable, {}", how), h.durable, false); chk!(format!("header.priority, {}", how), h.priority.0, 4u8); chk!(format!("header.ttl, {}", how), h.ttl.is_none(), true);
            chk!(format!("header.first-acquirer, {}", how), h.first_acquirer, false); chk!(format!("header.delivery-count, {}", how), h.delivery_count, 0u32);
        }
        let o = dec!(Open, [0x00u8, 0x53, 0x10, 0xc0, 0x03, 0x01, 0xa1, 0x00]);
        chk!("open.max-frame-size elided", o.max_frame_size.0, 4294967295u32); chk!("open.channel-max elided", o.channel_max.0, 65535u16); chk!("open.idle-time-out elided", o.idle_time_out.is_none(), true);
        let b = dec!(Begin, [0x00u8, 0x53, 0x11, 0xc0, 0x05, 0x04, 0x40, 0x43, 0x43, 0x43]);
        chk!("begin.handle-max elided", b.handle_max.0, 4294967295u32);
        let a = dec!(Attach, [0x00u8, 0x53, 0x12, 0xc0, 0x07, 0x03, 0xa1, 0x01, 0x6e, 0x43, 0x42]);
        chk!("attach.snd-settle-mode elided", a.snd_settle_mode, SenderSettleMode::Mixed); chk!("attach.rcv-settle-mode elided", a.rcv_settle_mode, ReceiverSettleMode::First);
        chk!("attach.incomplete-unsettled elided", a.incomplete_unsettled, false);
        let f = dec!(Flow, [0x00u8, 0x53, 0x13, 0xc0, 0x05, 0x04, 0x40, 0x43, 0x43, 0x43]);
        chk!("flow.drain elided", f.drain, false); chk!("flow.echo elided", f.echo, false);
        let t = dec!(Transfer, [0x00u8, 0x53, 0x14, 0xc0, 0x02, 0x01, 0x43]);
        chk!("transfer.more elided", t.more, false); chk!("transfer.aborted elided", t.aborted, false); chk!("transfer.batchable elided", t.batchable, false); chk!("transfer.resume elided", t.resume, false);
        chk!("transfer.settled elided", t.settled.is_none(), true);
        let d = dec!(Disposition, [0x00u8, 0x53, 0x15, 0xc0, 0x03, 0x02, 0x41, 0x43]);
        chk!("disposition.settled elided", d.settled, false); chk!("disposition.batchable elided", d.batchable, false);
        let d = dec!(Detach, [0x00u8, 0x53, 0x16, 0xc0, 0x02, 0x01, 0x43]);
        chk!("detach.closed elided", d.closed, false);
        let s = dec!(Source, [0x00u8, 0x53, 0x28, 0x45]);
        chk!("source.durable elided", s.durable, TerminusDurability::None); chk!("source.expiry-policy elided", s.expiry_policy, TerminusExpiryPolicy::SessionEnd); chk!("source.timeout elided", s.timeout, 0u32); chk!("source.dynamic elided", s.dynamic, false);
        let t = dec!(Target, [0x00u8, 0x53, 0x29, 0x45]);
        chk!("target.durable elided", t.durable, TerminusDurability::None); chk!("target.expiry-policy elided", t.expiry_policy, TerminusExpiryPolicy::SessionEnd); chk!("target.timeout elided", t.timeout, 0u32); chk!("target.dynamic elided", t.dynamic, false);
        None
    }
}

/// C05 / C03 / C20: "every spec-valid encoding of a value -- whichever width variant the peer chose -- decodes to that same value", for the TYPED
/// protocol items (derive(DeserializeComposite): DescribedAccess, consume_list_header, the field visitors), and "whatever follows an encoded value
/// is left untouched". Each sample is encoded by the crate, its outer described list is re-written in EVERY valid width (list8 <-> list32; list0
/// stays), a marker value is appended, and the bytes are decoded from a slice and from a stream: the value must be the sample, the marker must follow.
mod composite_variants {
    use fe2o3_amqp::types::{definitions::{self, Role}, messaging::{Accepted, Released, Rejected, Modified, Received, Header, Properties, ApplicationProperties, Data, AmqpValue, DeliveryState, Outcome, Source, Target, MessageId},
        performatives::{Begin, Close, Detach, Disposition, End, Flow, Open, Transfer}};
    use serde_amqp::{to_vec, primitives::{Binary, Symbol}, Value, serde::{de::DeserializeOwned, Deserialize, Serialize}};
    /// (descriptor length, list constructor offset) of `00 <descriptor> <list>`; None if the bytes are not a described list
    fn split(b: &[u8]) -> Option<usize> {
        if b.len() < 3 || b[0] != 0x00 { return None; }
        let d = match b[1] { 0x53 => 2, 0x80 => 9, 0x44 => 1, 0xa3 => 2 + b[2] as usize, _ => return None };
        Some(1 + d)
    }
    fn variants(b: &[u8]) -> Vec<(String, Vec<u8>)> {
        let mut out = vec![("as written".to_string(), b.to_vec())];
        let at = match split(b) { Some(a) if a < b.len() => a, _ => return out };
        let head = &b[..at];
        match b[at] {
            0xc0 if b.len() >= at + 3 => {
                let (size, count) = (b[at + 1] as u32, b[at + 2] as u32);
                let body = &b[at + 3..];
                let mut v = head.to_vec(); v.push(0xd0); v.extend_from_slice(&(size + 3).to_be_bytes()); v.extend_from_slice(&count.to_be_bytes()); v.extend_from_slice(body);
                out.push(("outer list8 re-written as list32".to_string(), v));
            }
            0xd0 if b.len() >= at + 9 => {
                let size = u32::from_be_bytes([b[at + 1], b[at + 2], b[at + 3], b[at + 4]]);
                let count = u32::from_be_bytes([b[at + 5], b[at + 6], b[at + 7], b[at + 8]]);
                let body = &b[at + 9..];
                if size - 4 + 1 <= 255 && count <= 255 {
                    let mut v = head.to_vec(); v.push(0xc0); v.push((size - 4 + 1) as u8); v.push(count as u8); v.extend_from_slice(body);
                    out.push(("outer list32 re-written as list8".to_string(), v));
                }
            }
            0x45 => {
                let mut v = head.to_vec(); v.extend_from_slice(&[0xc0, 0x01, 0x00]); out.push(("outer list0 re-written as an empty list8".to_string(), v));
                let mut v = head.to_vec(); v.extend_from_slice(&[0xd0, 0, 0, 0, 4, 0, 0, 0, 0]); out.push(("outer list0 re-written as an empty list32".to_string(), v));
            }
            _ => {}
        }
        out
    }
    fn hx(b: &[u8]) -> String { let s: String = b.iter().take(40).map(|x| format!("{:02x}", x)).collect::<Vec<_>>().join(" "); if b.len() > 40 { format!("{} .. ({} octets)", s, b.len()) } else { s } }
    fn one<T: Serialize + DeserializeOwned + PartialEq + std::fmt::Debug>(v: &T, tried: &mut u64) -> Option<String> {
        let b = match to_vec(v) { Ok(b) => b, Err(e) => return Some(format!("to_vec({:.100?}) fails: {:?}", v, e)) };
        for (how, mut enc) in variants(&b) {
            *tried += 1;
            let n = enc.len();
            enc.extend_from_slice(&[0x54, 0x07, 0xa1, 0x02, b'o', b'k']);       // what follows the value: int 7, then the string "ok"
            // from a slice
            let r = std::panic::catch_unwind(|| {
                let mut de = serde_amqp::de::Deserializer::new(serde_amqp::read::SliceReader::new(&enc));
                let a = T::deserialize(&mut de).map_err(|e| format!("{:?}", e))?;
                let m = i32::deserialize(&mut de).map_err(|e| format!("the value that FOLLOWS it does not decode: {:?}", e))?;
                let s = String::deserialize(&mut de).map_err(|e| format!("the second value that follows it does not decode: {:?}", e))?;
                Ok::<(T, i32, String), String>((a, m, s))
            });
            match r {
                Err(_) => return Some(format!("{} {:.100?}, {} [{}]: decoding from a slice PANICS", std::any::type_name::<T>(), v, how, hx(&enc[..n]))),
                Ok(Err(e)) => return Some(format!("{} {:.100?}, {} [{}] followed by `54 07 a1 02 6f 6b`: from a slice: {}", std::any::type_name::<T>(), v, how, hx(&enc[..n]), e)),
                Ok(Ok((a, m, s))) => if a != *v || m != 7 || s != "ok" { return Some(format!("{} {:.100?}, {} [{}] followed by int 7, \"ok\": from a slice decoded {:.100?}, then {} and {:?}", std::any::type_name::<T>(), v, how, hx(&enc[..n]), a, m, s)); }
            }
            // from a stream
            let r = std::panic::catch_unwind(|| {
                let mut de = serde_amqp::de::Deserializer::new(serde_amqp::read::IoReader::new(std::io::Cursor::new(enc.clone())));
                let a = T::deserialize(&mut de).map_err(|e| format!("{:?}", e))?;
                let m = i32::deserialize(&mut de).map_err(|e| format!("the value that FOLLOWS it does not decode: {:?}", e))?;
                let s = String::deserialize(&mut de).map_err(|e| format!("the second value that follows it does not decode: {:?}", e))?;
                Ok::<(T, i32, String), String>((a, m, s))
            });
            match r {
                Err(_) => return Some(format!("{} {:.100?}, {} [{}]: decoding from a stream PANICS", std::any::type_name::<T>(), v, how, hx(&enc[..n]))),
                Ok(Err(e)) => return Some(format!("{} {:.100?}, {} [{}] followed by `54 07 a1 02 6f 6b`: from a stream: {}", std::any::type_name::<T>(), v, how, hx(&enc[..n]), e)),
                Ok(Ok((a, m, s))) => if a != *v || m != 7 || s != "ok" { return Some(format!("{} {:.100?}, {} [{}] followed by int 7, \"ok\": from a stream decoded {:.100?}, then {} and {:?}", std::any::type_name::<T>(), v, how, hx(&enc[..n]), a, m, s)); }
            }
        }
        None
    }
    pub fn all(tried: &mut u64) -> Option<String> {
        std::panic::set_hook(Box::new(|_| {}));
        macro_rules! t { ($e:expr) => { if let Some(m) = one(&$e, tried) { return Some(m); } } }
        let err = |n: usize| definitions::Error::new(definitions::AmqpError::InternalError, Some("d".repeat(n)), None);
        t!(Accepted {}); t!(Released {}); t!(Rejected { error: None }); t!(Rejected { error: Some(err(3)) });
        t!(Modified { delivery_failed: Some(true), undeliverable_here: None, message_annotations: None });
        t!(Received { section_number: 1, section_offset: 2 }); t!(Received { section_number: 0, section_offset: 0 });
        t!(DeliveryState::Accepted(Accepted {})); t!(DeliveryState::Rejected(Rejected { error: Some(err(300)) })); t!(Outcome::Released(Released {}));
        t!(Open { container_id: "c".into(), hostname: Some("h".into()), max_frame_size: 512.into(), channel_max: 9.into(), idle_time_out: Some(1000), outgoing_locales: None, incoming_locales: None, offered_capabilities: None, desired_capabilities: None, properties: None });
        t!(Open { container_id: "c".repeat(300), hostname: None, max_frame_size: Default::default(), channel_max: Default::default(), idle_time_out: None, outgoing_locales: None, incoming_locales: None, offered_capabilities: None, desired_capabilities: None, properties: None });
        t!(Begin { remote_channel: Some(1), next_outgoing_id: 2, incoming_window: 3, outgoing_window: 4, handle_max: Default::default(), offered_capabilities: None, desired_capabilities: None, properties: None });
        t!(Flow { next_incoming_id: Some(1), incoming_window: 2, next_outgoing_id: 3, outgoing_window: 4, handle: Some(5u32.into()), delivery_count: Some(6), link_credit: Some(7), available: None, drain: true, echo: false, properties: None });
        t!(Transfer { handle: 1u32.into(), delivery_id: Some(2), delivery_tag: Some(vec![1u8, 2, 3].into()), message_format: Some(0), settled: Some(false), more: true, rcv_settle_mode: None, state: None, resume: false, aborted: false, batchable: false });
        t!(Transfer { handle: 1u32.into(), delivery_id: Some(2), delivery_tag: Some(vec![9u8; 32].into()), message_format: Some(0), settled: None, more: false, rcv_settle_mode: None, state: Some(DeliveryState::Rejected(Rejected { error: Some(err(300)) })), resume: false, aborted: false, batchable: true });
        t!(Disposition { role: Role::Receiver, first: 0, last: Some(9), settled: true, state: Some(DeliveryState::Accepted(Accepted {})), batchable: false });
        t!(Detach { handle: 3u32.into(), closed: true, error: Some(err(300)) }); t!(Detach { handle: 3u32.into(), closed: false, error: None });
        t!(End { error: None }); t!(End { error: Some(err(10)) }); t!(Close { error: Some(err(260)) }); t!(Close { error: None });
        t!(Header::default()); t!(Header { durable: true, ..Default::default() });
        t!(Properties::default());
        // described lists whose body crosses the list8 / list32 boundary, with trailing fields elided
        for n in [0usize, 1, 200, 240, 245, 246, 247, 248, 249, 250, 251, 252, 253, 254, 255, 256, 300] {
            t!(Properties { subject: Some("s".repeat(n)), ..Default::default() });
            t!(Properties { user_id: Some(Binary::from(vec![7u8; n])), reply_to_group_id: Some("g".into()), ..Default::default() });
            t!(Rejected { error: Some(err(n)) });
            t!(Source { address: Some("a".repeat(n)), ..Default::default() });
            t!(Target { address: Some("a".repeat(n)), ..Default::default() });
        }
        // every variant of the restricted / enumerated field types, with contents on both sides of the 255-octet width boundary
        for n in [0usize, 1, 127, 128, 254, 255, 256, 300] {
            t!(Properties { message_id: Some(MessageId::String("m".repeat(n))), correlation_id: Some(MessageId::String("\u{e9}".repeat(n / 2))), ..Default::default() });
            t!(Properties { message_id: Some(MessageId::Binary(Binary::from(vec![3u8; n]))), content_type: Some(Symbol::from("t".repeat(n))), ..Default::default() });
            t!(Properties { to: Some("a".repeat(n)), reply_to: Some("r".repeat(n)), group_id: Some("g".repeat(n)), content_encoding: Some(Symbol::from("e".repeat(n))), ..Default::default() });
            t!(Close { error: Some(definitions::Error::new(definitions::ErrorCondition::Custom(Symbol::from("com.example:".to_string() + &"c".repeat(n))), Some("d".repeat(n)), None)) });
        }
        t!(Properties { message_id: Some(MessageId::Ulong(0)), correlation_id: Some(MessageId::Ulong(5_000_000_000)), ..Default::default() });
        t!(Properties { message_id: Some(MessageId::Uuid(serde_amqp::primitives::Uuid::from([7u8; 16]))), group_sequence: Some(9), ..Default::default() });
        t!(Properties { absolute_expiry_time: Some(serde_amqp::primitives::Timestamp::from(1)), creation_time: Some(serde_amqp::primitives::Timestamp::from(-1)), ..Default::default() });
        t!(End { error: Some(definitions::Error::new(definitions::ErrorCondition::Custom(Symbol::from("com.example:maintenance")), None, None)) });
        t!(Detach { handle: 0u32.into(), closed: true, error: Some(definitions::Error::new(definitions::SessionError::WindowViolation, None, None)) });
        t!(Close { error: Some(definitions::Error::new(definitions::ConnectionError::FramingError, Some("f".into()), None)) });
        t!(Detach { handle: 0u32.into(), closed: true, error: Some(definitions::Error::new(definitions::LinkError::TransferLimitExceeded, None, None)) });
        t!(Data(Binary::from(vec![1u8; 3]))); t!(AmqpValue(Value::String("s".repeat(300)))); t!(AmqpValue(Value::Symbol(Symbol::from("x"))));
        t!(ApplicationProperties::default());
        None
    }
}

/// C05 / C03: the code the DERIVE MACROS generate for a composite (serde_amqp_derive: no contract can reach a proc-macro's output) -- bounded stand-in. Local composites
/// with every mix of optional / mandatory fields in tuple and named form; for each value the encoding is compared with an oracle written from the specification
/// (descriptor, ONE list whose count is the number of fields up to the last one that is present, a null for every absent field before that, each present field once,
/// in declaration order, nothing after it) and decoded back.
mod derive_layout {
    use serde_amqp::{from_slice, to_vec, macros::{SerializeComposite, DeserializeComposite}};
    #[derive(Debug, Clone, PartialEq, SerializeComposite, DeserializeComposite)]
    #[amqp_contract(name = "verif:t3:list", code = "0x0000_0000:0x0000_00f1", encoding = "list")]
    pub struct T3(pub Option<bool>, pub i32, pub i32);
    #[derive(Debug, Clone, PartialEq, SerializeComposite, DeserializeComposite)]
    #[amqp_contract(name = "verif:t4:list", code = "0x0000_0000:0x0000_00f2", encoding = "list")]
    pub struct T4(pub i32, pub Option<bool>, pub Option<i32>, pub i32);
    #[derive(Debug, Clone, PartialEq, SerializeComposite, DeserializeComposite)]
    #[amqp_contract(name = "verif:t3o:list", code = "0x0000_0000:0x0000_00f3", encoding = "list")]
    pub struct T3o(pub i32, pub Option<bool>, pub Option<i32>);
    #[derive(Debug, Clone, PartialEq, SerializeComposite, DeserializeComposite)]
    #[amqp_contract(name = "verif:s4:list", code = "0x0000_0000:0x0000_00f4", encoding = "list", rename_all = "kebab-case")]
    pub struct S4 { pub a: Option<bool>, pub b: i32, pub c: Option<i32>, pub d: i32 }
    #[derive(Debug, Clone, PartialEq, SerializeComposite, DeserializeComposite)]
    #[amqp_contract(name = "verif:s3o:list", code = "0x0000_0000:0x0000_00f5", encoding = "list", rename_all = "kebab-case")]
    pub struct S3o { pub a: i32, pub b: Option<bool>, pub c: Option<i32> }

    fn e_i32(v: i32) -> Vec<u8> { if (-128..=127).contains(&v) { vec![0x54, v as u8] } else { let mut o = vec![0x71]; o.extend_from_slice(&v.to_be_bytes()); o } }
    fn e_bool(v: bool) -> Vec<u8> { vec![if v { 0x41 } else { 0x42 }] }
    /// the specification's composite: descriptor (smallulong), then list0 / list8 of the fields up to the last present one
    fn oracle(code: u8, fields: Vec<Option<Vec<u8>>>) -> Vec<u8> {
        let mut out = vec![0x00, 0x53, code];
        let n = fields.iter().rposition(|f| f.is_some()).map(|p| p + 1).unwrap_or(0);
        if n == 0 { out.push(0x45); return out; }
        let mut body = Vec::new();
        for f in &fields[..n] { match f { Some(b) => body.extend_from_slice(b), None => body.push(0x40) } }
        out.push(0xc0); out.push((body.len() + 1) as u8); out.push(n as u8); out.extend_from_slice(&body);
        out
    }
    pub fn all(tried: &mut u64) -> Option<String> {
        let ob = [None, Some(true), Some(false)];
        let oi = [None, Some(0i32), Some(-1), Some(127), Some(128), Some(-129), Some(70000)];
        let ii = [0i32, 1, -128, 127, 128, 0x7fff_ffff];
        macro_rules! chk { ($v:expr, $t:ty, $want:expr) => { {
            *tried += 1;
            let v = $v;
            let got = match to_vec(&v) { Ok(b) => b, Err(e) => return Some(format!("{:?} does not encode: {:?}", v, e)) };
            if got != $want { return Some(format!("{:?} is encoded as {:02x?}; by the specification (fields in declaration order, a null for each absent field that a present one follows, trailing absent fields elided) it is {:02x?}", v, got, $want)); }
            match from_slice::<$t>(&got) { Ok(back) => if back != v { return Some(format!("{:?} encodes to {:02x?}, which decodes to {:?}", v, got, back)); }, Err(e) => return Some(format!("{:?} encodes to {:02x?}, which does not decode: {:?}", v, got, e)) }
        } } }
        for a in ob { for &b in &ii { for &c in &ii {
            chk!(T3(a, b, c), T3, oracle(0xf1, vec![a.map(e_bool), Some(e_i32(b)), Some(e_i32(c))]));
        } } }
        for &a in &ii { for b in ob { for c in oi { for &d in &[0i32, 300] {
            chk!(T4(a, b, c, d), T4, oracle(0xf2, vec![Some(e_i32(a)), b.map(e_bool), c.map(e_i32), Some(e_i32(d))]));
            chk!(S4 { a: b, b: a, c, d }, S4, oracle(0xf4, vec![b.map(e_bool), Some(e_i32(a)), c.map(e_i32), Some(e_i32(d))]));
        } } } }
        for &a in &ii { for b in ob { for c in oi {
            chk!(T3o(a, b, c), T3o, oracle(0xf3, vec![Some(e_i32(a)), b.map(e_bool), c.map(e_i32)]));
            chk!(S3o { a, b, c }, S3o, oracle(0xf5, vec![Some(e_i32(a)), b.map(e_bool), c.map(e_i32)]));
        } } }
        None
    }
}

fn main() {
    let args: Vec<String> = std::env::args().collect();
    if args.len() < 2 { eprintln!("usage: verif-falsify <family> [seed]"); std::process::exit(2); }
    let seed: u64 = args.get(2).and_then(|s| s.parse().ok()).unwrap_or(0);
    let mut rng = Rng(seed.wrapping_mul(0x9E37_79B9_7F4A_7C15) ^ 0xD1B5_4A32_D192_ED03);
    let mut tried = 0u64;
    let mut found: Option<String> = None;
    match args[1].as_str() {
        "C07.flow" => {
            'a: for &init in &B { for &noi in &B { for nii in [None, Some(0u32), Some(0xFFFF_FFF0), Some(noi), Some(noi.wrapping_sub(3))] { for &iw in &[0u32, 1, 5, 0x100, 0xFFFF_FFFF] {
                tried += 1;
                if let Some(m) = c07_flow(init, noi, 7, nii, iw, 11, 13) { found = Some(m); break 'a; }
            } } } }
            while found.is_none() && tried < 400_000 { tried += 1; found = c07_flow(rng.next(), rng.next(), rng.next(), rng.opt(), rng.next(), rng.next(), rng.next()); }
        }
        "C07.send" => {
            'b: for &noi in &B { for &riw in &[0u32, 1, 2, 3, 5, 0xFFFF_FFFF] { for n in 0..6usize { for with_tag in [true, false] {
                tried += 1;
                if let Some(m) = c07_send(noi, riw, n, with_tag) { found = Some(m); break 'b; }
            } } } }
            while found.is_none() && tried < 50_000 { tried += 1; found = c07_send(rng.next(), rng.next() % 8, (rng.next() % 8) as usize, rng.next() % 2 == 0); }
        }
        "C08.flow" => {
            'c: for &init in &[0u32, 5, 0xFFFF_FFF0] { for &dc in &B { for &credit in &[0u32, 1, 0x20] { for fdc in [None, Some(0u32), Some(0xFFFF_FFF0), Some(dc)] { for fc in [None, Some(0u32), Some(1), Some(0x20), Some(0xFFFF_FFFF)] { for drain in [false, true] { for echo in [false, true] {
                tried += 1;
                if let Some(m) = c08_flow(init, dc, credit, fdc, fc, drain, echo) { found = Some(m); break 'c; }
            } } } } } } }
            while found.is_none() && tried < 400_000 { tried += 1; found = c08_flow(rng.next(), rng.next(), rng.next(), rng.opt(), rng.opt(), rng.next() % 2 == 0, rng.next() % 2 == 0); }
        }
        "C09.enforce" => {
            'd: for &dc in &B { for &credit in &B { for &count in &[0u32, 1, 2, 0xFFFF_FFFF] {
                tried += 1;
                if let Some(m) = c09_enforce(dc, credit, count) { found = Some(m); break 'd; }
            } } }
            while found.is_none() && tried < 400_000 { tried += 1; found = c09_enforce(rng.next(), rng.next(), rng.next() % 4); }
        }
        "C02.cci-session" => { found = cci_all(false, &mut tried); }
        "C02.cci-receiver" => { found = cci_all(true, &mut tried); }
        "C10.sections" => { found = sections_all(&mut tried); }
        "C03.value-rt" => { found = value_rt::all(0, &mut tried); }
        "C03.array-of-described" => { found = value_rt::all(1, &mut tried); }
        "C03.array-of-zero-width" => { found = value_rt::all(2, &mut tried); }
        "C20.size-composites" => { found = size_composites::all(&mut tried); }
        "C05.spec-defaults" => { found = spec_defaults::all(&mut tried); }
        "C05.composite-variants" => { found = composite_variants::all(&mut tried); }
        "C05.derive-layout" => { found = derive_layout::all(&mut tried); }
        "C20.value-tree-plain" => { found = value_tree::all(0, &mut tried); }
        "C20.value-tree-described" => { found = value_tree::all(1, &mut tried); }
        "C20.value-tree-untyped" => { found = value_tree::all(2, &mut tried); }
        _ => { println!("FALSIFY unknown-family"); std::process::exit(2); }
    }
    match found {
        Some(m) => { println!("FALSIFIED tried={tried} {m}"); std::process::exit(1); }
        None => { println!("NOT-FALSIFIED tried={tried}"); std::process::exit(0); }
    }
}
