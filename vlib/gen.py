"""Unit generator: template (units/<unit>.rs with //@@ directives) + /repo sources -> build/<unit>.rs

See DESIGN.md section 1/2. The template's verbatim text is prelude/spec/lemma code written
for the verifier; every `//@@ fn` / `//@@ type` block is replaced by code extracted from the
repository's *current* working tree with the logged mechanical rewrites.
"""
import os
import re
import hashlib
import shlex

from . import extract as X
from .rustlex import lex, Tok, text, norm, match_close, LexError

DIRECTIVE = re.compile(r'^\s*//@@\s*(.*)$')
BT = re.compile(r'`([^`]*)`')


class TemplateError(Exception):
    pass


def parse_kv(rest):
    """parse `key=value key=`val with spaces` flag` into dict"""
    d = {}
    flags = []
    pos = 0
    s = rest.strip()
    while pos < len(s):
        m = re.compile(r'\s*([A-Za-z_][A-Za-z0-9_]*)=`([^`]*)`').match(s, pos)
        if m:
            d[m.group(1)] = m.group(2)
            pos = m.end()
            continue
        m = re.compile(r'\s*([A-Za-z_][A-Za-z0-9_]*)=(\S+)').match(s, pos)
        if m:
            d[m.group(1)] = m.group(2)
            pos = m.end()
            continue
        m = re.compile(r'\s*(\S+)').match(s, pos)
        if m:
            flags.append(m.group(1))
            pos = m.end()
            continue
        break
    return d, flags


class Block:
    def __init__(self, kind, kv, flags, tline):
        self.kind = kind          # 'fn' or 'type'
        self.kv = kv
        self.flags = flags
        self.tline = tline
        self.substs = []          # (pat, rep, rule)
        self.params = {}          # name -> type
        self.ret = None
        self.generics = None
        self.nowhere = False
        self.selfmut = False
        self.orsplit = False
        self.blockarms = False
        self.qmark = False
        self.awaitcall = False
        self.unless = {}
        self.loop_optional = set()
        self.stmt_optional = set()
        self.spec = []            # list of (text, tline)
        self.loops = {}           # n -> list of (text, tline)
        self.ats = []             # (anchor, where, nth, [(text,tline)])
        self.dropstmts = []
        self.entry = []
        self.attrs = []
        self.stmts = {}
        self.exit = []
        self.tailfrom = None
        self.tailafter = False
        self.selectarm = None
        self.addparams = []
        self.loopstart = {}
        self.loopend = {}       # anchors of statements to drop (logged)
        self.shape = None       # R36: fingerprint of what the positional directives (loop N / loopstart / loopend / stmt K) were written against


def parse_template(path):
    with open(path, encoding='utf-8') as f:
        lines = f.read().split('\n')
    items = []   # ('text', line, tline) | ('block', Block)
    meta = dict(gsubst=[], unit=None, features=[], props=[])
    cur = None
    section = None
    for i, ln in enumerate(lines, 1):
        m = DIRECTIVE.match(ln)
        if not m:
            if cur is None:
                items.append(('text', ln, i))
            else:
                if section is None:
                    if ln.strip() == '':
                        continue
                    raise TemplateError('%s:%d: text inside block outside a section' % (path, i))
                section.append((ln, i))
            continue
        d = m.group(1).strip()
        word = d.split(None, 1)[0] if d else ''
        rest = d[len(word):].strip()
        if word == 'unit':
            meta['unit'] = rest
        elif word == 'include':
            sub_items, sub_meta = parse_template(os.path.join(os.path.dirname(path), rest.strip()))
            items.extend(sub_items)
            meta['gsubst'].extend(sub_meta['gsubst'])
            for tr in sub_meta.get('trusted', []):
                if tr not in meta.setdefault('trusted', []):
                    meta['trusted'].append(tr)
        elif word == 'trusted':
            meta.setdefault('trusted', []).append(rest)
        elif word == 'strlits':
            # R38b: a distinctness lemma over string literals written in the TEMPLATE (a table taken from the specification)
            pr = BT.findall(rest)
            kv, _ = parse_kv(BT.sub('', rest))
            items.append(('strlits', dict(lits=pr[1].split('|'), lemma=kv['lemma'], label=pr[0]), i))
        elif word == 'enumorder':
            # R40b: a fieldless enum whose (de)serialization is serde's derive: the variant's position in the declaration is its wire value
            pr = BT.findall(rest)
            kv, _ = parse_kv(BT.sub('', rest))
            items.append(('enumorder', dict(file=kv['file'], enum=kv['enum'], spec=pr[0].split(','), label=pr[1], default=kv.get('default'), noorder=('noorder' in _)), i))
        elif word == 'composite':
            # R40: the wire layout of a derive-macro composite, read from its declaration
            pr = BT.findall(rest)
            kv, _ = parse_kv(BT.sub('', rest))
            items.append(('composite', dict(file=kv['file'], struct=kv['struct'], code=kv.get('code'), spec=pr[0].split(','), name=pr[1], label=pr[2], encoding=kv.get('encoding', 'list')), i))
        elif word == 'strconsts':
            pr = BT.findall(rest)
            kv, _ = parse_kv(BT.sub('', rest))
            items.append(('strconsts', dict(file=kv['file'], names=kv['names'].split(','), lemma=kv['lemma'], label=pr[0] if pr else ''), i))
        elif word == 'assume':
            meta.setdefault('assume', []).append(rest)
        elif word == 'gsubst':
            pr = BT.findall(rest)
            kv, _ = parse_kv(BT.sub('', rest).replace('=>', ''))
            meta['gsubst'].append((pr[0], pr[1], kv.get('rule', 'S')))
        elif word in ('fn', 'type', 'macro', 'decl'):
            if cur is not None:
                raise TemplateError('%s:%d: nested block' % (path, i))
            kv, flags = parse_kv(rest)
            cur = Block(word, kv, flags, i)
            section = None
            if word == 'macro':
                items.append(('block', cur, cur.tline))
                cur = None
        elif word == 'end':
            if cur is None:
                raise TemplateError('%s:%d: end without block' % (path, i))
            items.append(('block', cur, cur.tline))
            cur = None
            section = None
        elif cur is None:
            raise TemplateError('%s:%d: directive %r outside block' % (path, i, word))
        elif word == 'subst':
            pr = BT.findall(rest)
            kv, _ = parse_kv(BT.sub('', rest).replace('=>', ''))
            cur.substs.append((pr[0], pr[1], kv.get('rule', 'S')))
            if len(pr) > 2:
                cur.unless[pr[0]] = pr[2]
        elif word == 'attr':
            cur.attrs.append(rest)
        elif word == 'param':
            nm, ty = rest.split(':', 1)
            cur.params[nm.strip()] = ty.strip()
        elif word == 'ret':
            cur.ret = rest
        elif word == 'generics':
            cur.generics = rest
        elif word == 'nowhere':
            cur.nowhere = True
        elif word == 'selfmut':
            cur.selfmut = True
        elif word == 'orsplit':
            cur.orsplit = True
        elif word == 'blockarms':
            cur.blockarms = True
        elif word == 'qmark':
            cur.qmark = True
        elif word == 'awaitcall':
            cur.awaitcall = True
        elif word == 'spec':
            section = cur.spec
        elif word == 'loop':
            n = int(rest.split()[0])
            section = cur.loops.setdefault(n, [])
            if 'optional' in rest.split()[1:]:
                cur.loop_optional.add(n)
        elif word == 'entry':
            section = cur.entry
        elif word == 'exit':
            section = cur.exit
        elif word == 'tailfrom':
            cur.tailfrom = BT.findall(rest)[0]
            cur.tailafter = False
        elif word == 'tailafter':
            cur.tailfrom = BT.findall(rest)[0]
            cur.tailafter = True
        elif word == 'selectarm':
            cur.selectarm = BT.findall(rest)[0]
        elif word == 'addparam':
            cur.addparams.append(rest.strip())
        elif word == 'shape':
            cur.shape = rest.strip()
        elif word == 'stmt':
            section = cur.stmts.setdefault(int(rest.split()[0]), [])
            if 'optional' in rest.split()[1:]:
                cur.stmt_optional.add(int(rest.split()[0]))
        elif word == 'loopstart':
            section = cur.loopstart.setdefault(int(rest.split()[0]), [])
        elif word == 'loopend':
            section = cur.loopend.setdefault(int(rest.split()[0]), [])
        elif word == 'at':
            pr = BT.findall(rest)
            kv, flags = parse_kv(BT.sub('', rest))
            where = 'after' if 'after' in flags else 'before'
            lst = []
            cur.ats.append((pr[0], where, int(kv.get('nth', 0)), lst))
            section = lst
        else:
            raise TemplateError('%s:%d: unknown directive %r' % (path, i, word))
    if cur is not None:
        raise TemplateError('%s: unterminated block at %d' % (path, cur.tline))
    return items, meta


class Emitter:
    """collects output lines with an origin map"""

    def __init__(self):
        self.lines = []
        self.origin = []   # per line: dict(kind=..., ...)

    def emit(self, s, origin):
        for ln in s.split('\n'):
            self.lines.append(ln)
            self.origin.append(origin)

    def emit_lines(self, pairs):
        for ln, org in pairs:
            self.lines.append(ln)
            self.origin.append(org)


def split_params(toks):
    """split a token list at top-level commas"""
    parts = []
    cur = []
    depth = 0
    k = 0
    n = len(toks)
    while k < n:
        t = toks[k]
        if t.kind == 'punct':
            if t.text in '([{':
                depth += 1
            elif t.text in ')]}':
                depth -= 1
            elif t.text == '<':
                depth += 1
            elif t.text == '>':
                # `->` is not a closer
                p = k - 1
                if not (p >= 0 and toks[p].kind == 'punct' and toks[p].text == '-'):
                    depth -= 1
            elif t.text == ',' and depth == 0:
                parts.append(cur)
                cur = []
                k += 1
                continue
        cur.append(t)
        k += 1
    if any(t.kind not in ('ws', 'comment') for t in cur):
        parts.append(cur)
    return parts


def extract_fn(repo, blk, meta, mode):
    """returns dict(sig_text, body_lines[(text, origin)], log, hash, src_file, src_line)"""
    kv = blk.kv
    rel = kv['file']
    src, toks = X.load(repo, rel)
    lo, hi = 0, len(toks)
    if 'impl' in kv:
        cands = []
        for (ob, cb) in X.find_impl(toks, kv['impl']):
            try:
                X.find_fn(toks, kv['name'], ob + 1, cb)
                cands.append((ob, cb))
            except X.LostAnchor:
                pass
        if len(cands) != 1:
            raise X.LostAnchor('%s: fn %s found in %d impl blocks `%s`' % (rel, kv['name'], len(cands), kv['impl']))
        ob, cb = cands[0]
        lo, hi = ob + 1, cb
    assoc = []
    if 'impl' in kv:
        # associated types written in this impl: `type Error = SessionInnerError;`  (R2)
        d = 0
        k = lo
        while k < hi:
            t = toks[k]
            if t.kind == 'punct' and t.text in '{([':
                d += 1
            elif t.kind == 'punct' and t.text in '})]':
                d -= 1
            elif d == 0 and t.kind == 'ident' and t.text == 'type':
                n1 = X._next_sig(toks, k)
                n2 = X._next_sig(toks, n1)
                if toks[n2].kind == 'punct' and toks[n2].text == '=':
                    e = n2
                    dd = 0
                    while not (dd == 0 and toks[e].kind == 'punct' and toks[e].text == ';'):
                        if toks[e].kind == 'punct' and toks[e].text in '([{':
                            dd += 1
                        elif toks[e].kind == 'punct' and toks[e].text in ')]}':
                            dd -= 1
                        e += 1
                    assoc.append(('Self::' + toks[n1].text, text(toks[n2 + 1:e]).strip()))
                    k = e
            k += 1
    f = X.find_fn(toks, kv['name'], lo, hi)
    item = toks[f['start']:f['body_close'] + 1]
    src_line = toks[f['fn']].line
    h = X.sha(item)
    log = []
    if 'impl' in kv and ' for ' in (' ' + kv['impl'] + ' '):
        log.append(('R2', 'trait-impl method re-homed: %s' % kv['impl'], src_line))
    # rewrites
    item = X.strip_comments(item)
    item = X.drop_cfg_features(item, log)
    item = X.drop_attrs(item, log)
    item = X.drop_vis(item, log)
    if 'implfuture' in blk.flags:
        item = X.desugar_impl_future(item, log)
    item = X.erase_async(item, log, awaitcall=blk.awaitcall)
    item = X.closure_underscore(item, log)
    if 'dropuses' in blk.flags:
        item = X.drop_body_uses(item, log)
    item = X.desugar_vec_extend(item, log)
    item = X.desugar_iter_mut(item, log)
    item = X.desugar_range_inclusive(item, log)
    if blk.orsplit:
        item = X.split_or_arms(item, log)
    if blk.blockarms:
        item = X.wrap_arm_bodies(item, log)
        item = X.desugar_str_match(item, log)
    for pat, rep in assoc:
        item, cnt = X.subst_tokens(item, pat, rep, log, 'R2')
        item = X.relex(item)
    for pat, rep, rule in blk.substs + meta['gsubst']:
        item, cnt = X.subst_tokens(item, pat, rep, log, rule)
        item = X.relex(item)
        if cnt == 0 and (pat, rep, rule) in blk.substs and 'optional' not in rule and not (pat.strip().startswith('use ') and rep.strip() == ''):
            guard = blk.unless.get(pat)
            flat = re.sub(r'\s+', '', text(item))
            if guard is not None and not re.search(guard, flat):
                # the construct the pattern stands for is gone from the function altogether: go on without it
                log.append((rule, 'pattern `%s` absent and nothing matching /%s/ left in the function: no substitution' % (pat, guard), src_line))
                continue
            raise X.LostAnchor('%s::%s: substitution pattern `%s` not found' % (rel, kv['name'], pat))
    item = X.desugar_asref_map(item, log)
    item = X.desugar_ctor_fn_value(item, log)
    item = X.desugar_get_or_insert_with(item, log)
    item = X.desugar_mut_self(item, kv['name'], log)
    if blk.qmark:
        item = X.desugar_qmark(item, log)
    # locate pieces again in the rewritten item
    f2 = X.find_fn(item, kv['name'])
    fn_i, name_i, bo, bc = f2['fn'], f2['name'], f2['body_open'], f2['body_close']
    # signature parse
    k = X._next_sig(item, name_i)
    generics = ''
    if item[k].kind == 'punct' and item[k].text == '<':
        # generics: match angle brackets
        d = 0
        j = k
        while True:
            t = item[j]
            if t.kind == 'punct' and t.text == '<':
                d += 1
            elif t.kind == 'punct' and t.text == '>' and not (item[j - 1].kind == 'punct' and item[j - 1].text == '-'):
                d -= 1
                if d == 0:
                    break
            j += 1
        generics = text(item[k:j + 1])
        k = X._next_sig(item, j)
    if not (item[k].kind == 'punct' and item[k].text == '('):
        raise X.LostAnchor('%s::%s: cannot parse signature' % (rel, kv['name']))
    pc = match_close(item, k)
    params = split_params(item[k + 1:pc])
    ptexts = []
    for p in params:
        pt = text(p).strip()
        pt = re.sub(r'\s+', ' ', pt)
        ps = [t for t in p if t.kind not in ('ws', 'comment')]
        # self param
        names = [t.text for t in ps]
        if 'self' in names and ':' not in names:
            if blk.selfmut and pt == '&self':
                log.append(('R4', '&self -> &mut self (lock erasure)', src_line))
                pt = '&mut self'
            elif blk.selfmut and pt == 'self':
                log.append(('R2', 'method of `impl Trait for &mut T` re-homed to T: by-value `self` (a `&mut T`) -> `&mut self`', src_line))
                pt = '&mut self'
            ptexts.append(pt)
            continue
        # name : type
        ci = names.index(':') if ':' in names else None
        if ci is None:
            ptexts.append(pt)
            continue
        pname = [x for x in names[:ci] if x not in ('mut',)][-1]
        if pname in blk.params:
            newty = blk.params[pname]
            log.append(('R13', 'param %s retyped to %s' % (pname, newty), src_line))
            mutp = 'mut ' if names[0] == 'mut' else ''
            pt = '%s%s: %s' % (mutp, pname, newty)
        ptexts.append(pt)
    missing = [p for p in blk.params if not any(re.match(r'(mut )?%s:' % re.escape(p), x) for x in ptexts)]
    if missing:
        raise X.LostAnchor('%s::%s: params %s not found' % (rel, kv['name'], missing))
    # return type and where clause
    k2 = X._next_sig(item, pc)
    ret = None
    where = ''
    seg = item[k2:bo]
    segs = [t for t in seg if t.kind not in ('ws', 'comment')]
    if segs and segs[0].text == '-' and len(segs) > 1 and segs[1].text == '>':
        # find `where`
        wi = None
        for idx, t in enumerate(seg):
            if t.kind == 'ident' and t.text == 'where':
                wi = idx
                break
        # skip the two arrow tokens
        arrow_end = None
        cnt = 0
        for idx, t in enumerate(seg):
            if t.kind not in ('ws', 'comment'):
                cnt += 1
                if cnt == 2:
                    arrow_end = idx
                    break
        rt = seg[arrow_end + 1: wi if wi is not None else len(seg)]
        ret = re.sub(r'\s+', ' ', text(rt).strip())
        if wi is not None:
            where = re.sub(r'\s+', ' ', text(seg[wi:]).strip())
    else:
        for idx, t in enumerate(seg):
            if t.kind == 'ident' and t.text == 'where':
                where = re.sub(r'\s+', ' ', text(seg[idx:]).strip())
                break
    if blk.ret is not None:
        log.append(('R2', 'return type %s -> %s' % (ret, blk.ret), src_line))
        ret = blk.ret
    if blk.generics is not None:
        log.append(('R7', 'generics %s -> %s' % (generics, blk.generics), src_line))
        generics = blk.generics
    if blk.nowhere and where:
        log.append(('R7', 'where clause dropped: %s' % where, src_line))
        where = ''
    ptexts = ptexts + list(blk.addparams)
    emitted = kv.get('as', kv['name'])
    name = kv.get('id', emitted)      # reporting name (two impls of one trait method need distinct ids)
    sigt = 'fn %s%s(%s)' % (emitted, generics, ', '.join(ptexts))
    if ret is not None and ret != '()':
        rn = kv.get('retname', 'r')
        sigt += ' -> (%s: %s)' % (rn, ret)
    if where:
        sigt += ' ' + where
    # body with insertions
    body = item[bo:bc + 1]   # includes braces
    if blk.tailfrom:
        # R32: only the TAIL of the function is verified: the top-level statements before the anchor are dropped and the tail is checked for
        # ANY values of the locals they define (declared as extra parameters by `addparam`) and any state of `self`
        atoks = [t.text for t in lex(blk.tailfrom) if t.kind not in ('ws', 'comment')]
        starts = []
        k = X._next_sig(body, 0)
        while k < len(body) - 1:
            starts.append(k)
            e = X.stmt_end(body, k)
            k = X._next_sig(body, e)
        cut = None
        for n_st, st in enumerate(starts):
            sig = [t.text for t in body[st:] if t.kind not in ('ws', 'comment')][:len(atoks)]
            if sig == atoks:
                if blk.tailafter:
                    # the tail starts with the statement that FOLLOWS the anchored one (e.g. everything after the `loop { select! .. }`)
                    cut = starts[n_st + 1] if n_st + 1 < len(starts) else None
                else:
                    cut = st
                break
        if cut is None:
            raise X.LostAnchor('%s::%s: tail anchor `%s` not found among the top-level statements' % (rel, kv['name'], blk.tailfrom))
        log.append(('R32', 'only the tail from `%s` is verified: %d top-level statement(s) before it dropped; their locals enter as parameters: %s' % (blk.tailfrom, starts.index(cut), '; '.join(blk.addparams)), src_line))
        body = [body[0]] + body[cut:]
    if blk.selectarm:
        # R33: ONE arm of a `tokio::select!` of the function is verified: `<pattern> = <future> [, if <guard>] => { body }`. The arm body becomes the
        # function body (the pattern variable and the locals it touches enter as parameters: `addparam`), and the arm's guard -- `true` when it has
        # none -- is evaluated AFTER the body as the second component of the result: "is this branch still enabled once it has run?"
        atoks = [t.text for t in lex(blk.selectarm) if t.kind not in ('ws', 'comment')]
        sidx = [i for i in range(len(body)) if body[i].kind not in ('ws', 'comment')]
        hit = None
        for a in range(len(sidx) - len(atoks) + 1):
            if all(body[sidx[a + q]].text == atoks[q] for q in range(len(atoks))):
                hit = a
                break
        if hit is None:
            raise X.LostAnchor('%s::%s: select arm `%s` not found' % (rel, kv['name'], blk.selectarm))
        q = hit + len(atoks)
        guard = 'true'
        if body[sidx[q]].text == ',' and body[sidx[q + 1]].text == 'if':
            g0 = q + 2
            g1 = g0
            depth = 0
            while not (depth == 0 and body[sidx[g1]].text == '=' and body[sidx[g1 + 1]].text == '>'):
                if body[sidx[g1]].text in '([{':
                    depth += 1
                elif body[sidx[g1]].text in ')]}':
                    depth -= 1
                g1 += 1
            guard = text(body[sidx[g0]:sidx[g1]]).strip()
            q = g1
        if not (body[sidx[q]].text == '=' and body[sidx[q + 1]].text == '>' and body[sidx[q + 2]].text == '{'):
            raise X.LostAnchor('%s::%s: select arm `%s`: cannot parse `[, if guard] => { body }`' % (rel, kv['name'], blk.selectarm))
        b0 = sidx[q + 2]
        b1 = match_close(body, b0)
        arm_line = body[b0].line
        log.append(('R33', 'only the select! arm `%s` is verified; its guard `%s` is re-evaluated after the arm body as the second result; locals enter as parameters: %s' % (blk.selectarm, guard, '; '.join(blk.addparams)), src_line))
        pre = [Tok(u.kind, u.text, 0, arm_line) for u in lex('{ let __arm_result = ')]
        post = [Tok(u.kind, u.text, 0, body[b1].line) for u in lex('; let __enabled_after: bool = %s; (__arm_result, __enabled_after) }' % guard)]
        body = pre + body[b0:b1 + 1] + post
    loops = X.find_loops(body, 1, len(body) - 1)
    inserts = {}   # token index in body -> list of (text, origin) inserted BEFORE that token

    def add_insert(idx, lines, org_kind):
        inserts.setdefault(idx, []).extend((ln, dict(kind=org_kind, fn=name, tline=tl, text=ln.strip())) for ln, tl in lines)

    for n, lines in blk.loops.items():
        if n >= len(loops):
            if n in blk.loop_optional:
                log.append(('S', 'loop #%d absent: its invariant is not emitted' % n, src_line))
                continue
            raise X.LostAnchor('%s::%s: loop #%d not found (%d loops)' % (rel, kv['name'], n, len(loops)))
        # an invariant line about a local of the function (`... //@if NAME`) is stated only while the function has that local: a local that has been
        # removed takes the facts about it with it (the invariant talks about the code's temporaries only where an obligation of the code itself needs them)
        body_idents = set(t.text for t in body if t.kind == 'ident')
        kept = []
        for ln, tl in lines:
            mm = re.search(r'//@if\s+([A-Za-z_][A-Za-z0-9_]*)\s*$', ln)
            if mm and mm.group(1) not in body_idents:
                log.append(('S', 'invariant line about the local `%s` not emitted: the function has no such local' % mm.group(1), src_line))
                continue
            kept.append((re.sub(r'\s*//@if\s+[A-Za-z_][A-Za-z0-9_]*\s*$', '', ln), tl))
        add_insert(loops[n][1], kept, 'loopspec')
    for anchor, wherepos, nth, lines in blk.ats:
        atoks = [t.text for t in lex(anchor) if t.kind not in ('ws', 'comment')]
        hits = []
        sidx = [i for i in range(len(body)) if body[i].kind not in ('ws', 'comment')]
        for a in range(len(sidx) - len(atoks) + 1):
            if all(body[sidx[a + q]].text == atoks[q] for q in range(len(atoks))):
                hits.append((sidx[a], sidx[a + len(atoks) - 1]))
        if len(hits) <= nth:
            raise X.LostAnchor('%s::%s: anchor `%s` (nth=%d) not found' % (rel, kv['name'], anchor, nth))
        a0, a1 = hits[nth]
        if wherepos == 'before':
            add_insert(a0, lines, 'proof')
        else:
            add_insert(a1 + 1, lines, 'proof')
    if blk.entry:
        add_insert(1, blk.entry, 'proof')
    if blk.exit:
        # after the last statement of the body (functions whose body ends in a statement, not in a tail expression)
        add_insert(len(body) - 1, blk.exit, 'proof')
    if blk.stmts:
        # top-level statements of the body: list of start token indices
        starts = []
        k = X._next_sig(body, 0)
        while k < len(body) - 1:
            starts.append(k)
            e = X.stmt_end(body, k)
            k = X._next_sig(body, e)
        for n, lines in blk.stmts.items():
            try:
                add_insert(starts[n], lines, 'proof')
            except IndexError:
                if n in blk.stmt_optional:
                    log.append(('S', 'statement #%d absent: the proof block in front of it is not emitted' % n, src_line))
                    continue
                raise X.LostAnchor('%s::%s: statement #%d not found (%d statements)' % (rel, kv['name'], n, len(starts)))
    # R36 shape guard: positional proof hints are placed by ordinal; they are only meaningful on the statement / loop they were written for
    shape_parts = []
    if blk.loops or blk.loopstart or blk.loopend:
        kinds = []
        for (lk, ob) in loops:
            kd = body[lk].text
            nx = X._next_sig(body, lk)
            if kd == 'while' and nx < len(body) and body[nx].text == 'let':
                kd = 'whilelet'
            kinds.append(kd)
        shape_parts.append('loops=' + ','.join(kinds))
    if blk.stmts:
        for n in sorted(blk.stmts):
            try:
                k0 = starts[n]
            except IndexError:
                continue
            k1 = X._next_sig(body, k0)
            shape_parts.append('stmt%d=%s %s' % (n, body[k0].text, body[k1].text if k1 < len(body) else ''))
    cur_shape = ';'.join(shape_parts)
    def _shape_ok(rec, cur):
        # the recorded shape, or the recorded shape with trailing loops gone whose invariants are all marked `optional` (a REMOVED loop is then verified as
        # removed -- the clauses it was there for fail -- instead of losing the anchor)
        if rec == cur:
            return True
        rp = dict(x.split('=', 1) for x in rec.split(';') if '=' in x)
        cp = dict(x.split('=', 1) for x in cur.split(';') if '=' in x)
        for k_ in set(rp) | set(cp):
            if k_ == 'loops':
                continue
            if k_ in rp and k_ not in cp and k_.startswith('stmt') and int(k_[4:]) in blk.stmt_optional:
                continue       # the statement an OPTIONAL proof block stood in front of is gone
            if rp.get(k_) != cp.get(k_):
                return False
        rl = [x for x in rp.get('loops', '').split(',') if x]
        cl_ = [x for x in cp.get('loops', '').split(',') if x]
        if len(cl_) >= len(rl) or rl[:len(cl_)] != cl_:
            return False
        gone = range(len(cl_), len(rl))
        return all((n_ in blk.loop_optional) or (n_ not in blk.loops and n_ not in blk.loopstart and n_ not in blk.loopend) for n_ in gone)
    if blk.shape is not None and not _shape_ok(blk.shape, cur_shape):
        raise X.LostAnchor('%s::%s: the shape the positional proof hints were written for has changed (was `%s`, is `%s`): loop invariants / proof blocks cannot be placed' % (rel, kv['name'], blk.shape, cur_shape))
    for n, lines in blk.loopstart.items():
        if n >= len(loops) and n in blk.loop_optional:
            continue
        if n >= len(loops):
            raise X.LostAnchor('%s::%s: loop #%d not found (%d loops)' % (rel, kv['name'], n, len(loops)))
        add_insert(loops[n][1] + 1, lines, 'proof')
    for n, lines in blk.loopend.items():
        if n >= len(loops) and n in blk.loop_optional:
            continue
        if n >= len(loops):
            raise X.LostAnchor('%s::%s: loop #%d not found (%d loops)' % (rel, kv['name'], n, len(loops)))
        add_insert(match_close(body, loops[n][1]), lines, 'proof')
    # canaries
    canary_pts = []
    if mode and mode.startswith('canary'):
        cidx = int(mode[6:])
        if cidx == 0:
            canary_pts.append(1)
        elif cidx - 1 < len(loops):
            canary_pts.append(loops[cidx - 1][1] + 1)
        for pt in canary_pts:
            inserts.setdefault(pt, []).append(
                (' proof { assert(false); } // CANARY', dict(kind='canary', fn=name, tline=0, text='canary')))
    out = []  # (line_text, origin)
    curline = ''
    cur_src = body[0].line

    def flush(org):
        nonlocal curline
        if curline.strip():
            out.append((curline, org))
        curline = ''

    for i, t in enumerate(body):
        if i in inserts:
            if curline.strip():
                flush(dict(kind='src', fn=name, file=rel, line=cur_src))
            else:
                curline = ''
            for ln, org in inserts[i]:
                out.append((ln, org))
        parts = t.text.split('\n')
        for pi, p in enumerate(parts):
            if pi > 0:
                flush(dict(kind='src', fn=name, file=rel, line=cur_src))
                cur_src += 1
            curline += p
        if t.kind not in ('ws',):
            pass
    if curline:
        flush(dict(kind='src', fn=name, file=rel, line=cur_src))
    return dict(sig=sigt, body=out, log=log, hash=h, file=rel, line=src_line, name=name,
                nloops=len(loops), has_canary=bool(canary_pts), shape=cur_shape)


def extract_type(repo, blk, meta):
    kv = blk.kv
    rel = kv['file']
    src, toks = X.load(repo, rel)
    try:
        a, e, ob = X.find_typedef(toks, kv['kind'], kv['name'])
    except X.LostAnchor:
        if 'optional' not in blk.flags:
            raise
        # an item the code may or may not have (a constant introduced by a repair): without it nothing is emitted, and code that still names it does not compile (undecided)
        return dict(lines=[], log=[('S', 'optional %s %s absent: not emitted' % (kv['kind'], kv['name']), 0)], hash=X.sha([]), file=rel, line=0, name=kv['name'])
    item = toks[a:e + 1]
    src_line = toks[a].line
    h = X.sha(item)
    log = []
    item = X.strip_comments(item)
    item = X.drop_cfg_features(item, log)
    item = X.drop_attrs(item, log, keep=('#[repr',) if 'keeprepr' in blk.flags else ())
    item = X.drop_vis(item, log)
    for pat, rep, rule in blk.substs + meta['gsubst']:
        item = X.relex(item)
        item, cnt = X.subst_tokens(item, pat, rep, log, rule if rule != 'S' else 'R11')
        if cnt == 0 and (pat, rep, rule) in blk.substs and 'optional' not in rule:
            raise X.LostAnchor('%s::%s: substitution pattern `%s` not found' % (rel, kv['name'], pat))
    item = X.relex(item)
    t = text(item)
    if kv['kind'] == 'const' and 'enumcast' in kv:
        # R37: `Enum::Variant as u8` on the right-hand side of a constant (Verus has no exec-mode enum-to-integer cast) is replaced by the discriminant the
        # enum's definition gives that variant -- read from the source file named by `enumcast=<file>:<Enum>` on every run
        efile, ename = kv['enumcast'].split(':')
        esrc, etoks = X.load(repo, efile)
        ea, ee, eob = X.find_typedef(etoks, 'enum', ename)
        etext = text(X.strip_comments(etoks[ea:ee + 1]))
        def _disc(m):
            mm2 = re.search(r'\b%s\s*=\s*(0x[0-9A-Fa-f_]+|[0-9_]+)' % re.escape(m.group(1)), etext)
            if not mm2:
                raise X.LostAnchor('%s::%s: no explicit discriminant for %s::%s in %s' % (rel, kv['name'], ename, m.group(1), efile))
            log.append(('R37', '%s::%s as u8 -> %s (discriminant in %s)' % (ename, m.group(1), mm2.group(1), efile), src_line))
            return re.sub(r'_u8$|_', '', mm2.group(1)) if not mm2.group(1).startswith('0x') else mm2.group(1).replace('_u8', '').replace('_', '')
        t = re.sub(r'\b%s::([A-Za-z0-9_]+)\s+as\s+u8' % re.escape(ename), _disc, t)
    if 'as' in kv:
        t = re.sub(r'^(struct|enum)\s+%s\b' % re.escape(kv['name']), r'\1 ' + kv['as'], t)
    if 'keeprepr' in blk.flags:
        pre = text(toks[max(0, a - 80):a])
        mm = re.findall(r'#\[repr\([a-z0-9]+\)\]', pre)
        if mm:
            t = mm[-1] + '\n' + t if False else t
            blk.attrs = list(blk.attrs) + [mm[-1]]
            log.append(('R11', 'kept attribute %s' % mm[-1], src_line))
    t = ''.join(a + '\n' for a in blk.attrs) + 'pub ' + t
    # make fields pub so spec functions can read them
    if kv['kind'] == 'struct':
        t = re.sub(r'(?m)^(\s+)([a-z_][A-Za-z0-9_]*\s*:)', r'\1pub \2', t)
    # drop blank lines
    t = '\n'.join(l for l in t.split('\n') if l.strip())
    lines = [(ln, dict(kind='src', fn=kv['name'], file=rel, line=src_line)) for ln in t.split('\n')]
    if 'clone' in blk.flags:
        nm = kv.get('as', kv['name'])
        log.append(('R11', 'derived Clone of %s given spec `r == *self` (trusted)' % nm, src_line))
        lines.append(('impl Clone for %s { #[verifier::external_body] fn clone(&self) -> (r: Self) ensures r == *self { unimplemented!() } }' % nm,
                      dict(kind='tmpl', tline=blk.tline)))
    return dict(lines=lines, log=log, hash=h, file=rel, line=src_line, name=kv['name'])


def extract_composite(repo, kv, tline):
    """R40: for a composite type whose (de)serialization is written by the derive macro, the declaration IS the wire layout: the fields in declaration order are the
    positions of the described list, `#[amqp_contract(name, code, encoding)]` the descriptor and the form. The declaration order is emitted as the sequence of the fields'
    positions in the SPECIFICATION's field table (given in the template), the descriptor code / name / encoding as constants; a generated lemma states that the sequence is
    0, 1, 2, .. and that descriptor and form are the specification's. A field the table does not know is a lost anchor."""
    rel = kv['file']
    src, toks = X.load(repo, rel)
    nm = kv['struct']
    a, e, ob = X.find_typedef(toks, 'struct', nm)
    line = toks[a].line
    m = None
    for mm in re.finditer(r'#\[amqp_contract\(([^\]]*?)\)\]\s*((?:#\[[^\]]*\]\s*|//[^\n]*\n\s*)*)pub\s+struct\s+%s\b' % re.escape(nm), src):
        m = mm
    if m is None:
        raise X.LostAnchor('%s: no #[amqp_contract(..)] in front of struct %s' % (rel, nm))
    attr = m.group(1)
    def _a(key):
        q = re.search(r'\b%s\s*=\s*"([^"]*)"' % key, attr)
        return q.group(1) if q else None
    a_name, a_code, a_enc, a_ren = _a('name'), _a('code'), _a('encoding'), _a('rename_all')
    if a_name is None or a_code is None or a_enc is None:
        raise X.LostAnchor('%s: struct %s: amqp_contract attribute without name / code / encoding' % (rel, nm))
    cm = re.match(r'^0x([0-9a-fA-F_]+):0x([0-9a-fA-F_]+)$', a_code)
    if not cm:
        raise X.LostAnchor('%s: struct %s: descriptor code %r not understood' % (rel, nm, a_code))
    code = (int(cm.group(1).replace('_', ''), 16) << 32) | int(cm.group(2).replace('_', ''), 16)
    # fields in declaration order
    body = X.strip_comments(toks[ob:e + 1]) if toks[ob].text == '{' else []
    fields = []
    if body:
        sig = [t for t in body if t.kind not in ('ws', 'comment')]
        depth = 0
        ang = 0
        k = 0
        while k < len(sig):
            t = sig[k]
            if t.kind == 'punct' and t.text in '({[':
                depth += 1
            elif t.kind == 'punct' and t.text in ')}]':
                depth -= 1
            elif t.kind == 'punct' and t.text == '<' and depth == 1:
                ang += 1
            elif t.kind == 'punct' and t.text == '>' and depth == 1 and ang > 0 and not (sig[k - 1].kind == 'punct' and sig[k - 1].text == '-'):
                ang -= 1
            elif depth == 1 and ang == 0 and t.kind == 'ident' and t.text not in ('pub', 'crate', 'super', 'in') and k + 1 < len(sig) \
                    and sig[k + 1].kind == 'punct' and sig[k + 1].text == ':' and not (k + 2 < len(sig) and sig[k + 2].kind == 'punct' and sig[k + 2].text == ':') \
                    and not (sig[k - 1].kind == 'punct' and sig[k - 1].text == ':'):
                fields.append(t.text)
            k += 1
    spec = [f.strip() for f in kv['spec'] if f.strip()]
    pos = []
    for f in fields:
        wire = f.replace('_', '-').lstrip('r#') if a_ren == 'kebab-case' or a_ren is None else f
        wire = f.replace('_', '-')
        if wire not in spec:
            raise X.LostAnchor('%s: struct %s: field `%s` is not in the field table of the specification given for it' % (rel, nm, f))
        pos.append(spec.index(wire))
    up = re.sub(r'(?<!^)(?=[A-Z])', '_', nm).upper()
    lo = up.lower()
    org_s = dict(kind='src', fn=nm, file=rel, line=line)
    org_t = dict(kind='tmpl', tline=tline)
    short = ' '.join(re.findall(r'\[C\d\d\.[^\]]+\]', kv['label']))
    lines = []
    lines.append(('/// struct %s (%s:%d): the positions, in the specification\'s field table, of the fields in DECLARATION order (= the order the derive macro writes and reads them); fields: %s' % (nm, rel, line, ', '.join(fields) or '(none)'), org_s))
    lines.append(('pub open spec fn %s_decl_order() -> Seq<int> { seq![%s] }' % (lo, ', '.join('%dint' % p for p in pos)) if pos else 'pub open spec fn %s_decl_order() -> Seq<int> { Seq::empty() }' % lo, org_s))
    lines.append(('pub const %s_CODE: u64 = 0x%x;' % (up, code), org_s))
    lines.append(('pub const %s_NAME: &\'static str = "%s";' % (up, a_name), org_s))
    lines.append(('pub const %s_ENCODING: &\'static str = "%s";' % (up, a_enc), org_s))
    lines.append(('/// %s' % kv['label'], org_t))
    lines.append(('pub proof fn lemma_%s_wire_layout()' % lo, org_t))
    lines.append(('    ensures', org_t))
    lines.append(('        %s_decl_order() =~= Seq::new(%d, |i: int| i),       // %s the fields are declared -- hence written and read -- in the order of the specification\'s field table: %s' % (lo, len(spec), short, ', '.join(spec) or '(no fields)'), org_t))
    lines.append(('        %s_CODE == %s,       // %s descriptor code' % (up, kv['code'], short), org_t))
    lines.append(('        %s_NAME@ == "%s"@,       // %s descriptor name' % (up, kv['name'], short), org_t))
    lines.append(('        %s_ENCODING@ == "%s"@,       // %s composite form' % (up, kv['encoding'], short), org_t))
    lines.append(('{ reveal_strlit("%s"); reveal_strlit("%s"); reveal_strlit("%s"); reveal_strlit("%s"); }' % (a_name, kv['name'], a_enc, kv['encoding']), org_t))
    log = [('R40', 'struct %s: declaration order %s, descriptor %s / %s, encoding %s read from the declaration' % (nm, fields, a_name, a_code, a_enc), line)]
    return dict(lines=lines, log=log, hash=hashlib.sha256(repr((fields, a_name, a_code, a_enc)).encode()).hexdigest()[:16], file=rel, line=line, name='composite ' + nm)


def extract_strconsts(repo, kv, tline):
    """R38: `const NAME: &str = "literal";` items are copied from the source (type spelled `&'static str`), and a lemma stating that the
    named constants are pairwise different strings is GENERATED from the literals the source has on this run (reveal_strlit + a witness per
    pair: a different length or the first index at which they differ). Two equal literals leave their pair without witness: the lemma fails."""
    rel = kv['file']
    src, toks = X.load(repo, rel)
    lits = []
    lines = []
    log = []
    for nm in kv['names']:
        m = re.search(r'\bconst\s+%s\s*:\s*&\s*(?:\'static\s+)?str\s*=\s*"([^"\\\\]*)"\s*;' % re.escape(nm), src)
        if not m:
            raise X.LostAnchor('%s: string constant %s not found (or its literal has an escape)' % (rel, nm))
        line = src[:m.start()].count('\n') + 1
        lits.append((nm, m.group(1), line))
        lines.append(("pub const %s: &'static str = \"%s\";" % (nm, m.group(1)), dict(kind='src', fn=nm, file=rel, line=line)))
        log.append(('R38', 'string constant %s copied from the source' % nm, line))
    org = dict(kind='tmpl', tline=tline)
    short = ' '.join(re.findall(r'\[C\d\d\.[^\]]+\]', kv['label']))
    lines.append(('/// %s' % kv['label'], org))
    lines.append(('pub proof fn %s()' % kv['lemma'], org))
    lines.append(('    ensures', org))
    body = []
    for (n, l, _) in lits:
        body.append('    reveal_strlit("%s");' % l)
    for a in range(len(lits)):
        for b in range(a + 1, len(lits)):
            na, la, _ = lits[a]
            nb, lb, _ = lits[b]
            lines.append(('        %s@ != %s@,       // %s' % (na, nb, short), org))
            if len(la) != len(lb):
                body.append('    assert(%s@.len() == %d && %s@.len() == %d);' % (na, len(la), nb, len(lb)))
            else:
                d = [k for k in range(len(la)) if la[k] != lb[k]]
                if d:
                    body.append('    assert(%s@[%d] != %s@[%d]);' % (na, d[0], nb, d[0]))
    lines.append(('{', org))
    lines += [(b, org) for b in body]
    lines.append(('}', org))
    log.append(('R38', 'lemma %s generated from %d literals (%d pairs)' % (kv['lemma'], len(lits), len(lits) * (len(lits) - 1) // 2), 0))
    return dict(lines=lines, log=log, hash=hashlib.sha256(repr(lits).encode()).hexdigest()[:16], file=rel, line=lits[0][2] if lits else 0, name='string constants ' + kv['lemma'])


SPEC_KW = ('requires', 'ensures', 'invariant', 'invariant_except_break', 'decreases', 'recommends', 'returns',
           'no_unwind', 'opens_invariants')


def count_clauses(lines):
    """count ensures / invariant clauses in a list of spec lines: [(section, clause_text, tline)]"""
    res = []
    txt = '\n'.join(l for l, _ in lines)
    try:
        toks = lex(txt)
    except LexError:
        return res
    section = None
    cur = []
    curline = None
    depth = 0
    line = 0

    def fl():
        nonlocal cur, curline
        s = ''.join(cur).strip()
        if s and section is not None:
            res.append((section, re.sub(r'\s+', ' ', s), lines[min(curline, len(lines) - 1)][1]))
        cur = []
        curline = None

    for t in toks:
        if t.kind == 'comment':
            continue
        if t.kind == 'ident' and t.text in SPEC_KW and depth == 0:
            fl()
            section = t.text
            continue
        if t.kind == 'punct':
            if t.text in '([{':
                depth += 1
            elif t.text in ')]}':
                depth -= 1
            elif t.text == ',' and depth == 0:
                fl()
                continue
        if t.kind != 'ws' and curline is None:
            curline = t.line - 1
        cur.append(t.text)
    fl()
    return res


def generate(repo, template, mode=None, isolate=False, stub=None):
    """mode: None (verify) or 'canaryN'.
    isolate: a function whose extraction loses an anchor is LEFT OUT (recorded in `skipped`, with the labels of its clauses) instead of failing the whole unit: if
    nothing else in the unit calls it the rest is verified as usual and only that function's obligations are undecided; if something does, the unit does not compile
    and is undecided as before.
    Returns dict(text, origin[], functions[], types[], log[], clauses[], skipped[])"""
    X.str_const_names().clear()
    items, meta = parse_template(template)
    for it_ in items:
        if it_[0] == 'strconsts':
            X.str_const_names().update(it_[1]['names'])
    em = Emitter()
    functions = []
    types = []
    skipped = []
    for it in items:
        if it[0] == 'text':
            em.emit_lines([(it[1], dict(kind='tmpl', tline=it[2]))])
            continue
        if it[0] == 'strlits':
            kv_ = it[1]
            org = dict(kind='tmpl', tline=it[2])
            short = ' '.join(re.findall(r'\[C\d\d\.[^\]]+\]', kv_['label']))
            ls = kv_['lits']
            out = ['/// %s' % kv_['label'], 'pub proof fn %s()' % kv_['lemma'], '    ensures']
            body = ['    reveal_strlit("%s");' % l for l in ls]
            for a in range(len(ls)):
                for b in range(a + 1, len(ls)):
                    out.append('        "%s"@ != "%s"@,       // %s' % (ls[a], ls[b], short))
                    if len(ls[a]) != len(ls[b]):
                        body.append('    assert("%s"@.len() == %d && "%s"@.len() == %d);' % (ls[a], len(ls[a]), ls[b], len(ls[b])))
                    else:
                        d = [k for k in range(len(ls[a])) if ls[a][k] != ls[b][k]]
                        if d:
                            body.append('    assert("%s"@[%d] != "%s"@[%d]);' % (ls[a], d[0], ls[b], d[0]))
            out.append('{')
            out += body
            out.append('}')
            em.emit_lines([(l, org) for l in out])
            continue
        if it[0] == 'enumorder':
            kv_ = it[1]
            src_, toks_ = X.load(repo, kv_['file'])
            a_, e_, ob_ = X.find_typedef(toks_, 'enum', kv_['enum'])
            body_ = [t for t in X.strip_comments(toks_[ob_:e_ + 1]) if t.kind not in ('ws', 'comment')]
            vars_ = []
            dflt_ = None
            d_ = 0
            for q_, t_ in enumerate(body_):
                if t_.kind == 'punct' and t_.text in '({[':
                    d_ += 1
                elif t_.kind == 'punct' and t_.text in ')}]':
                    d_ -= 1
                elif d_ == 1 and t_.kind == 'ident' and t_.text[:1].isupper() and body_[q_ - 1].kind == 'punct' and body_[q_ - 1].text in '{,]':
                    vars_.append(t_.text)
                    # `#[default]` in front of the variant (derive(Default))
                    if q_ >= 4 and [u.text for u in body_[q_ - 4:q_]] == ['#', '[', 'default', ']']:
                        dflt_ = t_.text
            spec_ = [x.strip() for x in kv_['spec']]
            pos_ = []
            for v_ in vars_:
                kebab = re.sub(r'(?<!^)(?=[A-Z])', '-', v_).lower()
                if kebab not in spec_:
                    raise X.LostAnchor('%s: enum %s: variant `%s` is not in the table of the specification given for it' % (kv_['file'], kv_['enum'], v_))
                pos_.append(spec_.index(kebab))
            lo_ = re.sub(r'(?<!^)(?=[A-Z])', '_', kv_['enum']).lower()
            org_s = dict(kind='src', fn=kv_['enum'], file=kv_['file'], line=toks_[a_].line)
            org_t = dict(kind='tmpl', tline=it[2])
            short_ = ' '.join(re.findall(r'\[C\d\d\.[^\]]+\]', kv_['label']))
            kebab_of = lambda v_: re.sub(r'(?<!^)(?=[A-Z])', '-', v_).lower()
            extra_ = []
            if kv_.get('default'):
                extra_ = [('pub open spec fn %s_default_variant() -> int { %dint }       // the variant marked #[default]: %s' % (lo_, spec_.index(kebab_of(dflt_)) if dflt_ else -1, dflt_), org_s),
                          ('pub proof fn lemma_%s_default()' % lo_, org_t),
                          ('    ensures %s_default_variant() == %d,       // %s the value a field of this type has when it is absent (null-for-default) is the specification\'s default: %s' % (lo_, spec_.index(kv_['default']), short_, kv_['default']), org_t),
                          ('{}', org_t)]
            if kv_.get('noorder'):
                em.emit_lines([('/// enum %s (%s:%d)' % (kv_['enum'], kv_['file'], toks_[a_].line), org_s)] + extra_)
                types.append(dict(name='enum default ' + kv_['enum'], log=[('R40', 'enum %s: #[default] variant %s read from the declaration' % (kv_['enum'], dflt_), toks_[a_].line)], hash=hashlib.sha256(repr((vars_, dflt_)).encode()).hexdigest()[:16], file=kv_['file'], line=toks_[a_].line, lines=[]))
                continue
            out_ = [('/// enum %s (%s:%d): the specification\'s value of each variant, in DECLARATION order (serde\'s derive writes a fieldless variant as its index); variants: %s' % (kv_['enum'], kv_['file'], toks_[a_].line, ', '.join(vars_)), org_s),
                    ('pub open spec fn %s_decl_order() -> Seq<int> { seq![%s] }' % (lo_, ', '.join('%dint' % p_ for p_ in pos_)), org_s),
                    ('/// %s' % kv_['label'], org_t),
                    ('pub proof fn lemma_%s_wire_values()' % lo_, org_t),
                    ('    ensures %s_decl_order() =~= Seq::new(%d, |i: int| i),       // %s' % (lo_, len(spec_), short_), org_t),
                    ('{}', org_t)] + extra_
            em.emit_lines(out_)
            types.append(dict(name='enum order ' + kv_['enum'], log=[('R40', 'enum %s: declaration order %s read from the declaration' % (kv_['enum'], vars_), toks_[a_].line)], hash=hashlib.sha256(repr(vars_).encode()).hexdigest()[:16], file=kv_['file'], line=toks_[a_].line, lines=[]))
            continue
        if it[0] == 'composite':
            r = extract_composite(repo, it[1], it[2])
            em.emit_lines(r['lines'])
            types.append(r)
            continue
        if it[0] == 'strconsts':
            X.str_const_names().update(it[1]['names'])
            r = extract_strconsts(repo, it[1], it[2])
            em.emit_lines(r['lines'])
            types.append(r)
            continue
        blk = it[1]
        if blk.kind == 'macro':
            src, toks = X.load(repo, blk.kv['file'])
            hit = None
            sidx = X.sigidx(toks)
            for a in range(len(sidx) - 3):
                if toks[sidx[a]].text == 'macro_rules' and toks[sidx[a + 1]].text == '!' and toks[sidx[a + 2]].text == blk.kv['name'] \
                        and toks[sidx[a + 3]].text in '{(':
                    hit = (sidx[a], match_close(toks, sidx[a + 3]))
                    break
            if hit is None:
                raise X.LostAnchor('%s: macro_rules! %s not found' % (blk.kv['file'], blk.kv['name']))
            mt = X.strip_comments(toks[hit[0]:hit[1] + 1])
            txt = '\n'.join(l for l in text(mt).split('\n') if l.strip())
            line0 = toks[hit[0]].line
            mlog = [('R10', 'local macro_rules! %s copied verbatim; expanded by rustc inside the verified function' % blk.kv['name'], line0)]
            # unit-wide substitutions (//@@ gsubst) also apply to the text of a copied macro (R16: an `x.into()` inside the macro body is routed to a named conversion)
            for (gp, gr, grule) in meta.get('gsubst', []):
                if gp in txt:
                    txt = txt.replace(gp, gr)
                    mlog.append((grule, '`%s` => `%s` inside the macro body' % (gp, gr), line0))
            em.emit_lines([(ln, dict(kind='src', fn='macro ' + blk.kv['name'], file=blk.kv['file'], line=line0)) for ln in txt.split('\n')])
            types.append(dict(name='macro ' + blk.kv['name'], log=mlog,
                              hash=X.sha(toks[hit[0]:hit[1] + 1]), file=blk.kv['file'], line=line0, lines=[]))
            continue
        if blk.kind == 'decl':
            # a trait method declaration carrying the contract every impl is checked against
            nm = blk.kv['name']
            em.emit_lines([(blk.kv['sig'], dict(kind='sig', fn=nm, tline=blk.tline))])
            for ln, tl in blk.spec:
                em.emit_lines([(ln, dict(kind='spec', fn=nm, tline=tl, text=ln.strip()))])
            em.emit_lines([(';', dict(kind='tmpl', tline=blk.tline))])
            functions.append(dict(sig=blk.kv['sig'], body=[], log=[('R2', 'trait method declaration: contract stated once on the trait, each impl body is checked against it', 0)],
                                  hash='', file='(trait declaration)', line=0, name=nm, nloops=0, has_canary=False,
                                  clauses=count_clauses(blk.spec), tline=blk.tline))
            continue
        if blk.kind == 'type':
            r = extract_type(repo, blk, meta)
            em.emit_lines(r['lines'])
            types.append(r)
            continue
        try:
            r = extract_fn(repo, blk, meta, mode)
        except X.LostAnchor as e:
            if 'optional' in blk.flags and re.search(r'fn \S+ found (0 times|in 0 impl blocks)', str(e)):
                # a function the code may or may not have (a trait method with a default, e.g. SeqAccess::size_hint): absent, the default is in force and nothing is to be verified;
                # present, its body is checked against the contract stated here
                types.append(dict(name='optional fn %s' % blk.kv.get('name'), log=[('S', 'optional fn %s absent in %s: the trait default is in force, nothing emitted' % (blk.kv.get('name'), blk.kv.get('file')), 0)], hash='', file=blk.kv.get('file'), line=0, lines=[]))
                continue
            if not isolate:
                raise
            labs = []
            for ln, tl in blk.spec:
                labs += re.findall(r'\[(C\d\d\.[^\]]+)\]', ln)
            for n_, lines_ in blk.loops.items():
                for ln, tl in lines_:
                    labs += re.findall(r'\[(C\d\d\.[^\]]+)\]', ln)
            skipped.append(dict(name=blk.kv.get('as') or blk.kv.get('name'), labels=sorted(set(labs)), reason=str(e), tline=blk.tline))
            continue
        if stub and r['name'] in stub:
            # fallback of the driver: the BODY of this function does not compile after extraction (a construct outside the rewrite rules); its signature and contract are kept as an
            # ASSUMED stand-in so that the other functions of the unit can still be checked (a failure there is a failed obligation of code that WAS extracted); the function itself stays undecided
            em.emit_lines([('#[verifier::external_body]', dict(kind='tmpl', tline=blk.tline))])
            for a in blk.attrs:
                if 'external_body' not in a:
                    em.emit_lines([(a, dict(kind='tmpl', tline=blk.tline))])
            em.emit_lines([(r['sig'], dict(kind='sig', fn=r['name'], file=r['file'], line=r['line']))])
            for ln, tl in blk.spec:
                em.emit_lines([(ln, dict(kind='tmpl', tline=tl))])
            em.emit_lines([('{ unimplemented!() }', dict(kind='tmpl', tline=blk.tline))])
            skipped.append(dict(name=r['name'], labels=sorted(set(l for ln, tl in blk.spec for l in re.findall(r'\[(C\d\d\.[^\]]+)\]', ln))), reason='body does not compile after extraction (stubbed)', tline=blk.tline, stubbed=True))
            continue
        for a in blk.attrs:
            em.emit_lines([(a, dict(kind='tmpl', tline=blk.tline))])
        em.emit_lines([(r['sig'], dict(kind='sig', fn=r['name'], file=r['file'], line=r['line']))])
        for ln, tl in blk.spec:
            em.emit_lines([(ln, dict(kind='spec', fn=r['name'], tline=tl, text=ln.strip()))])
        em.emit_lines(r['body'])
        cl = count_clauses(blk.spec)
        for n, lines in blk.loops.items():
            cl += [(s, c, tl) for (s, c, tl) in count_clauses(lines)]
        r['clauses'] = cl
        r['tline'] = blk.tline
        functions.append(r)
    return dict(text='\n'.join(em.lines) + '\n', origin=em.origin, functions=functions, types=types, meta=meta, skipped=skipped)
