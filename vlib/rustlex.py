"""Minimal Rust lexer: enough to find items, match braces and do token-level rewrites.

Tokens are (kind, text, pos) where kind in
  ws, comment, ident, lifetime, num, str, char, punct
The concatenation of all token texts is exactly the input.
"""
import re

IDENT_START = re.compile(r'[A-Za-z_]')
IDENT = re.compile(r'[A-Za-z_][A-Za-z0-9_]*')
NUM = re.compile(r'[0-9][0-9A-Za-z_]*(\.[0-9][0-9A-Za-z_]*)?')
WS = re.compile(r'\s+')


class LexError(Exception):
    pass


class Tok:
    __slots__ = ('kind', 'text', 'pos', 'line')

    def __init__(self, kind, text, pos, line):
        self.kind = kind
        self.text = text
        self.pos = pos
        self.line = line

    def __repr__(self):
        return 'Tok(%s,%r,l%d)' % (self.kind, self.text, self.line)


def lex(src):
    toks = []
    i = 0
    n = len(src)
    line = 1

    def add(kind, j):
        nonlocal i, line
        t = src[i:j]
        toks.append(Tok(kind, t, i, line))
        line += t.count('\n')
        i = j

    while i < n:
        c = src[i]
        m = WS.match(src, i)
        if m:
            add('ws', m.end())
            continue
        if src.startswith('//', i):
            j = src.find('\n', i)
            if j < 0:
                j = n
            add('comment', j)
            continue
        if src.startswith('/*', i):
            depth = 1
            j = i + 2
            while j < n and depth > 0:
                if src.startswith('/*', j):
                    depth += 1
                    j += 2
                elif src.startswith('*/', j):
                    depth -= 1
                    j += 2
                else:
                    j += 1
            add('comment', j)
            continue
        # raw strings / byte strings
        m = re.compile(r'(b|c)?r(#*)"').match(src, i)
        if m:
            hashes = m.group(2)
            end = src.find('"' + hashes, m.end())
            if end < 0:
                raise LexError('unterminated raw string at %d' % i)
            add('str', end + 1 + len(hashes))
            continue
        if c == '"' or (c in 'bc' and i + 1 < n and src[i + 1] == '"'):
            j = i + (1 if c == '"' else 2)
            while j < n and src[j] != '"':
                if src[j] == '\\':
                    j += 1
                j += 1
            add('str', j + 1)
            continue
        if c == "'" or (c == 'b' and i + 1 < n and src[i + 1] == "'"):
            s = i + (1 if c == "'" else 2)
            # char literal or lifetime
            if s < n and src[s] == '\\':
                j = s + 2
                while j < n and src[j] != "'":
                    j += 1
                add('char', j + 1)
                continue
            if s + 1 < n and src[s + 1] == "'":
                add('char', s + 2)
                continue
            if c == "'":
                m = IDENT.match(src, s)
                if m:
                    add('lifetime', m.end())
                    continue
            # multibyte char literal like 'é'
            j = src.find("'", s)
            if j >= 0 and j - s <= 4:
                add('char', j + 1)
                continue
            raise LexError('bad quote at %d' % i)
        m = IDENT.match(src, i)
        if m:
            add('ident', m.end())
            continue
        m = NUM.match(src, i)
        if m:
            # do not swallow range `0..5` : NUM regex requires digit after '.'
            add('num', m.end())
            continue
        add('punct', i + 1)
    return toks


OPEN = {'(': ')', '[': ']', '{': '}'}
CLOSE = {')': '(', ']': '[', '}': '{'}


def sig(toks):
    """indices of significant tokens"""
    return [k for k, t in enumerate(toks) if t.kind not in ('ws', 'comment')]


def match_close(toks, k):
    """toks[k] is an opening bracket; return index of the matching closer."""
    o = toks[k].text
    assert o in OPEN, toks[k]
    stack = []
    for j in range(k, len(toks)):
        t = toks[j]
        if t.kind != 'punct':
            continue
        if t.text in OPEN:
            stack.append(t.text)
        elif t.text in CLOSE:
            if not stack or stack[-1] != CLOSE[t.text]:
                raise LexError('unbalanced %r at line %d' % (t.text, t.line))
            stack.pop()
            if not stack:
                return j
    raise LexError('no closer for %r at line %d' % (o, toks[k].line))


def text(toks):
    return ''.join(t.text for t in toks)


def norm(s):
    """normalise text for header comparison: lex and join significant tokens without spaces"""
    return ''.join(t.text for t in lex(s) if t.kind not in ('ws', 'comment'))
