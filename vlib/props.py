"""Static configuration: units and the property -> unit / harness map (DESIGN.md section 5)."""

UNITS = {
    'SESSION': dict(template='session.rs', rlimit=40),
}

COMMON_TRUSTED = [
    'Verus 0.2026.09.13 + Z3 (verifier), rustc front end',
    'extractor /verif/vlib (token-level rewrite rules R1-R22, logged per function in this file)',
    'vstd specifications of Vec, VecDeque, Option, Result, integer wrapping_*/saturating_*/checked_*',
]

ASYNC = 'async fn bodies are verified with .await erased (R3): sound for the state reached through the exclusive &mut self borrow, says nothing about interleavings through shared Arc state or cancellation'
ENGINE = 'that the tokio engine tasks (select! loops, mpsc channels) call these functions once per frame in arrival order is not verified'

PROPS = {
    'C02': dict(
        units=['SESSION'], kani=[], level='proof', title='Settlement',
        assumptions=[ASYNC, ENGINE,
            'session::consecutive_chunk_indices enters with an assumed contract (iterator adapters are outside the Verus subset)',
            'in unit SESSION a link is a ghost call log whose echo answer is the contract of LinkRelay::on_incoming_disposition (sender && !settled && rcv-settle-mode second)',
            'DeliveryFut::poll (Pin/poll) and interleaving of dispositions with further sends are not decided']),
    'C11': dict(
        units=['SESSION'], kani=[], level='proof', title='Identifiers',
        assumptions=[ASYNC, ENGINE,
            'fewer than 2^32 link handles are live in one session (handle = slab key as u32)',
            'slab::Slab is modelled as a partial map whose vacant key is unoccupied (trusted stand-in)',
            'concurrent attaches are serialised by the session engine (not verified)']),
    'C13': dict(
        units=['SESSION'], kani=[], level='proof', title='Session and link lifecycles',
        assumptions=[ASYNC, ENGINE,
            'answered-no-later-than / returns-only-after clauses of the property are liveness statements and are not decided',
            'Drop impls racing with the engine are not decided']),
    'C15': dict(
        units=['SESSION'], kani=[], level='proof', title='Misbehaving peer',
        assumptions=[ASYNC, ENGINE,
            'never-blocks-forever and isolation between connections are not decided',
            'handlers of peer input carry no precondition on the peer-controlled arguments']),
    'C07': dict(
        units=['SESSION'], kani=[], level='proof',
        title='Session flow control',
        assumptions=[
            'the session engine calls these functions in the order frames arrive/are queued (select! loop not verified)',
            'async fn bodies verified with .await erased (R3): exclusive &mut self access across suspension points',
            'LinkRelay is a ghost-log stand-in in this unit; its real methods are under contract in unit LINKRELAY',
            'liveness under the tokio scheduler is not decided',
        ]),
}

V_TEXT = 'Every listed clause is a machine-checked contract (ensures / loop invariant / lemma) on the function as extracted from /repo on this run; Verus discharges all obligations for all inputs and iterations with no bound. '
for _p, _c in PROPS.items():
    _c.setdefault('level_text', V_TEXT + 'Partial: only the sequential cores named in the evidence are under contract; see assumptions.')
    _c.setdefault('level_note', 'Trusted: Verus/Z3, the extractor and its logged rewrite rules, prelude stand-ins for std/third-party containers and leaf types (listed in evidence.coverage.trusted_base); machine integers are machine integers; scheduling/async interleavings are outside the proof.')

NOT_APPLICABLE = {
    'C14': 'liveness over transport cut points x pending operations x schedules of four tokio tasks; neither Verus nor Kani models tasks, wake-ups or channel closure, and no per-function contract decides any sentence of it',
    'C16': 'quantifies over the await point at which a future is dropped; rule R3 erases exactly those suspension points, Kani cannot execute tokio mpsc/Notify within resource limits, Verus has no model of Future::poll/drop',
}
HOOK_COMMITS = []
