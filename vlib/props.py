"""Static configuration: units and the property -> unit / harness map (DESIGN.md section 5)."""

UNITS = {
    'SESSION': dict(template='session.rs', rlimit=40),
    'LINKFLOW': dict(template='linkflow.rs', rlimit=30),
    'FRAMEENC': dict(template='frameenc.rs', rlimit=60),
    'CONN': dict(template='conn.rs', rlimit=30),
    'FRAMEDEC': dict(template='framedec.rs', rlimit=30),
    'SENDSPLIT': dict(template='sendsplit.rs', rlimit=30),
    'LINK': dict(template='link.rs', rlimit=30),
    'REASM': dict(template='reasm.rs', rlimit=30),
    'TXN': dict(template='txn.rs', rlimit=30),
    'SERHDR': dict(template='serhdr.rs', rlimit=30),
    'SESSENG': dict(template='sesseng.rs', rlimit=40),
    'CONNENG': dict(template='conneng.rs', rlimit=40),
    'TRANSPORT': dict(template='transport.rs', rlimit=30),
    'LINKDETACH': dict(template='linkdetach.rs', rlimit=30),
    'BUILDER': dict(template='builder.rs', rlimit=30),
    'SASLNEG': dict(template='saslneg.rs', rlimit=30),
    'SASLMECH': dict(template='saslmech.rs', rlimit=40),
    'READERS': dict(template='readers.rs', rlimit=60),
    'SERSTR': dict(template='serstr.rs', rlimit=40),
    'BYTEREADER': dict(template='bytereader.rs', rlimit=60),
    'TXNCTRL': dict(template='txnctrl.rs', rlimit=40),
    'HEADERS': dict(template='headers.rs', rlimit=30),
    'TXNCOORD': dict(template='txncoord.rs', rlimit=30),
    'RECVLOOP': dict(template='recvloop.rs', rlimit=30),
    'MESSAGE': dict(template='message.rs', rlimit=30),
    'SEQACCESS': dict(template='seqaccess.rs', rlimit=30),
    'HDRCODEC': dict(template='hdrcodec.rs', rlimit=30),
    'PRODUCER': dict(template='producer.rs', rlimit=30),
    'SERFIX': dict(template='serfix.rs', rlimit=30),
    'VALUESER': dict(template='valueser.rs', rlimit=30),
    'ACCSESS': dict(template='accsess.rs', rlimit=30),
    'SENDINNER': dict(template='sendinner.rs', rlimit=30),
    'CONVERSIONS': dict(template='conversions.rs', rlimit=30),
    'ERRCONV': dict(template='errconv.rs', rlimit=30),
    'TXNDROP': dict(template='txndrop.rs', rlimit=30),
    'SESSWIRING': dict(template='sesswiring.rs', rlimit=30),
    'CONNWIRING': dict(template='connwiring.rs', rlimit=30),
    'ACCDELEG': dict(template='accdeleg.rs', rlimit=30),
    'TXNDELEG': dict(template='txndeleg.rs', rlimit=30),
    'LCONNDELEG': dict(template='lconndeleg.rs', rlimit=30),
    'LINKATTACH': dict(template='linkattach.rs', rlimit=30),
    'RESUME': dict(template='resume.rs', rlimit=30),
    'DISPOSER': dict(template='disposer.rs', rlimit=30),
    'HANDLES': dict(template='handles.rs', rlimit=30),
    'DELIVFUT': dict(template='delivfut.rs', rlimit=30),
    'RECVAPI': dict(template='recvapi.rs', rlimit=30),
    'WIRING': dict(template='wiring.rs', rlimit=30),
    'ACCLINK': dict(template='acclink.rs', rlimit=30),
    'LINKAPI': dict(template='linkapi.rs', rlimit=30),
    'TIMERS': dict(template='timers.rs', rlimit=30),
    'ANYDISPATCH': dict(template='anydispatch.rs', rlimit=30),
    'DEENTRY': dict(template='deentry.rs', rlimit=30),
    'SERENTRY': dict(template='serentry.rs', rlimit=30),
    'DESCDISPATCH': dict(template='descdispatch.rs', rlimit=30),
    'WIRELAYOUT': dict(template='wirelayout.rs', rlimit=30),
    'ERRCOND': dict(template='errcond.rs', rlimit=30),
    'LINKEXCH': dict(template='linkexch.rs', rlimit=30),
    'RESUMESPLIT': dict(template='resumesplit.rs', rlimit=30),
    'ENUMCODES': dict(template='enumcodes.rs', rlimit=30),
    'SETTERS': dict(template='setters.rs', rlimit=30),
    'LINKBUILDER': dict(template='linkbuilder.rs', rlimit=30),
    'DELIVERY': dict(template='delivery.rs', rlimit=30),
    'TERMINUS': dict(template='terminus.rs', rlimit=30),
    'CONNBUILDER': dict(template='connbuilder.rs', rlimit=30),
    'ACCBUILDER': dict(template='accbuilder.rs', rlimit=30),
    'VISITENUM': dict(template='visitenum.rs', rlimit=30),
    'NEWTYPES': dict(template='newtypes.rs', rlimit=30),
    'SIZEENTRY': dict(template='sizeentry.rs', rlimit=30),
    'VALUETREE': dict(template='valuetree.rs', rlimit=30),
    'SIMPLEVALUE': dict(template='simplevalue.rs', rlimit=30),
    'MECHLIST': dict(template='mechlist.rs', rlimit=30),
    'VALUEDE': dict(template='valuede.rs', rlimit=30),
    'LINKRESUME': dict(template='linkresume.rs', rlimit=30),
    'RESUMECORE': dict(template='resumecore.rs', rlimit=30),
    'TXNACQ': dict(template='txnacq.rs', rlimit=30),
    'ATTACHBUILD': dict(template='attachbuild.rs', rlimit=30),
    'UNSETTLED': dict(template='unsettled.rs', rlimit=30),
}

VARW = 'PROVED for every value (units SERSTR + READERS): strings, symbols and binaries of ANY length and content, outside and inside arrays -- the serializer writes a valid str8/str32, sym8/sym32, vbin8/vbin32 encoding whose size field counts octets ([C05.*.encoding], [C05.*.array-element]); the decoder reads both width variants by the AMQP layout and accepts every one of them from a reliable reader ([C05.*.decoding], [C05.*.every-variant-accepted]); lemma_var_round_trip joins the two: decode(encode(x) ++ rest) == x, consuming exactly the encoding; serialized_size agrees with the octets written ([C20.size.*]); compound headers are decoded to the body length and count the layout defines ([C05.compound.header-decoding])'

COMMON_TRUSTED = [
    'Verus 0.2026.09.13 + Z3 (verifier), rustc front end',
    'extractor /verif/vlib (token-level rewrite rules R1-R29, logged per function in this file)',
    'vstd specifications of Vec, VecDeque, Option, Result, integer wrapping_*/saturating_*/checked_*',
]

def _k(harness, target, claim, complete, bound='', tier='quick', timeout=900, crate='codec', **kw):
    return dict(crate=crate, harness=harness, target=target, claim=claim, complete=complete, bound=bound, tier=tier, timeout=timeout,
                trusted=['Kani 0.68 / CBMC 6.11 on the unmodified serde_amqp crate (path dependency on /repo)'], **kw)


PRIMS = ['u8', 'u16', 'u32', 'u64', 'i8', 'i16', 'i32', 'i64', 'bool', 'char', 'f32', 'f64', 'unit']
K_RT = [_k('rt_%s' % t, 'serde_amqp::{to_vec,from_slice,serialized_size}::<%s>' % t,
           'for EVERY value x of %s: to_vec(x) == the smallest AMQP 1.0 encoding per the spec table (constructor, big-endian width); serialized_size(x) == |to_vec(x)|; from_slice(to_vec(x)) == x (bit-equal for floats)' % t,
           True) for t in PRIMS]
K_DEC = [_k('dec_%s_variants' % t, 'serde_amqp::from_slice::<%s>' % t,
            'every spec-valid width variant of %s with symbolic content decodes to the value the spec assigns' % t, True)
         for t in ['u32', 'u64', 'i32', 'i64', 'bool']]
K_TOTAL3 = [_k('total3_%s' % t, 'serde_amqp::from_slice::<%s>' % t,
               'every byte string of length <= 3 decodes as %s to Ok or Err: no panic, no arithmetic overflow' % t, False,
               bound='input length <= 3 bytes (all 2^24+ strings)') for t in ['u32', 'u64', 'i32', 'i64', 'bool', 'u8', 'u16', 'char']]

K_HDR_QUICK = [_k('hdr3_list8_vec', 'serde_amqp::from_slice::<Vec<u8>>', 'list8 header with fully symbolic size and count bytes (0xc0 size count) decodes to Ok or Err: no panic, no arithmetic overflow', False,
                  bound='input = exactly 3 bytes, size and count symbolic (65536 cases)')]
K_HDR_THOROUGH = [
    _k('total_list8_header_vec_u8', 'serde_amqp::from_slice::<Vec<u8>>', 'list8 header + 2 symbolic bytes, every prefix length 0..5: Ok or Err, no panic/overflow', False, bound='<= 5 bytes, 4 symbolic', tier='thorough', timeout=3000),
]
K_READER = [_k('reader_agrees_u32', 'serde_amqp::{from_slice,from_reader}::<u32>', 'for every 7-byte string: decoding a u32 from the slice and from an io::Read cursor give the same result and the cursor has advanced by exactly the length of the encoding (the tail is untouched)', False,
               bound='7-byte inputs (all 2^56), one value followed by an arbitrary tail')]
K_SASL = [
    _k('plain_init_iff_valid', 'fe2o3_amqp::acceptor::SaslPlainMechanism::on_init', 'for every initial response of <= 7 bytes: outcome code is Ok IFF the response is authzid NUL "ab" NUL "cd" [NUL ...] for the configured user "ab"/password "cd" (prefixes, one-byte differences, missing fields, empty fields are all refused)', False,
       bound='response length <= 7 bytes (all strings), fixed 2-byte user and password', crate='amqp', timeout=1800),
    _k('plain_missing_response_and_on_response_never_ok', 'fe2o3_amqp::acceptor::SaslPlainMechanism::{on_init,on_response}', 'no initial response => not Ok; a SASL response frame (never expected by PLAIN) with any 3 bytes => not Ok', False,
       bound='3 symbolic bytes', crate='amqp', timeout=1800),
]

COMPOSITE_VARIANTS = dict(name='composite_width_variants', kind='agreement', target='serde_amqp::de::Deserializer~fe2o3_amqp_types-composites', args=['C05.composite-variants'],
                     claim='every typed protocol item of the sample set (delivery states and outcomes, open / begin / flow / transfer / disposition / detach / end / close, header, properties, source, target, body sections; described-list bodies on both sides of the list8 / list32 boundary, trailing fields elided) decodes to the SAME value from every valid width of its outer list (list8 re-written as list32 and back, list0 as an empty list8 / list32), from a slice and from a stream, and the two values placed right behind it are found where they are (exactly the encoding is consumed)',
                     bound='about 160 sample values (message-id / correlation-id in every variant, addresses, symbols, custom and standard error conditions, contents on both sides of the 255-octet boundary) x up to 3 width variants x 2 readers (derive-macro output and the serde visitors are outside the Verus subset; DescribedAccess::consume_list_header / consume_map_header are under contract in unit READERS)')

DERIVE_LAYOUT = dict(name='derive_macro_composite_layout', kind='agreement', target='serde_amqp_derive::{SerializeComposite,DeserializeComposite}', args=['C05.derive-layout'],
                     claim='for local composites declared with the derive macros (tuple and named form, every mix of optional and mandatory fields): the encoding is the descriptor followed by ONE list holding the fields in declaration order, a null for each absent field that a present one follows, trailing absent fields elided, nothing repeated; and it decodes back to the value. The code a proc-macro generates is outside the reach of a contract: bounded stand-in',
                     bound='5 composite shapes x all combinations of None / Some over 3 booleans, 7 optional and 6 mandatory int values (about 1200 values)')

RT_VALUE_CLASSES = dict(name='rt_value_classes', kind='agreement', target='serde_amqp::{to_vec,from_slice}::<Value>', args=['C03.value-rt'],
                 claim='from_slice(to_vec(v)) == v for untyped values: every leaf class (all primitive types, strings/symbols/binaries on both sides of the 255/256 width boundary, non-ASCII text), every compound wrapper of a leaf (array of 1/2/3/300, list, map as key and as value, described by code and by name) and every wrapper of those (nesting depth 2), outside the two input classes of findings D18 / D19',
                 bound='3011 values: 37 leaves x 9 wrappers x 9 wrappers, fixed sample data per leaf class')

ASYNC = 'async fn bodies are verified with .await erased (R3): sound for the state reached through the exclusive &mut self borrow, says nothing about interleavings through shared Arc state or cancellation'
ENGINE = 'that the tokio engine tasks (select! loops, mpsc channels) call these functions once per frame in arrival order is not verified'

PROPS = {
    'C02': dict(
        probes=[dict(name='cci_session_agreement', kind='agreement', target='fe2o3_amqp::session::consecutive_chunk_indices', args=['C02.cci-session'], claim='session::consecutive_chunk_indices (iterator adapters; enters unit SESSION as an assumed contract) agrees with its oracle: a new run starts exactly where the next id is not the previous + 1', bound='every ascending sequence of <= 6 ids over {0,1,2,3,5,6,2^32-2,2^32-1} (3003 sequences), real function through the verif-hooks facade'), dict(name='cci_receiver_agreement', kind='agreement', target='fe2o3_amqp::link::receiver_link::consecutive_chunk_indices', args=['C02.cci-receiver'], claim='receiver_link::consecutive_chunk_indices agrees with its oracle: a new run starts exactly where the id is not consecutive OR the per-delivery rcv-settle-mode changes', bound='every ascending sequence of <= 6 ids over 8 values x every assignment of {unset, first, second} (1.47 M cases), real function through the verif-hooks facade')],
        units=['SESSION', 'SENDSPLIT', 'LINK', 'LINKATTACH', 'RESUME', 'DISPOSER', 'DELIVFUT', 'RECVAPI', 'WIRING', 'ACCLINK', 'LINKAPI', 'ACCDELEG', 'TXNDELEG', 'SENDINNER', 'WIRELAYOUT', 'RESUMESPLIT', 'ENUMCODES', 'SETTERS', 'VISITENUM', 'LINKRESUME', 'RESUMECORE', 'ATTACHBUILD', 'UNSETTLED', 'LINKBUILDER', 'DELIVERY', 'LINKDETACH', 'REASM'], kani=[], level='proof', title='Settlement',
        assumptions=[ASYNC, ENGINE,
            'session::consecutive_chunk_indices and util::is_consecutive are under contract in unit SESSION (rule R34: the windows(2).enumerate().filter_map(..).collect() chain is written as the loop the std adapters perform, closure body verbatim); the agreement probe cci_session_agreement still runs the real function against an independent oracle (bounded)',
            'ReceiverLink::dispose_all (batch disposal: sort, drop what is no longer unsettled, one disposition per maximal run) and receiver_link::consecutive_chunk_indices are under contract in unit LINK (rule R34; `sort_by_key` / `retain` are stand-ins taking the closures as the code has them); the agreement probe cci_receiver_agreement still runs the real run splitter against an independent oracle (bounded)',
            'in unit SESSION a link is a ghost call log whose echo answer is the contract of LinkRelay::on_incoming_disposition (sender && !settled && rcv-settle-mode second)',
            'DeliveryFut::poll and the SendResult conversions are under contract in unit DELIVFUT (Pin erased, the oneshot as a stand-in); interleaving of dispositions with further sends is not decided',
            'that UnsettledMessage::settle_with_state is actually invoked on the entry removed by LinkRelay::on_incoming_disposition is visible in the extracted text but is not an obligation: a by-value call leaves no ghost trace; what IS proved: the entry removed is the one under the disposition\'s tag, and settle_with_state resolves its own channel with exactly the state given']),
    'C03': dict(
        probes=[COMPOSITE_VARIANTS, DERIVE_LAYOUT,
            RT_VALUE_CLASSES,
            dict(name='rt_array_of_described', kind='agreement', target='serde_amqp::{to_vec,from_slice}::<Value>', args=['C03.array-of-described'],
                 claim='the same round trip for the values in which an array of described values occurs', bound='296 values (as above, restricted to that class)'),
            dict(name='rt_array_of_zero_width', kind='agreement', target='serde_amqp::{to_vec,from_slice}::<Value>', args=['C03.array-of-zero-width'],
                 claim='the same round trip for the values in which an array of two or more zero-width elements (null, empty list) occurs', bound='30 values (as above, restricted to that class)'),
        ],
        units=['SERHDR', 'SERSTR', 'SERFIX', 'READERS', 'MESSAGE', 'SEQACCESS', 'VALUESER', 'ANYDISPATCH', 'DEENTRY', 'SERENTRY', 'DESCDISPATCH', 'WIRELAYOUT', 'ERRCOND', 'ENUMCODES', 'VISITENUM', 'NEWTYPES', 'VALUETREE', 'SIMPLEVALUE', 'MECHLIST', 'VALUEDE'], kani=K_RT, level='proof', title='Codec round trip (fixed- and variable-width primitives, compound headers)',
        lemmas={'READERS': ['lemma_var_round_trip', 'lemma_be32_inverse', 'lemma_be64_inverse', 'lemma_fixed_round_trip_u64', 'lemma_fixed_round_trip_u32', 'lemma_fixed_round_trip_u8', 'lemma_fixed_round_trip_i32', 'lemma_fixed_round_trip_i64'], 'MESSAGE': ['lemma_message_round_trip', 'lemma_run', 'lemma_fold_concat', 'lemma_fold_opt']},
        assumptions=[VARW,
            'PROVED for every value: the fixed-width primitives listed in the obligations (Kani harnesses, loop-free / fully unwound over the full domain) and the compound header writers (Verus)',
            'BOUNDED ONLY (listed under bounded_obligations, never counted as proved): decoders on short byte strings, compound headers with hostile size/count bytes',
            'PROVED per function since session 8 (units DEENTRY, SERENTRY, SEQACCESS, DESCDISPATCH, VISITENUM, NEWTYPES, WIRELAYOUT, ENUMCODES, ERRCOND): every typed entry point of the deserializer and every compound serializer of ser.rs (the generic visitor / value is a recording stand-in), the descriptor / constructor dispatchers and visit_enum of the typed protocol enums, the names the AMQP-specific types announce themselves with, the wire layout of the 28 derive-macro composites read from their declarations, the restricted types and error-condition symbols in both directions. NOT DECIDED: the composition over arbitrary nesting (the induction over the serde visitor chain is not mechanised: each step is under contract, the chain is not), the derive macro itself (serde_amqp_derive: proc-macro code; that it writes / reads fields in declaration order is decided by the bounded composite probes), the Serialize / Deserialize impls of Value, Described, Array (deserialize side), Body and batches',
            'compound header writers: the call-site fact count <= byte length (every element occupies at least one byte in this implementation) is assumed; the serde SerializeSeq / Tuple / Map / Struct / TupleStruct impls that call them are under contract in unit SERENTRY (count = elements serialized, body = their octets, position = the enclosing one); the size twin (size_ser.rs compound serializers and entry points) is under contract in unit SIZEENTRY: it adds up the sizes of exactly the elements / fields ser.rs writes, under the same modes except in three arms (DESIGN section 8), which the clauses name',
            'messages: Message::serialize is proved to hand the serializer exactly the sections that are set, in the AMQP order, and the Message visitor (visit_seq, FieldVisitor::visit_u64) to rebuild the same sections from them (lemma_message_round_trip, all 64 presence combinations, body descriptors 0x75-0x77); the encoding of each section value (derive output), the body types (incl. batches of Data/AmqpSequence) are not under contract; the symbolic descriptors (visit_str) of the dispatchers are (unit DESCDISPATCH)']),
    'C05': dict(
        probes=[COMPOSITE_VARIANTS, DERIVE_LAYOUT, RT_VALUE_CLASSES,
                dict(name='spec_defaults_of_elided_fields', kind='agreement', target='serde_amqp::from_slice~fe2o3_amqp_types-composites', args=['C05.spec-defaults'],
                     claim='a composite whose defaulted fields are elided (list0, short list) or sent as null decodes to the defaults of the SPECIFICATION, written out in the probe (header: durable false, priority 4, first-acquirer false, delivery-count 0; open: max-frame-size 4294967295, channel-max 65535; begin: handle-max 4294967295; attach: snd-settle-mode mixed, rcv-settle-mode first, incomplete-unsettled false; flow: drain / echo false; transfer: more / aborted / batchable / resume false; disposition: settled / batchable false; detach: closed false; source / target: durable none, expiry-policy session-end, timeout 0, dynamic false)',
                     bound='12 reference encodings written by hand from the specification, 36 field checks (derive-macro output is outside the Verus subset)')],
        units=['SERHDR', 'SERSTR', 'SERFIX', 'READERS', 'VALUESER', 'MESSAGE', 'SEQACCESS', 'ANYDISPATCH', 'DEENTRY', 'SERENTRY', 'DESCDISPATCH', 'WIRELAYOUT', 'ERRCOND', 'ENUMCODES', 'VISITENUM', 'NEWTYPES', 'VALUETREE', 'SIMPLEVALUE', 'MECHLIST', 'VALUEDE'], kani=K_RT + K_DEC, level='proof', title='Valid encodings / every variant accepted (fixed- and variable-width primitives, compound headers)',
        lemmas={'READERS': ['lemma_var_round_trip', 'lemma_be32_inverse', 'lemma_be64_inverse', 'lemma_fixed_round_trip_u64', 'lemma_fixed_round_trip_u32', 'lemma_fixed_round_trip_u8', 'lemma_fixed_round_trip_i32', 'lemma_fixed_round_trip_i64']},
        assumptions=[VARW,
            'PROVED for every value: the fixed-width primitives listed in the obligations (Kani harnesses, loop-free / fully unwound over the full domain) and the compound header writers (Verus)',
            'BOUNDED ONLY (listed under bounded_obligations, never counted as proved): decoders on short byte strings, compound headers with hostile size/count bytes',
            'PROVED per function since session 8 (units DEENTRY, SERENTRY, SEQACCESS, DESCDISPATCH, VISITENUM, NEWTYPES, WIRELAYOUT, ENUMCODES, ERRCOND): every typed entry point of the deserializer and every compound serializer of ser.rs (the generic visitor / value is a recording stand-in), the descriptor / constructor dispatchers and visit_enum of the typed protocol enums, the names the AMQP-specific types announce themselves with, the wire layout of the 28 derive-macro composites read from their declarations, the restricted types and error-condition symbols in both directions. NOT DECIDED: the composition over arbitrary nesting (the induction over the serde visitor chain is not mechanised: each step is under contract, the chain is not), the derive macro itself (serde_amqp_derive: proc-macro code; that it writes / reads fields in declaration order is decided by the bounded composite probes), the Serialize / Deserialize impls of Value, Described, Array (deserialize side), Body and batches',
            'compound header writers: the call-site fact count <= byte length (every element occupies at least one byte in this implementation) is assumed; the serde SerializeSeq/Map impls that call them are not under contract']),
    'C20': dict(
        probes=[COMPOSITE_VARIANTS, RT_VALUE_CLASSES, dict(name='size_of_described_composites', kind='agreement', target='serde_amqp::{serialized_size,to_vec} on fe2o3_amqp_types composites', args=['C20.size-composites'],
                     claim='serialized_size(v) == to_vec(v).len() for derive(SerializeComposite) values: empty described lists (Accepted, Released, End, default Header / Properties), delivery states inside a Disposition, and described lists whose body crosses the list8 / list32 boundary (body sizes 220..=270 through Properties.user_id and Rejected.error.description), Data / AmqpValue around the vbin8 / str8 boundary',
                     bound='133 values, fixed sample data'),
                dict(name='tree_vs_bytes_plain', kind='agreement', target='serde_amqp::{to_value,from_value}~{to_vec,from_slice}', args=['C20.value-tree-plain'],
                     claim='from_value::<T>(to_value(&v)) and from_slice::<T>(&to_vec(&v)) both give v back, for undescribed typed values: every primitive type, strings / symbols / binaries, Option, unit, Vec (nested, of options), tuples, BTreeMap / OrderedMap, Array of primitives, of lists, of tuples and of arrays',
                     bound='49 typed values, fixed sample data'),
                dict(name='tree_vs_bytes_described', kind='agreement', target='serde_amqp::{to_value,from_value}~{to_vec,from_slice}', args=['C20.value-tree-described'],
                     claim='the same agreement for described types (derive(DeserializeComposite) performatives, delivery states, message sections; Described<T>)', bound='8 typed values'),
                dict(name='tree_vs_bytes_untyped', kind='agreement', target='serde_amqp::{to_value,from_value}~{to_vec,from_slice}', args=['C20.value-tree-untyped'],
                     claim='the same agreement with the untyped tree itself as target type (from_value::<Value>, OrderedMap<Symbol, Value>)', bound='8 values')],
        units=['FRAMEDEC', 'READERS', 'SERSTR', 'SERFIX', 'SERHDR', 'VALUESER', 'BYTEREADER', 'DEENTRY', 'VISITENUM', 'SIZEENTRY', 'VALUETREE', 'SIMPLEVALUE', 'VALUEDE', 'SERENTRY'], lemmas={'VALUESER': ['lemma_tree_equals_direct']}, kani=K_RT + K_READER, level='proof', title='Codec entry points agree (primitives; frame payload)',
        assumptions=[
            'PROVED for every value: the fixed-width primitives listed in the obligations (Kani harnesses, loop-free / fully unwound over the full domain) and the compound header writers (Verus)',
            'BOUNDED ONLY (listed under bounded_obligations, never counted as proved): decoders on short byte strings, compound headers with hostile size/count bytes',
            'PROVED per function since session 8 (units DEENTRY, SERENTRY, SEQACCESS, DESCDISPATCH, VISITENUM, NEWTYPES, WIRELAYOUT, ENUMCODES, ERRCOND): every typed entry point of the deserializer and every compound serializer of ser.rs (the generic visitor / value is a recording stand-in), the descriptor / constructor dispatchers and visit_enum of the typed protocol enums, the names the AMQP-specific types announce themselves with, the wire layout of the 28 derive-macro composites read from their declarations, the restricted types and error-condition symbols in both directions. NOT DECIDED: the composition over arbitrary nesting (the induction over the serde visitor chain is not mechanised: each step is under contract, the chain is not), the derive macro itself (serde_amqp_derive: proc-macro code; that it writes / reads fields in declaration order is decided by the bounded composite probes), the Serialize / Deserialize impls of Value, Described, Array (deserialize side), Body and batches',
            'compound header writers: the call-site fact count <= byte length (every element occupies at least one byte in this implementation) is assumed; the serde SerializeSeq/Map impls that call them are not under contract'] + ['to_value/from_value vs bytes: decided only on the samples of the bounded probes tree_vs_bytes_* (value/ser.rs and value/de.rs are serde visitor code outside the Verus subset)',
            'PROVED for every input (unit READERS): SliceReader and IoReader satisfy ONE Read contract (peek/peek_bytes consume nothing, next/read_exact/read_bytes consume exactly what they return, in order), so decoding from a slice and from a stream see the same bytes and leave the same bytes behind; the LazyValue/byte_buf scanner takes exactly one encoded value (length by the AMQP constructor rule) -- the typed entry points built on top (de.rs) are under contract in units READERS / SEQACCESS / ANYDISPATCH / DEENTRY']),
    'C04': dict(
        units=['READERS', 'SEQACCESS', 'BYTEREADER', 'DEENTRY', 'DESCDISPATCH', 'ERRCOND', 'VALUEDE', 'FRAMEDEC'], kani=K_TOTAL3 + K_HDR_QUICK + K_HDR_THOROUGH, level='proof', title='Decoding untrusted bytes (reader layer and typed entry points proved; recursion depth and whole-value decoding bounded)',
        probes=[
            dict(name='nest_list32', target='serde_amqp::from_slice::<Value>', args=['nest', '100000'],
                 claim='decoding 100000 nested list32 headers (a 900 KB input) as Value returns (Ok or Err) instead of exhausting an 8 MiB stack',
                 bound='one input family (list32 in list32 ...), depth 100000, main-thread stack 8 MiB'),
            dict(name='alloc_hostile_lengths', target='serde_amqp::{from_slice,from_reader}::<Value|LazyValue>', args=['alloc', '1048576'],
                 claim='for 35 inputs of <= 18 bytes that declare sizes from 1 MiB to 4 GiB (str32/sym32/vbin32/list32/map32/array32/described) or element COUNTS from 255 to 2^32-2 (list / map / array, also nested as a map key) in front of no data, the largest single allocation while decoding stays <= 1 MiB',
                 bound='35 inputs x 9 entry points (Value, LazyValue from slice and stream; OrderedMap, Vec, Array, BTreeMap, HashMap targets); counting global allocator in the probe binary'),
        ],
        level_text='Under Verus contracts (unbounded): the reader layer every decoder sits on -- serde_amqp/src/read: the Read trait contract checked against SliceReader and IoReader (peek, next, peek_bytes, read_exact, read_bytes, read_const_bytes, fill_buffer, get_byte_slice) and the LazyValue/byte_buf scanners (read_fixed_bytes, peek_encoded_len, read_encoded_len_bytes, read_primitive_bytes_or_else, read_described_bytes, the format-code and category tables): no panic / overflow / out-of-range index for ANY input and ANY declared length, a length beyond the input is an error, every allocation request that takes its size from the wire is bounded by the input still unread plus 64 KiB, the peek buffer of the io reader only ever holds bytes the stream supplied, the scanners do not recurse. BOUNDED stand-in for the decoders proper (de.rs): Kani/CBMC explores every byte string up to the stated length for each listed type on the real serde_amqp crate with overflow checks and unwinding assertions on; those are listed under bounded_obligations and not counted as proved.',
        assumptions=['bounded (Kani): input length <= 3 bytes per decoder harness (all strings); structure-aware corruptions of longer encodings only by the thorough-tier compound-header harnesses',
                     'NOT DECIDED: recursion depth of the serde visitor chain in de.rs / value/de.rs (nested compound values; recursion goes through serde trait dispatch, which no contract here can bound) -- see DESIGN D11b: a 180 KB input of nested list32 headers overflows the stack of the unchanged tree; no-loop-without-consuming inside de.rs',
                     'allocation is modelled at the request sites that take a length from the wire (vec![0u8; n], Vec::resize): their stand-ins carry the bound as a precondition; Vec growth inside read_to_end/push/append is std-amortised and proportional to the bytes appended; String::from_utf8(buf) reuses buf',
                     'the stream behind IoReader is an arbitrary byte source that may fail at any point; fewer than 2^64 bytes pass through a reader']),
    'C19': dict(
        units=['FRAMEDEC', 'SASLNEG', 'SASLMECH', 'HEADERS', 'HDRCODEC', 'FRAMEENC', 'WIRELAYOUT', 'ENUMCODES', 'VISITENUM', 'MECHLIST', 'CONNBUILDER', 'ACCBUILDER'], kani=K_SASL, level='proof', title='SASL (listener loop, PLAIN and SCRAM mechanisms, SCRAM client and client loop under contract; crypto and string library calls uninterpreted)',
        level_text='Under Verus contracts: (1) the listener negotiation loop (acceptor/connection.rs negotiate_sasl_with_framed: an AMQP connection is negotiated only after an outcome with code OK was produced by the mechanism and sent; anything else ends in Err); (2) the listener mechanisms: PLAIN (validate_credential / validate_init / on_init / on_response: OK only for the configured user name and password, byte for byte) and SCRAM (ScramVersion::compute_server_final_message, ScramAuthenticator::compute_server_final_message, on_init, on_response: OK only when H(proof XOR HMAC(StoredKey, AuthMessage)) == StoredKey for the user and the combined nonce of this exchange); (3) the SCRAM client (ScramVersion::{compute_client_final_message, validate_server_final, compute_server_signature, compute_client_proof}, auth_message, without_proof, client_final, ScramClient::{compute_client_final_message, validate_server_final}, SaslProfile::on_frame) and the client negotiation loop Builder::negotiate_sasl: Ok only on an outcome frame with code OK, and for a SCRAM profile only if that outcome carries HMAC(ServerKey(password, salt, i), AuthMessage) over an exchange whose server-first message was received as a challenge and whose nonce extends the client nonce; (4) the SASL frame decoder (any body yields Ok or Err, a non-SASL frame type is refused). HMAC/SHA/PBKDF2/XOR, base64 and the str operations are uninterpreted functions. In addition the PLAIN validator is checked by Kani on the real fe2o3-amqp crate for every initial response up to 7 bytes against an independent oracle -- a BOUNDED stand-in listed under bounded_obligations, not counted as proved.',
        assumptions=[
            'cryptographic primitives (hmac, h, h_i/compute_salted_password, xor), base64 encode/decode, str::{split, strip_prefix, starts_with, parse}, from_utf8, the NUL-split iterator and bytes::BufMut on Vec<u8> are stand-ins with uninterpreted results: the contracts say WHICH values are compared and hashed, not that HMAC is unforgeable',
            'byte-vector comparisons (Vec<u8> == &[u8], &[u8] != &[u8]) are replaced by extensional equality of the byte sequences (Verus gives these PartialEq impls no specification); if such a comparison disappears from a function altogether the function is verified without it (and fails), if it is rewritten in another form the check reports undecided',
            'lengths of strings handled during SASL are below 2^32 (Vec::with_capacity sums); Arc<String> erased to String',
            'the listener loop is under contract with the mechanism as a stand-in, and the mechanisms are under contract separately: the composition (loop says OK => mechanism said OK => credentials valid) is by reading the two contracts together, not one machine-checked theorem',
            'NOT DECIDED: the first SCRAM steps (client_first_message, compute_server_first_message: nonce generation, user lookup) are stand-ins; which mechanism gets selected; SaslProfile::initial_response; the protocol-header CODEC (8 bytes <-> ProtocolHeader) -- the header exchange functions themselves are under contract in unit HEADERS (a peer that skips the SASL layer or sends another header/version is refused before any frame codec exists)',
            'bounded (Kani): PLAIN initial responses of <= 7 bytes with a fixed 2-byte user and password',
            'PLAIN does not check that init.mechanism == PLAIN and ignores fields after the third NUL (observed, not part of the property)']),
    'C06': dict(
        probes=[COMPOSITE_VARIANTS],
        units=['FRAMEENC', 'FRAMEDEC', 'CONNENG', 'TRANSPORT', 'HDRCODEC', 'SASLNEG', 'HEADERS', 'READERS', 'BUILDER', 'WIRELAYOUT', 'SERHDR', 'ENUMCODES', 'SETTERS', 'VISITENUM', 'ATTACHBUILD', 'LINKATTACH', 'CONNBUILDER'], kani=[], level='proof', title='Frames on the wire',
        lemmas={'HDRCODEC': ['lemma_header_round_trip'], 'FRAMEENC': ['lemma_expected_properties', 'lemma_cut_points', 'lemma_mids_payload', 'lemma_mids_sizes', 'lemma_flatten_append', 'lemma_payloads_append']},
        assumptions=[
            'precondition fits(): the transfer performative alone (in each of its three forms) is smaller than the frame body; a larger one is outside the contract (usize underflow / no progress)',
            'enc(t) is the uninterpreted output of the derive-generated serializer; axiom |enc(t[more:=false])| <= |enc(t[more:=true])|',
            'Transport::start_send is under contract in unit TRANSPORT with Pin erased and FramedWrite / FrameEncoder::encode as stand-ins; lemma_cut_points (FRAMEENC) + [C06.transport.cut-points] give cut points == frame boundaries for split transfers',
            'a NON-transfer performative whose encoding exceeds the frame is refused with FramingError since fix 542518b ([C06.transport.non-transfer-whole]); nothing establishes that the engines handle that error gracefully (the connection engine treats it as a transport error)',
            'decoding under arbitrary read fragmentation is tokio_util LengthDelimitedCodec + FramedRead (third party), not verified']),
    'C01': dict(
        units=['FRAMEENC', 'SESSION', 'SENDSPLIT', 'LINK', 'REASM', 'SESSENG', 'CONNENG', 'RESUME', 'BYTEREADER', 'WIRING', 'ACCLINK', 'LINKAPI', 'READERS', 'ACCDELEG', 'TXNDELEG', 'SENDINNER', 'SESSWIRING', 'LINKFLOW', 'CONNWIRING', 'WIRELAYOUT', 'SERHDR', 'RESUMESPLIT', 'ENUMCODES', 'SETTERS', 'VALUEDE', 'LINKBUILDER', 'DELIVERY', 'LINKATTACH', 'DESCDISPATCH', 'TRANSPORT'],
        lemmas={'SENDSPLIT': ['lemma_link_expected', 'lemma_link_mids'], 'FRAMEENC': ['lemma_expected_properties', 'lemma_mids_payload']}, kani=[], level='proof', title='End-to-end delivery (sequential stages only)',
        assumptions=[ASYNC, ENGINE,
            'only the sequential stages are under contract: session hold-back/stamping (SESSION) and frame splitting (FRAMEENC); link-level split, reassembly and the codec round trip are separate units where built',
            'mpsc hand-offs, engine select! loops, credit/window liveness under scheduling, and all configurations x schedules are NOT decided']),
    'C08': dict(
        units=['LINKFLOW', 'SENDSPLIT', 'PRODUCER', 'ACCSESS', 'SESSION', 'WIRING', 'ACCLINK', 'LINK', 'TXNDELEG', 'WIRELAYOUT', 'SETTERS', 'RESUMECORE', 'ATTACHBUILD', 'LINKBUILDER'], kani=[], level='proof', title='Sender link credit',
        lemmas={'LINKFLOW': ['lemma_c08_consume_preserves_limit', 'lemma_c08_flow_establishes_limit']},
        assumptions=[ASYNC,
            'NOT DECIDED: "a send waiting for credit completes however the grant races with the wait" (notified().await vs notify_waiters is a two-task schedule property; no thread model in either verifier)',
            'parking_lot::RwLock erased: each critical section is one atomic step',
            'SenderLink::send_payload is under contract in unit SENDSPLIT with get_delivery_tag_or_detached (the tokio::select! between consume(1) and the detach notification) as a stand-in: one credit per delivery, no transfer without a credit',
            'TryConsume::try_consume (transaction feature) duplicates consume_link_credit and is not under contract']),
    'C09': dict(
        units=['LINKFLOW', 'SESSION', 'LINK', 'LINKATTACH', 'REASM', 'DISPOSER', 'WIRING', 'ACCLINK', 'LINKAPI', 'ACCDELEG', 'TXNDELEG', 'WIRELAYOUT', 'TXNCOORD', 'SETTERS', 'RESUMECORE', 'TXNACQ', 'LINKBUILDER'], kani=[], level='proof', title='Receiver link credit',
        lemmas={'LINKFLOW': ['lemma_c09_threshold_reached_within_credit']},
        assumptions=[ASYNC,
            'parking_lot::RwLock and Arc<AtomicU32> erased: disposal concurrent with recv from another task is not modelled',
            'the overrun error being turned into a detach frame by the link/engine is not verified']),
    'C12': dict(
        probes=[COMPOSITE_VARIANTS],
        units=['CONN', 'CONNENG', 'HEADERS', 'HDRCODEC', 'HANDLES', 'LCONNDELEG', 'SESSWIRING', 'CONNWIRING', 'WIRELAYOUT', 'ERRCOND', 'DESCDISPATCH'],
        lemmas={'CONNENG': ['lemma_extc_trans']}, kani=[], level='proof', title='Connection lifecycle',
        assumptions=[ASYNC,
            'that the connection engine event loop (select!) drives only these transition functions, and calls send_open/send_close once each, is not verified',
            'send_open / send_close put the frame on the wire before checking the state (an illegal-state call still emits a frame): "at most once" therefore rests on the engine calling them only in the states listed in the contract',
            'header-before-open (transport protocol-header exchange), a peer close always being answered, handle results, EOF handling and flushing of queued frames are liveness/glue and are NOT decided',
            'ConnectionEngine::{on_incoming,on_outgoing_session_frames,on_heartbeat,forward_to_session} are under contract (unit CONNENG) against a stand-in connection endpoint carrying the CONN contracts; close_connection / wait_for_remote_close / on_control / on_error / event_loop (select!) are not']),
    'C17': dict(
        units=['CONN', 'CONNENG', 'FRAMEDEC', 'BUILDER', 'TRANSPORT', 'TIMERS', 'LCONNDELEG', 'WIRELAYOUT', 'ENUMCODES', 'SETTERS', 'CONNBUILDER'], kani=[], level='proof', title='Negotiated limits (channel-max; idle time-out bookkeeping)',
        assumptions=[
            'DECIDED: channel-max; the VALUES the timers are armed with (heartbeat period from the peer\'s idle-time-out, 0/unset => none; local deadline = configured idle-time-out, advertised value = half of it); one empty frame per heartbeat tick; none after the local Close. the local idle timer is restarted by every incoming item and by nothing the local side sends, and an elapsed timer is reported as IdleTimeoutElapsed (Transport::poll_next / start_send, unit TRANSPORT; the timer is a stand-in with a restart counter and an elapsed flag). NOT DECIDED: the timed behaviour itself (tokio Interval/Sleep): no clock in either verifier',
            'slab::Slab modelled as a partial map whose vacant key is unoccupied']),
    'C10': dict(
        probes=[dict(name='sections_agreement', kind='agreement', target='fe2o3_amqp::link::receiver_link::count_number_of_sections_and_offset', args=['C10.sections'], claim='count_number_of_sections_and_offset (under contract in unit REASM since session 6, with the iterator chain written as an index loop: this probe cross-checks that rewriting against the REAL function) stays within the bounds number <= len, offset <= len and, for smallulong descriptors, counts exactly the 00 53 7x headers and the distance of the last one from the end', bound='every byte string of <= 7 bytes over {00,53,70,75,78,80,01} (960 800 strings), real function through the verif-hooks facade')],
        units=['REASM', 'LINK', 'BYTEREADER', 'READERS', 'SESSION', 'WIRING', 'ACCLINK', 'LINKFLOW', 'WIRELAYOUT'], kani=[], level='proof', title='Reassembly',
        lemmas={'REASM': ['lemma_concat_push', 'lemma_concat_one'], 'BYTEREADER': ['lemma_after_take', 'lemma_flat_drained']},
        assumptions=[ASYNC,
            'a multi-frame delivery buffers fewer than 2^32 bytes (otherwise the u32 section counter of IncompleteTransfer::append could overflow)',
            'the chained-buffer byte reader behind multi-frame decoding (util::ByteReader<Payload> as io::Read) is under contract in unit BYTEREADER: a read yields the concatenation of the frames\' payloads wherever they were cut; count_number_of_sections_and_offset and is_section_header are under contract in unit REASM (the three zipped byte iterators written as the index loop they perform, R34): the count is the number of section headers in the frame\'s payload, the offset the distance from the last of them to the end',
            'in unit REASM the link endpoint is a ghost-trace stand-in (on_complete_transfer decodes exactly the bytes it is given; on_transfer_state / on_incomplete_transfer are logged); the real ReceiverLink::on_complete_transfer / on_transfer_state / on_incomplete_transfer are under contract in unit LINK (unsettled-map bookkeeping, credit), with the message decoder behind them a stand-in',
            'resumption: ReceiverInner::on_resuming_transfer is under contract in unit REASM (a resuming transfer for another delivery is not spliced with the buffered one); trimming the buffer to the sender\'s resume point (keep_buffer_till_section_number_and_offset) is an assumed contract (it only trims)',
            'interleaving with other links of the session is the routing contract of unit SESSION (C11.route.transfer)']),
    'C18': dict(
        units=['TXN', 'TXNCTRL', 'TXNCOORD', 'SENDSPLIT', 'FRAMEENC', 'SESSWIRING', 'ACCSESS', 'TXNDROP', 'DESCDISPATCH', 'WIRELAYOUT', 'VISITENUM', 'TXNACQ', 'LINKBUILDER'], kani=[], level='proof', title='Transactions: listener-side resource table, controller-side wire content',
        assumptions=[ASYNC,
            'the wrapped plain session is a stand-in with a ghost `delivered` log; built as with features transaction+acceptor',
            'allocate_transaction_id: partial correctness only (the uuid retry loop has no termination argument)',
            'commit_transaction that fails midway (inner session error) has already handed on a prefix of the posts: the contract only covers r is Ok',
            'controller side (unit TXNCTRL): declare_on_link, discharge_on_link, send_on_control_link, Transaction::discharge, OwnedTransaction::discharge, post_inner, TransactionRetirement::retire, DeliveryState::{accepted_or_else, declared_or_else} are under contract with the control link / sender / receiver as ghost-trace stand-ins and the Mutex around the control link erased; post_ref_inner and acquisition are not; the rollback-on-drop path is under contract in unit TXNDROP (rollback_on_drop, OwnedTransaction::drop; Transaction::drop uses `break` with a value and is not)',
            'the coordinator (unit TXNCOORD): on_declare, on_discharge, reject, handle_delivery_result under contract with the session requests and the receiver link as ghost-trace stand-ins', 'NOT DECIDED: the coordinator event loop (select!), abort of the remaining ids on Drop / when the controlling link goes away, several concurrent control links, freshness of a transaction id over the whole history (only among live ids)']),
    'C11': dict(
        units=['SESSION', 'FRAMEENC', 'CONN', 'SENDSPLIT', 'CONNENG', 'ACCSESS', 'LINKATTACH', 'LINK', 'WIRING', 'ACCLINK', 'ACCDELEG', 'TXNDELEG', 'LCONNDELEG', 'SESSWIRING', 'SESSENG', 'TXN', 'CONNWIRING', 'CONVERSIONS', 'WIRELAYOUT', 'ENUMCODES', 'SETTERS', 'LINKRESUME', 'TXNDROP', 'RESUMECORE', 'ATTACHBUILD'],
        lemmas={'SENDSPLIT': ['lemma_link_expected'], 'FRAMEENC': ['lemma_expected_properties']}, kani=[], level='proof', title='Identifiers',
        assumptions=[ASYNC, ENGINE,
            'fewer than 2^32 link handles are live in one session (handle = slab key as u32)',
            'slab::Slab is modelled as a partial map whose vacant key is unoccupied (trusted stand-in)',
            'concurrent attaches are serialised by the session engine (not verified)']),
    'C13': dict(
        units=['SESSION', 'LINK', 'SESSENG', 'LINKDETACH', 'SENDSPLIT', 'RECVLOOP', 'LINKATTACH', 'LINKFLOW', 'ACCSESS', 'HANDLES', 'WIRING', 'ACCLINK', 'LINKAPI', 'CONN', 'ACCDELEG', 'TXNDELEG', 'LCONNDELEG', 'SESSWIRING', 'CONNWIRING', 'CONVERSIONS', 'WIRELAYOUT', 'ERRCOND', 'LINKEXCH', 'SETTERS', 'LINKRESUME', 'RESUMECORE', 'TXNCOORD', 'TXNCTRL', 'ATTACHBUILD', 'TERMINUS'],
        lemmas={'SESSENG': ['lemma_ext_trans']}, kani=[], level='proof', title='Session and link lifecycles',
        assumptions=[ASYNC, ENGINE,
            '"returns only after the peer\'s answer" is decided as a safety clause (detach / close / end_session / wait_for_remote_end return Ok only once the peer\'s detach / End has been taken from the incoming channel; units LINKDETACH, SESSENG); "answered no later than the next operation" and "within bounded time" are liveness statements and are not decided',
            'Drop impls racing with the engine are not decided']),
    'C14': dict(
        units=['CONNENG', 'SESSENG', 'LINK', 'LINKFLOW', 'SENDSPLIT', 'RECVLOOP', 'DISPOSER', 'HANDLES', 'DELIVFUT', 'WIRING', 'ACCLINK', 'CONN', 'ACCDELEG', 'TXNDELEG', 'LCONNDELEG', 'SESSWIRING', 'LINKAPI', 'SESSION', 'CONNWIRING', 'ERRCONV', 'WIRELAYOUT', 'ERRCOND', 'LINKEXCH', 'SENDINNER', 'LINKRESUME', 'LINKDETACH', 'TXNCTRL'], kani=[], level='proof',
        title='Failure propagation (the safety half: WHICH error a stopped handle reports; stop reason published before the channels close)',
        assumptions=[
            'DECIDED (necessary conditions, per function): (a) the event loops of the connection and session engines publish the stop reason BEFORE they close the channels through which handles, sessions and links learn of the stop (an order obligation at the close calls), and that reason is the peer\'s Close / End error, the peer\'s plain close / end, or the connection\'s fate, as derived from the loop\'s outcome (tails of ConnectionEngine::event_loop and SessionEngine::event_loop, rule R32); (b) the result handed to the ConnectionHandle / SessionHandle is the peer\'s error when the peer supplied one; (c) every link operation under contract that finds the channel to its session closed (send_transfer, send_flow, dispose, dispose_consecutive, send_detach, recv_inner) fails with SessionStopped(reason read from the published cell) -- at once, without waiting -- and with IllegalState only when no reason was recorded',
            'ALSO DECIDED since session 6: (d) which cells and queues are SHARED (identity model R8b, units WIRING / SESSWIRING / CONNWIRING / DISPOSER): the stop-reason cell a handle, a session or a link reads is the cell the engine it belongs to publishes into, and the queues a handle writes are the ones its engine reads; (e) two safety-shaped causes of hangs: when the session engine stops (SESSENG [C14.session-stop.pending-sends-released]) and when the peer detaches the link (LINK [C14.link-detach.pending-sends-released]) every send that still waits for its outcome is released (defects D81 / D82, repaired); (f) DeliveryFut::poll (unit DELIVFUT) and the public Sender / Receiver / handle wrappers (units LINKAPI, HANDLES) are under contract',
            'NOT DECIDED (the headline of C14): that no call hangs and that every operation completes within bounded time IN GENERAL; that all engine tasks terminate; behaviour at transport cut points (every byte offset x every pending operation x schedules of the four tokio tasks); that a oneshot / mpsc receiver really observes the closure (tokio); that a send released by a link detach carries the peer\'s error itself (it reports IllegalState, the peer\'s error comes with the next operation)',
            ASYNC, ENGINE]),
    'C16': dict(
        units=['REASM', 'SENDSPLIT', 'LINK', 'LINKFLOW', 'TXNCTRL'], kani=[], level='proof', title='Cancel safety (custody obligations at the cancellation points of recv and send)',
        assumptions=[
            'DECIDED (necessary conditions, stated at the await points of the functions under contract): (recv) payload octets taken from the link channel for a delivery not yet returned are held by the receiver itself -- its reassembly buffer -- whenever the recv future can be dropped: partial deliveries are parked in ReceiverInner::incomplete_transfer (on_incomplete_transfer), and no cancellation point may be reached while a completed delivery is owned by locals only; (send) no cancellation point between consuming a link credit and queueing the first frame, nor between two frames of one delivery',
            'a cancellation point is an `.await` on a bounded-channel send (tokio mpsc; it also returns Pending when the task\'s cooperative budget is used up): the awaited calls are stand-ins carrying the obligation as a precondition, placed where the source awaits (send_transfer(..).await, self.dispose(..).await, the call of send_payload_with_transfer); that each single tokio operation (mpsc send / recv, Notify) is itself cancel safe is taken from the tokio documentation',
            'NOT DECIDED: what a dropped future does inside library futures; the Detach arm of recv_inner and Sender::send\'s wait for the outcome; starvation dynamics under repeated cancellation beyond the per-call credit leak; duplicates (none possible in the functions under contract: a frame leaves the channel once)',
            ASYNC]),
    'C15': dict(
        units=['SESSION', 'CONN', 'FRAMEDEC', 'LINK', 'CONNENG', 'TRANSPORT', 'SEQACCESS', 'ACCSESS', 'LINKATTACH', 'FRAMEENC', 'SASLMECH', 'SESSENG', 'READERS', 'TIMERS', 'TXN', 'BYTEREADER', 'REASM', 'RESUMESPLIT', 'SETTERS', 'TXNCOORD', 'ATTACHBUILD', 'LINKEXCH', 'TERMINUS'], kani=[], level='proof', title='Misbehaving peer',
        assumptions=[ASYNC, ENGINE,
            'never-blocks-forever and isolation between connections are not decided',
            'handlers of peer input carry no precondition on the peer-controlled arguments']),
    'C07': dict(
        units=['SESSION', 'SESSENG', 'ACCSESS', 'TXN', 'ACCDELEG', 'TXNDELEG', 'SESSWIRING', 'WIRELAYOUT', 'SETTERS'], kani=[], level='proof',
        title='Session flow control',
        assumptions=[
            'the session engine calls these functions in the order frames arrive/are queued (select! loop not verified)',
            'async fn bodies verified with .await erased (R3): exclusive &mut self access across suspension points',
            'LinkRelay is a ghost-log stand-in in this unit; its real methods are under contract in unit LINKRELAY',
            'liveness under the tokio scheduler is not decided',
        ]),
}

V_TEXT = 'Every listed clause is a machine-checked contract (ensures / loop invariant / lemma) on the function as extracted from /repo on this run; Verus discharges all obligations for all inputs and iterations with no bound. '
for _p, _c in PROPS.items():
    _c.setdefault('level_text', V_TEXT + 'Partial: only the sequential cores named in the evidence are under contract; see assumptions.')
    _t = 'contract-based deductive verification: Verus on functions extracted mechanically from /repo on every run'
    if _c.get('kani'):
        _t += '; Kani/CBMC harnesses on the real crates (complete where loop-free over the full domain, otherwise bounded stand-ins)'
    if _c.get('probes'):
        _t += '; bounded dynamic runs of the real functions (probe / agreement with the oracle of an assumed contract) as stated-bound stand-ins, never counted as proved'
    _c.setdefault('technique', _t)
    _c.setdefault('level_note', 'Trusted: Verus/Z3, the extractor and its logged rewrite rules, prelude stand-ins for std/third-party containers and leaf types (listed in evidence.coverage.trusted_base); machine integers are machine integers; scheduling/async interleavings are outside the proof.')

NOT_APPLICABLE = {
}
HOOK_COMMITS = ['50c72688828bb1ba5a3731d0192bb151612b610c', 'bf327aa51af9b76a87183aedae6f2a001cbfe489', '51493c7968daf9e3e5d2f7edfd0ffd63d8233deb']
