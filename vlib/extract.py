"""Mechanical extraction of functions / type definitions from /repo sources.

Nothing here understands semantics: it finds items by header text, copies their
token stream, and applies the logged rewrite rules (DESIGN.md section 2).
A missing anchor raises LostAnchor (=> exit 2, never an alarm).
"""
import hashlib
import os
import re

from .rustlex import lex, Tok, match_close, text, norm, LexError, OPEN, CLOSE


class LostAnchor(Exception):
    pass


_cache = {}


def load(repo, rel):
    p = os.path.join(repo, rel)
    try:
        st = os.stat(p)
    except OSError:
        raise LostAnchor('file missing: %s' % rel)
    key = (p, st.st_mtime_ns, st.st_size)
    if key not in _cache:
        with open(p, encoding='utf-8') as f:
            src = f.read()
        try:
            _cache[key] = (src, lex(src))
        except LexError as e:
            raise LostAnchor('cannot lex %s: %s' % (rel, e))
    return _cache[key]


def sigidx(toks, lo=0, hi=None):
    hi = len(toks) if hi is None else hi
    return [k for k in range(lo, hi) if toks[k].kind not in ('ws', 'comment')]


def find_impl(toks, header):
    """Return (open_brace_idx, close_brace_idx) of the impl block whose header
    (text between `impl` and `{`, whitespace-insensitive) equals `header`."""
    sub = header.startswith('~')
    want = norm(header[1:] if sub else header)
    hits = []
    s = sigidx(toks)
    for a, k in enumerate(s):
        t = toks[k]
        if t.kind == 'ident' and t.text in ('impl', 'trait'):
            # header runs to first '{' at angle/paren depth 0
            acc = []
            b = a
            while b < len(s) and not (toks[s[b]].kind == 'punct' and toks[s[b]].text == '{'):
                acc.append(toks[s[b]].text)
                b += 1
                if len(acc) > 400:
                    break
            if b < len(s) and (''.join(acc) == want or (sub and want in ''.join(acc))):
                ob = s[b]
                hits.append((ob, match_close(toks, ob)))
    if not hits:
        raise LostAnchor('impl header %r not found' % (header,))
    return hits


def find_fn(toks, name, lo=0, hi=None):
    """Find `fn name` between token indices lo..hi. Returns dict with indices:
    start (first token of the item incl. attributes), fn (the `fn` token),
    body_open, body_close."""
    hi = len(toks) if hi is None else hi
    s = sigidx(toks, lo, hi)
    hits = []
    for a in range(len(s) - 1):
        if toks[s[a]].kind == 'ident' and toks[s[a]].text == 'fn' and \
                toks[s[a + 1]].kind == 'ident' and toks[s[a + 1]].text == name:
            hits.append(a)
    if len(hits) > 1:
        # several functions of this name in the range (a free function and a method): the one at the outermost brace level of the range, if it is unique
        depth_at = {}
        d = 0
        for k in range(lo, hi):
            t = toks[k]
            if t.kind == 'punct' and t.text == '{':
                d += 1
            elif t.kind == 'punct' and t.text == '}':
                d -= 1
            depth_at[k] = d
        top = [a for a in hits if depth_at.get(s[a], 1) == 0]
        if len(top) == 1:
            hits = top
    if len(hits) > 1:
        # R12: variants of one function under `cfg_transaction!{}` / `cfg_not_transaction!{}` (cfg_acceptor, cfg_wasm32 ...): the units are generated for
        # transaction + acceptor on a non-wasm target, so the variants inside a wrapper that is off for that build are not candidates
        OFF = ('cfg_not_transaction', 'cfg_not_acceptor', 'cfg_wasm32')
        off_ranges = []
        for k in range(lo, hi - 2):
            if toks[k].kind == 'ident' and toks[k].text in OFF:
                k1 = _next_sig(toks, k)
                k2 = _next_sig(toks, k1) if k1 < hi else hi
                if k1 < hi and k2 < hi and toks[k1].text == '!' and toks[k2].text == '{':
                    off_ranges.append((k2, match_close(toks, k2)))
        live = [a for a in hits if not any(o <= s[a] <= c for (o, c) in off_ranges)]
        if len(live) == 1:
            hits = live
    if len(hits) != 1:
        raise LostAnchor('fn %s found %d times' % (name, len(hits)))
    a = hits[0]
    # body open: first '{' after fn at paren depth 0 ; a ';' first means no body
    depth = 0
    b = a
    body_open = None
    while b < len(s):
        t = toks[s[b]]
        if t.kind == 'punct':
            if t.text in '([':
                depth += 1
            elif t.text in ')]':
                depth -= 1
            elif t.text == '{' and depth == 0:
                body_open = s[b]
                break
            elif t.text == ';' and depth == 0:
                break
        b += 1
    if body_open is None:
        raise LostAnchor('fn %s has no body' % name)
    body_close = match_close(toks, body_open)
    # walk backwards over qualifiers and attributes
    start_a = a
    while start_a > 0:
        p = toks[s[start_a - 1]]
        if p.kind == 'ident' and p.text in ('async', 'pub', 'const', 'unsafe', 'crate', 'super', 'in'):
            start_a -= 1
            continue
        if p.kind == 'punct' and p.text == ')':
            # pub(crate)
            q = start_a - 1
            while q > 0 and not (toks[s[q]].kind == 'punct' and toks[s[q]].text == '('):
                q -= 1
            if q > 0 and toks[s[q - 1]].kind == 'ident' and toks[s[q - 1]].text == 'pub':
                start_a = q - 1
                continue
            break
        if p.kind == 'punct' and p.text == ']':
            # attribute #[...]
            q = start_a - 1
            d = 0
            while q >= 0:
                tt = toks[s[q]]
                if tt.kind == 'punct' and tt.text == ']':
                    d += 1
                elif tt.kind == 'punct' and tt.text == '[':
                    d -= 1
                    if d == 0:
                        break
                q -= 1
            if q > 0 and toks[s[q - 1]].kind == 'punct' and toks[s[q - 1]].text == '#':
                start_a = q - 1
                continue
            break
        break
    return dict(start=s[start_a], fn=s[a], name=s[a + 1], body_open=body_open, body_close=body_close)


def find_typedef(toks, kind, name):
    """Find `struct Name` / `enum Name` at any depth; returns (start, end) token indices
    (end inclusive: closing brace or semicolon), plus index of the kind token."""
    s = sigidx(toks)
    hits = []
    for a in range(len(s) - 1):
        if toks[s[a]].kind == 'ident' and toks[s[a]].text == kind and \
                toks[s[a + 1]].kind == 'ident' and toks[s[a + 1]].text == name:
            hits.append(a)
    if len(hits) > 1:
        # prefer definitions outside `mod tests { .. }` : keep hits at brace depth 0
        def depth_at(idx):
            d = 0
            for t in toks[:idx]:
                if t.kind == 'punct':
                    if t.text == '{':
                        d += 1
                    elif t.text == '}':
                        d -= 1
            return d
        top = [h for h in hits if depth_at(s[h]) == 0]
        if len(top) == 1:
            hits = top
    if len(hits) != 1:
        raise LostAnchor('%s %s found %d times' % (kind, name, len(hits)))
    a = hits[0]
    b = a + 2
    while b < len(s):
        t = toks[s[b]]
        if t.kind == 'punct' and t.text == '{':
            end = match_close(toks, s[b])
            return s[a], end, s[b]
        if t.kind == 'punct' and t.text == '(':
            e = match_close(toks, s[b])
            # tuple struct: ends at following ';'
            j = e + 1
            while toks[j].kind in ('ws', 'comment'):
                j += 1
            return s[a], j, s[b]
        if t.kind == 'punct' and t.text == ';':
            return s[a], s[b], None
        b += 1
    raise LostAnchor('%s %s: no body' % (kind, name))


def sha(toks):
    """hash of the significant token stream (comment/whitespace insensitive)"""
    h = hashlib.sha256()
    for t in toks:
        if t.kind in ('ws', 'comment'):
            continue
        h.update(t.text.encode())
        h.update(b'\0')
    return h.hexdigest()[:16]


# ----------------------------------------------------------------------------------------
# token-level rewrites

def strip_comments(toks):
    out = []
    for t in toks:
        if t.kind == 'comment':
            # keep line structure
            out.append(Tok('ws', '\n' * t.text.count('\n'), t.pos, t.line))
        else:
            out.append(t)
    return out


def _is(t, kind, txt):
    return t.kind == kind and t.text == txt


def _next_sig(toks, k):
    k += 1
    while k < len(toks) and toks[k].kind in ('ws', 'comment'):
        k += 1
    return k


def _prev_sig(toks, k):
    k -= 1
    while k >= 0 and toks[k].kind in ('ws', 'comment'):
        k -= 1
    return k


def attr_end(toks, k):
    """toks[k] is '#'; returns index of closing ']' of the attribute"""
    j = _next_sig(toks, k)
    if _is(toks[j], 'punct', '!'):
        j = _next_sig(toks, j)
    if not _is(toks[j], 'punct', '['):
        return None
    return match_close(toks, j)


def stmt_end(toks, k):
    """Index of the last token of the statement/expression starting at toks[k]:
    runs to ';' at depth 0, or to the end of a trailing block if the statement is a block
    expression (if/match/loop/{...}) not followed by ';'. Stops before an unmatched closer."""
    depth = 0
    j = k
    first = toks[k]
    while j < len(toks):
        t = toks[j]
        if t.kind == 'punct':
            if t.text in OPEN:
                e = match_close(toks, j)
                if t.text == '{' and depth == 0:
                    # block at statement level: statement may end here
                    n = _next_sig(toks, e)
                    if n < len(toks) and (_is(toks[n], 'ident', 'else')):
                        j = n
                        continue
                    if n < len(toks) and toks[n].kind == 'punct' and toks[n].text in (';',):
                        return n
                    if n < len(toks) and toks[n].kind == 'punct' and toks[n].text in ('.', '?'):
                        j = e + 1
                        continue
                    return e
                j = e + 1
                continue
            if t.text in CLOSE:
                return _prev_sig(toks, j)
            if t.text == ';':
                return j
            if t.text == ',' and depth == 0:
                # match arm expression
                return j
        j += 1
    return len(toks) - 1


CFG_DROP = ('tracing', 'log')
CFG_ON = ('transaction', 'acceptor')


def eval_cfg(pred):
    """value of a cfg predicate (normalised text, no blanks) built from feature="x", all(..), any(..), not(..) over CFG_ON / CFG_DROP; None if it mentions anything else"""
    pos = [0]

    def parse():
        rest = pred[pos[0]:]
        m = re.match(r'feature="([a-z0-9_-]+)"', rest)
        if m:
            pos[0] += m.end()
            f = m.group(1)
            if f in CFG_ON:
                return True
            if f in CFG_DROP:
                return False
            raise ValueError(f)
        for kw in ('all', 'any', 'not'):
            if rest.startswith(kw + '('):
                pos[0] += len(kw) + 1
                vals = []
                while pred[pos[0]] != ')':
                    vals.append(parse())
                    if pred[pos[0]] == ',':
                        pos[0] += 1
                pos[0] += 1
                if kw == 'all':
                    return all(vals)
                if kw == 'any':
                    return any(vals)
                if len(vals) != 1:
                    raise ValueError('not')
                return not vals[0]
        raise ValueError(rest[:20])
    try:
        v = parse()
        if pos[0] != len(pred):
            return None
        return v
    except (ValueError, IndexError):
        return None


def drop_cfg_features(toks, log, features=CFG_DROP):
    """R1: drop `#[cfg(feature = "tracing")] <stmt>` and `#[cfg_attr(feature = "tracing", ...)]`."""
    out = []
    k = 0
    n = len(toks)
    while k < n:
        t = toks[k]
        if _is(t, 'punct', '#'):
            e = attr_end(toks, k)
            if e is not None:
                a = norm(text(toks[k:e + 1]))
                m = re.match(r'#\[cfg\(feature="([a-z_-]+)"\)\]$', a)
                if m and m.group(1) in features:
                    # drop attribute and the statement that follows
                    s = _next_sig(toks, e)
                    se = stmt_end(toks, s)
                    dropped = toks[k:se + 1]
                    log.append(('R1', 'drop cfg(feature=%s) statement' % m.group(1), t.line))
                    out.append(Tok('ws', '\n' * text(dropped).count('\n'), t.pos, t.line))
                    k = se + 1
                    continue
                m = re.match(r'#\[cfg\(any\(((?:feature="[a-z_-]+",?)+)\)\)\]$', a)
                if m and all(f in features for f in re.findall(r'feature="([a-z_-]+)"', m.group(1))):
                    # `#[cfg(any(feature = "log", feature = "tracing"))] <stmt>`: every alternative is a dropped feature
                    s = _next_sig(toks, e)
                    se = stmt_end(toks, s)
                    dropped = toks[k:se + 1]
                    log.append(('R1', 'drop cfg(any(%s)) statement' % m.group(1), t.line))
                    out.append(Tok('ws', '\n' * text(dropped).count('\n'), t.pos, t.line))
                    k = se + 1
                    continue
                m = re.match(r'#\[cfg_attr\(feature="([a-z_-]+)",', a)
                if m and m.group(1) in features:
                    log.append(('R1', 'drop cfg_attr(feature=%s)' % m.group(1), t.line))
                    k = e + 1
                    continue
                m = re.match(r'#\[cfg\((.*)\)\]$', a)
                if m:
                    # R12b: a statement-level cfg predicate over the features the units are generated with (transaction, acceptor on; tracing, log off) is
                    # evaluated: a false one drops the statement, a true one only the attribute; a predicate that mentions anything else is left alone
                    val = eval_cfg(m.group(1))
                    if val is not None:
                        if val:
                            log.append(('R12', 'cfg(%s) holds for the unit\'s features: attribute dropped, statement kept' % m.group(1)[:60], t.line))
                            k = e + 1
                        else:
                            s_ = _next_sig(toks, e)
                            se = stmt_end(toks, s_)
                            dropped = toks[k:se + 1]
                            log.append(('R12', 'cfg(%s) does not hold for the unit\'s features: statement dropped' % m.group(1)[:60], t.line))
                            out.append(Tok('ws', '\n' * text(dropped).count('\n'), t.pos, t.line))
                            k = se + 1
                        continue
        out.append(t)
        k += 1
    return out


def drop_attrs(toks, log, keep=()):
    """R6: drop remaining outer attributes (#[inline], #[derive], #[allow], doc attrs ...)"""
    out = []
    k = 0
    while k < len(toks):
        t = toks[k]
        if _is(t, 'punct', '#'):
            e = attr_end(toks, k)
            if e is not None:
                a = norm(text(toks[k:e + 1]))
                if not any(a.startswith(x) for x in keep):
                    log.append(('R6', 'drop attribute %s' % a[:60], t.line))
                    k = e + 1
                    continue
        out.append(t)
        k += 1
    return out


def erase_async(toks, log, awaitcall=False):
    """R3: `async fn` -> `fn`, `.await` erased (awaitcall: R3b, `.await` -> `.await_s()`, a stand-in method of the awaited future type)."""
    out = []
    k = 0
    while k < len(toks):
        t = toks[k]
        if _is(t, 'ident', 'async'):
            n = _next_sig(toks, k)
            if n < len(toks) and _is(toks[n], 'ident', 'fn'):
                log.append(('R3', 'async fn -> fn', t.line))
                k = n
                continue
        if _is(t, 'punct', '.'):
            n = _next_sig(toks, k)
            if n < len(toks) and _is(toks[n], 'ident', 'await') and awaitcall:
                log.append(('R3b', '.await -> .await_s()', t.line))
                out.extend(lex('.await_s()'))
                k = n + 1
                continue
            if n < len(toks) and _is(toks[n], 'ident', 'await'):
                log.append(('R3', '.await erased', t.line))
                # also drop whitespace before the dot if the dot starts a line
                while out and out[-1].kind == 'ws' and '\n' not in out[-1].text:
                    out.pop()
                k = n + 1
                continue
        out.append(t)
        k += 1
    return out


def desugar_impl_future(toks, log):
    """R3c: `fn f(..) -> impl Future<Output = T> [+ Send] [where ..] { [stmts] async move { BODY } }` is an `async fn f(..) -> T { [stmts] BODY }` written out
    (the form a trait method with a default body has to take): the return type becomes T and the `async move` block a plain block; `.await` is erased by R3."""
    toks = list(toks)
    k = 0
    changed = False
    while k < len(toks):
        t = toks[k]
        if _is(t, 'ident', 'impl'):
            n1 = _next_sig(toks, k)
            n2 = _next_sig(toks, n1) if n1 is not None else None
            if n1 is not None and n2 is not None and _is(toks[n1], 'ident', 'Future') and _is(toks[n2], 'punct', '<'):
                # find `Output =` and the matching `>`
                d = 0
                q = n2
                eq = None
                end = None
                while q < len(toks):
                    u = toks[q]
                    if u.kind == 'punct' and u.text == '<':
                        d += 1
                    elif u.kind == 'punct' and u.text == '>' and not (toks[q - 1].kind == 'punct' and toks[q - 1].text == '-'):
                        d -= 1
                        if d == 0:
                            end = q
                            break
                    elif u.kind == 'punct' and u.text == '=' and d == 1 and eq is None:
                        eq = q
                    q += 1
                if eq is not None and end is not None:
                    inner = toks[eq + 1:end]
                    # optional `+ Send` / `+ 'a` bounds after the `>`
                    e2 = end
                    while True:
                        p1 = _next_sig(toks, e2)
                        if p1 is not None and _is(toks[p1], 'punct', '+'):
                            p2 = _next_sig(toks, p1)
                            e2 = p2
                            if p2 is not None and toks[p2].kind == 'punct' and toks[p2].text == "'":
                                e2 = _next_sig(toks, p2)
                            continue
                        break
                    log.append(('R3c', '`-> impl Future<Output = T>` with an `async move` body written as the async fn it is', t.line))
                    toks = toks[:k] + inner + toks[e2 + 1:]
                    changed = True
                    continue
        if changed and _is(t, 'ident', 'async'):
            n1 = _next_sig(toks, k)
            if n1 is not None and _is(toks[n1], 'ident', 'move'):
                n2 = _next_sig(toks, n1)
                if n2 is not None and _is(toks[n2], 'punct', '{'):
                    toks = toks[:k] + toks[n2:]
                    continue
            elif n1 is not None and _is(toks[n1], 'punct', '{'):
                toks = toks[:k] + toks[n1:]
                continue
        k += 1
    return toks


def drop_vis(toks, log):
    """R6: drop `pub`, `pub(crate)`, `pub(super)`"""
    out = []
    k = 0
    while k < len(toks):
        t = toks[k]
        if _is(t, 'ident', 'pub'):
            n = _next_sig(toks, k)
            if n < len(toks) and _is(toks[n], 'punct', '('):
                e = match_close(toks, n)
                inner = norm(text(toks[n + 1:e]))
                if inner in ('crate', 'super', 'self') or inner.startswith('in'):
                    k = _next_sig(toks, e)
                    continue
            k = n
            continue
        out.append(t)
        k += 1
    return out


def closure_underscore(toks, log):
    """R5: `|_|` -> `|_v0|`"""
    out = list(toks)
    s = [k for k in range(len(out)) if out[k].kind not in ('ws', 'comment')]
    cnt = 0
    for a in range(len(s) - 2):
        if _is(out[s[a]], 'punct', '|') and _is(out[s[a + 1]], 'ident', '_') and _is(out[s[a + 2]], 'punct', '|'):
            t = out[s[a + 1]]
            out[s[a + 1]] = Tok('ident', '_v%d' % cnt, t.pos, t.line)
            log.append(('R5', '|_| -> |_v%d|' % cnt, t.line))
            cnt += 1
    return out


def subst_tokens(toks, pat, rep, log, rule='S'):
    """Replace every occurrence of the token sequence `pat` (text) by `rep` (text).
    Matching ignores whitespace/comments between tokens. A pattern token `__E1` .. `__E9` is a metavariable: it matches the
    (non-empty) balanced token sequence up to the next pattern token at nesting depth 0, and `rep` may mention it."""
    ptoks = [t.text for t in lex(pat) if t.kind not in ('ws', 'comment')]
    if not ptoks:
        return toks, 0
    meta = re.compile(r'^__E[1-9]$')
    if meta.match(ptoks[0]) or meta.match(ptoks[-1]):
        raise LostAnchor('subst pattern `%s`: a metavariable cannot be the first or last token' % pat)
    out = []
    k = 0
    count = 0
    n = len(toks)
    while k < n:
        t = toks[k]
        if t.kind not in ('ws', 'comment') and t.text == ptoks[0]:
            j = k
            ok = True
            last = k
            binds = {}
            pi = 0
            while pi < len(ptoks):
                pt = ptoks[pi]
                if pi > 0:
                    j = _next_sig(toks, j)
                if j >= n:
                    ok = False
                    break
                if meta.match(pt):
                    stop = ptoks[pi + 1]
                    # the run of fixed pattern tokens that follows the metavariable: a candidate end is taken only if the WHOLE run matches there
                    # (`payload.slice(__E1..)` binds `i.saturating_add(offset)`, not `i`)
                    run = []
                    for pt2 in ptoks[pi + 1:]:
                        if meta.match(pt2):
                            break
                        run.append(pt2)

                    def _run_matches(at):
                        q_ = at
                        for n_, rt in enumerate(run):
                            if n_ > 0:
                                q_ = _next_sig(toks, q_)
                            if q_ is None or q_ >= n or toks[q_].text != rt:
                                return False
                        return True
                    depth = 0
                    start = j
                    e = j
                    found = False
                    while e < n:
                        te = toks[e]
                        if te.kind not in ('ws', 'comment'):
                            if depth == 0 and te.text == stop and e > start and _run_matches(e):
                                found = True
                                break
                            if te.text in OPEN:
                                depth += 1
                            elif te.text in CLOSE:
                                depth -= 1
                                if depth < 0:
                                    break
                        e += 1
                    if not found:
                        ok = False
                        break
                    binds[pt] = text(toks[start:e]).strip()
                    # position j on the last token of the bound sequence so that the next step lands on `stop`
                    q = e - 1
                    while q > start and toks[q].kind in ('ws', 'comment'):
                        q -= 1
                    j = q
                    last = j
                    pi += 1
                    continue
                if toks[j].text != pt or toks[j].kind in ('ws', 'comment'):
                    ok = False
                    break
                last = j
                pi += 1
            if ok:
                # identifier boundary safety: token-level so `foo` never matches `foobar`
                nl = text(toks[k:last + 1]).count('\n')
                r2 = rep
                for mv, val in binds.items():
                    r2 = r2.replace(mv, val)
                out.append(Tok('subst', r2 + ('\n' * nl), t.pos, t.line))
                log.append((rule, '%s => %s' % (pat, rep), t.line))
                count += 1
                k = last + 1
                continue
        out.append(t)
        k += 1
    return out, count


def relex(toks):
    """re-lex after substitutions so later passes see real tokens; keep line numbers approx."""
    res = []
    for t in toks:
        if t.kind == 'subst':
            for u in lex(t.text):
                res.append(Tok(u.kind, u.text, t.pos, t.line))
        else:
            res.append(t)
    return res


def find_loops(toks, lo, hi):
    """Indices (of the loop keyword tok, of the body '{') of loops in toks[lo:hi], in source order."""
    res = []
    k = lo
    while k < hi:
        t = toks[k]
        if t.kind == 'ident' and t.text in ('while', 'for', 'loop'):
            # `for` in `for<'a>` HRTB or `impl X for Y` cannot occur inside a body in our subset
            j = k + 1
            depth = 0
            ob = None
            while j < hi:
                u = toks[j]
                if u.kind == 'punct':
                    if u.text in '([':
                        depth += 1
                    elif u.text in ')]':
                        depth -= 1
                    elif u.text == '{' and depth == 0:
                        ob = j
                        break
                j += 1
            if ob is not None:
                res.append((k, ob))
        k += 1
    return res


def desugar_range_inclusive(toks, log):
    """R20: `for PAT in A..=B { BODY }`  ->
         { let mut __ri_curN = A; let __ri_endN = B; let mut __ri_doneN = __ri_curN > __ri_endN;
           while !__ri_doneN { let PAT = __ri_curN;
               if __ri_curN == __ri_endN { __ri_doneN = true; } else { __ri_curN = __ri_curN + 1; }
               BODY } }
    which is exactly how core::ops::RangeInclusive iterates (the installed vstd gives `a..=b` no
    iteration spec). N is the ordinal of the loop among all loops of the item, so sidecar loop
    invariants keep their numbering."""
    toks = list(toks)
    k = 0
    ordinal = -1
    out = []
    n = len(toks)
    while k < n:
        t = toks[k]
        if t.kind == 'ident' and t.text in ('while', 'loop'):
            ordinal += 1
        if t.kind == 'ident' and t.text == 'for':
            ordinal += 1
            # find `in`, then `..=` before body '{'
            j = k + 1
            depth = 0
            in_i = None
            op_i = None
            ob = None
            while j < n:
                u = toks[j]
                if u.kind == 'punct':
                    if u.text in '([':
                        depth += 1
                    elif u.text in ')]':
                        depth -= 1
                    elif u.text == '{' and depth == 0:
                        ob = j
                        break
                    elif u.text == '.' and depth == 0 and op_i is None and j + 2 < n \
                            and toks[j + 1].kind == 'punct' and toks[j + 1].text == '.' \
                            and toks[j + 2].kind == 'punct' and toks[j + 2].text == '=':
                        op_i = j
                elif u.kind == 'ident' and u.text == 'in' and depth == 0 and in_i is None:
                    in_i = j
                j += 1
            if ob is not None and in_i is not None and op_i is not None and op_i > in_i:
                pat = text(toks[k + 1:in_i]).strip()
                a = text(toks[in_i + 1:op_i]).strip()
                b = text(toks[op_i + 3:ob]).strip()
                cb = match_close(toks, ob)
                N = ordinal
                head = ('{ let mut __ri_cur%d = %s; let __ri_end%d = %s; let mut __ri_done%d = __ri_cur%d > __ri_end%d;\n'
                        'while !__ri_done%d ' % (N, a, N, b, N, N, N, N))
                inner = (' let %s = __ri_cur%d; if __ri_cur%d == __ri_end%d { __ri_done%d = true; } else { __ri_cur%d = __ri_cur%d + 1; }'
                         % (pat, N, N, N, N, N, N))
                log.append(('R20', 'for %s in %s..=%s desugared to while (loop #%d)' % (pat, a, b, N), t.line))
                out.append(Tok('subst', head, t.pos, t.line))
                out.append(toks[ob])
                out.append(Tok('subst', inner, t.pos, t.line))
                # body tokens (recursively desugar nested loops is not needed: handled by continuing scan)
                toks.insert(cb + 1, Tok('subst', ' }', toks[cb].pos, toks[cb].line))
                n = len(toks)
                k = ob + 1
                continue
            if ob is not None and in_i is not None:
                # R21: name the ghost iterator so a sidecar invariant can refer to it
                log.append(('R21', 'for-loop #%d iterator named __it%d' % (ordinal, ordinal), t.line))
                out.extend(toks[k:in_i + 1])
                out.append(Tok('subst', ' __it%d:' % ordinal, t.pos, t.line))
                k = in_i + 1
                continue
        out.append(t)
        k += 1
    return relex(out)


def split_or_arms(toks, log):
    """R25: a match arm `P1 | P2 | .. [if G] => BODY` becomes the arms `P1 [if G] => BODY, P2 [if G] => BODY, ..`
    (same order, same body text). Verus rejects or-patterns that bind by mutable reference."""
    toks = list(toks)
    changed = True
    while changed:
        changed = False
        n = len(toks)
        for a in range(n - 1):
            if not (_is(toks[a], 'punct', '=') and _is(toks[a + 1], 'punct', '>') and toks[a + 1].pos == toks[a].pos + 1):
                continue
            # pattern start: walk back over balanced groups
            j = _prev_sig(toks, a)
            start = None
            while j is not None and j >= 0:
                t = toks[j]
                if t.kind == 'punct' and t.text in ')]}':
                    # find matching opener
                    d = 0
                    q = j
                    while q >= 0:
                        u = toks[q]
                        if u.kind == 'punct' and u.text in ')]}':
                            d += 1
                        elif u.kind == 'punct' and u.text in '([{':
                            d -= 1
                            if d == 0:
                                break
                        q -= 1
                    if t.text == '}':
                        b = _prev_sig(toks, q)
                        if b is None or not (toks[b].kind == 'ident' and toks[b].text not in ('match', 'else')) \
                                or (toks[b].kind == 'ident' and _is_block_head(toks, b)):
                            start = j + 1
                            break
                    j = _prev_sig(toks, q)
                    continue
                if t.kind == 'punct' and t.text in ',{':
                    start = j + 1
                    break
                j = _prev_sig(toks, j)
            if start is None:
                continue
            pat = toks[start:a]
            # top-level `|` positions and `if` guard
            d = 0
            bars = []
            guard = None
            for idx, t in enumerate(pat):
                if t.kind == 'punct' and t.text in '([{':
                    d += 1
                elif t.kind == 'punct' and t.text in ')]}':
                    d -= 1
                elif d == 0 and t.kind == 'punct' and t.text == '|':
                    bars.append(idx)
                elif d == 0 and t.kind == 'ident' and t.text == 'if' and guard is None:
                    guard = idx
            bars = [b for b in bars if guard is None or b < guard]
            if not bars:
                continue
            gtxt = text(pat[guard:]) if guard is not None else ''
            pend = guard if guard is not None else len(pat)
            alts = []
            prev = 0
            for b in bars + [pend]:
                alts.append(text(pat[prev:b]).strip())
                prev = b + 1
            # body
            s = _next_sig(toks, a + 1)
            e = stmt_end(toks, s)
            if _is(toks[s], 'punct', '{'):
                e = match_close(toks, s)
            body = text(toks[s:e + 1])
            if body.rstrip().endswith(','):
                body = body.rstrip()[:-1]
                had_comma = True
            else:
                had_comma = False
                nx = _next_sig(toks, e)
                if nx is not None and nx < n and _is(toks[nx], 'punct', ','):
                    e = nx
            new = ''.join('\n%s %s=> %s,' % (alt, (gtxt.strip() + ' ') if gtxt else '', body) for alt in alts)
            log.append(('R25', 'or-pattern arm split into %d arms: %s' % (len(alts), ' | '.join(alts)[:80]), toks[start].line if start < n else 0))
            toks = toks[:start] + [Tok('subst', new, toks[a].pos, toks[a].line)] + toks[e + 1:]
            toks = relex(toks)
            changed = True
            break
    return toks


def _is_block_head(toks, b):
    return False


def wrap_arm_bodies(toks, log):
    """R26: a match arm `PAT => EXPR,` whose body is not a block becomes `PAT => { EXPR },` so that proof
    statements can be placed in front of EXPR."""
    toks = list(toks)
    a = 0
    while a < len(toks) - 1:
        if _is(toks[a], 'punct', '=') and _is(toks[a + 1], 'punct', '>') and toks[a + 1].pos == toks[a].pos + 1 \
                and toks[a].kind != 'subst':
            s = _next_sig(toks, a + 1)
            if s is not None and not _is(toks[s], 'punct', '{'):
                # end of the arm expression: `,` at depth 0 or the token before the closing `}` of the match
                d = 0
                e = s
                end = None
                while e < len(toks):
                    t = toks[e]
                    if t.kind == 'punct' and t.text in '([{':
                        d += 1
                    elif t.kind == 'punct' and t.text in ')]}':
                        if d == 0:
                            end = _prev_sig(toks, e)
                            break
                        d -= 1
                    elif t.kind == 'punct' and t.text == ',' and d == 0:
                        end = _prev_sig(toks, e)
                        break
                    e += 1
                if end is not None and end >= s:
                    log.append(('R26', 'match arm body wrapped in a block', toks[s].line))
                    toks = toks[:s] + [Tok('punct', '{', toks[s].pos, toks[s].line), Tok('ws', ' ', toks[s].pos, toks[s].line)] + toks[s:end + 1] \
                        + [Tok('ws', ' ', toks[end].pos, toks[end].line), Tok('punct', '}', toks[end].pos, toks[end].line)] + toks[end + 1:]
                    a = s + 2
                    continue
        a += 1
    return toks


def drop_body_uses(toks, log):
    """R6: `use path;` statements inside a function body are dropped (the unit's stand-ins are all in scope; an import has no run-time meaning)."""
    toks = list(toks)
    k = 0
    depth = 0
    while k < len(toks):
        t = toks[k]
        if t.kind == 'punct' and t.text == '{':
            depth += 1
        elif t.kind == 'punct' and t.text == '}':
            depth -= 1
        elif depth >= 1 and t.kind == 'ident' and t.text == 'use':
            p = _prev_sig(toks, k)
            if p is not None and toks[p].kind == 'punct' and toks[p].text in '{;}':
                e = k
                while e < len(toks) and not (toks[e].kind == 'punct' and toks[e].text == ';'):
                    e += 1
                if e < len(toks):
                    log.append(('R6', 'dropped `%s`' % re.sub(r'\s+', ' ', text(toks[k:e + 1]))[:80], t.line))
                    toks = toks[:k] + toks[e + 1:]
                    continue
        k += 1
    return toks


def desugar_mut_self(toks, fn_name, log):
    """R41: `fn f(mut self, ..) -> T { BODY }` (Verus has no `mut self`) is `fn f(self, ..) -> T { let mut __self = self; BODY' }` where BODY' is BODY with
    every `self` replaced by `__self`: a by-value receiver bound mutably is a local."""
    toks = list(toks)
    f = find_fn(toks, fn_name)
    bo, bc = f['body_open'], f['body_close']
    # the receiver: `( mut self`
    k = f['name']
    while k < bo and not _is(toks[k], 'punct', '('):
        k += 1
    a = _next_sig(toks, k)
    b = _next_sig(toks, a) if a is not None else None
    if a is None or b is None or not (toks[a].kind == 'ident' and toks[a].text == 'mut' and toks[b].kind == 'ident' and toks[b].text == 'self'):
        return toks
    for q in range(bo + 1, bc):
        if toks[q].kind == 'ident' and toks[q].text == 'self':
            toks[q] = Tok('ident', '__self', toks[q].pos, toks[q].line)
    ins = Tok('subst', ' let mut __self = self; ', toks[bo].pos, toks[bo].line)
    toks = toks[:bo + 1] + [ins] + toks[bo + 1:]
    toks = toks[:a] + toks[a + 1:]
    log.append(('R41', '`mut self` receiver written as a mutable local bound to `self`', toks[k].line))
    return relex(toks)


def desugar_ctor_fn_value(toks, log):
    """R18b: an enum constructor used as a function value in `.map(Enum::Variant)` / `.map_err(Enum::Variant)` (Verus does not support constructors as function values)
    is written as the closure it denotes, annotated with what it returns: `.map(|__cN| -> (__oN: Enum) ensures __oN == Enum::Variant(__cN) { Enum::Variant(__cN) })`.
    Applied after the template's own substitutions, to whatever such uses are left (so neither spelling needs an anchor)."""
    toks = list(toks)
    n = 0
    k = 0
    while k < len(toks):
        t = toks[k]
        if t.kind == 'ident' and t.text in ('map', 'map_err'):
            d = _prev_sig(toks, k)
            op = _next_sig(toks, k)
            if d is not None and op is not None and _is(toks[d], 'punct', '.') and _is(toks[op], 'punct', '('):
                cl = match_close(toks, op)
                inner = [u for u in toks[op + 1:cl] if u.kind not in ('ws', 'comment')]
                # Ident (:: Ident)+ , all idents, first and last capitalised
                ok = len(inner) >= 4 and len(inner) % 3 == 1
                if ok:
                    for q, u in enumerate(inner):
                        if q % 3 == 0:
                            ok = ok and u.kind == 'ident'
                        else:
                            ok = ok and u.kind == 'punct' and u.text == ':'
                    ok = ok and inner[0].text[:1].isupper() and inner[-1].text[:1].isupper() and inner[-1].text not in ('Some', 'Ok', 'Err')
                if ok:
                    path = ''.join(u.text for u in inner)
                    ety = ''.join(u.text for u in inner[:-3])
                    new = '(|__c%d| -> (__o%d: %s) ensures __o%d == %s(__c%d) { %s(__c%d) })' % (n, n, ety, n, path, n, path, n)
                    log.append(('R18b', 'constructor %s used as a function value written as the closure it denotes' % path, t.line))
                    toks = toks[:op] + [Tok('subst', new, toks[op].pos, toks[op].line)] + toks[cl + 1:]
                    toks = relex(toks)
                    n += 1
                    k = 0
                    continue
        k += 1
    return toks


def desugar_get_or_insert_with(toks, log):
    """R19c: a statement `PLACE.get_or_insert_with(|| EXPR);` (result unused; this vstd has no specification for it) is written as the definition std gives it:
    `if PLACE.is_none() { PLACE = Some(EXPR); }`. Any other use (the returned reference is used, a closure with parameters) is left alone and stays outside the subset."""
    toks = list(toks)
    k = 0
    while k < len(toks):
        t = toks[k]
        if not (t.kind == 'ident' and t.text == 'get_or_insert_with'):
            k += 1
            continue
        dot = _prev_sig(toks, k)
        op = _next_sig(toks, k)
        if dot is None or op is None or not _is(toks[dot], 'punct', '.') or not _is(toks[op], 'punct', '('):
            k += 1
            continue
        cl = match_close(toks, op)
        semi = _next_sig(toks, cl)
        b1 = _next_sig(toks, op)
        b2 = _next_sig(toks, b1) if b1 is not None else None
        if semi is None or not _is(toks[semi], 'punct', ';') or b1 is None or b2 is None or not (_is(toks[b1], 'punct', '|') and _is(toks[b2], 'punct', '|')):
            k += 1
            continue
        # receiver: back to the start of the statement
        j = dot - 1
        d = 0
        start = None
        while j >= 0:
            u = toks[j]
            if u.kind == 'punct' and u.text in ')]}':
                d += 1
            elif u.kind == 'punct' and u.text in '([{':
                if d == 0:
                    start = j + 1
                    break
                d -= 1
            elif d == 0 and u.kind == 'punct' and u.text == ';':
                start = j + 1
                break
            j -= 1
        if start is None:
            k += 1
            continue
        recv = text(toks[start:dot]).strip()
        if not recv or not re.match(r'^[A-Za-z_][A-Za-z0-9_\.\s]*$', recv):
            k += 1
            continue
        expr = text(toks[b2 + 1:cl]).strip()
        new = ' if %s.is_none() { %s = Some(%s); }' % (recv, recv, expr)
        log.append(('R19c', '`%s.get_or_insert_with(|| ..);` written out as `if ..is_none() { .. = Some(..); }`' % recv, toks[k].line))
        toks = toks[:start] + [Tok('subst', new, toks[start].pos, toks[start].line)] + toks[semi + 1:]
        toks = relex(toks)
        k = 0
    return toks


import threading
_TLS = threading.local()    # units are generated by several threads of one process (check, driver): per-thread state


def str_const_names():
    if not hasattr(_TLS, 'names'):
        _TLS.names = set()
    return _TLS.names


def desugar_str_match(toks, log):
    """R39: `match SCRUT { "a" => {A}, "b" => {B}, _ => {D} }` whose patterns are all string literals (or `_`) becomes
    `if SCRUT == "a" {A} else if SCRUT == "b" {B} else {D}` -- the definition of matching a `&str` against literal patterns, first match wins
    (Verus gives string-literal patterns no meaning). Expects block-bodied single-pattern arms (R25 + R26 have run).
    R39b: a pattern that is the NAME of a string constant the unit extracted (directive strconsts: `pub const NAME: &str = "..."` read from
    the repository) is a constant pattern and means the same equality test."""
    toks = list(toks)
    k = 0
    while k < len(toks):
        if not (toks[k].kind == 'ident' and toks[k].text == 'match'):
            k += 1
            continue
        # scrutinee: up to the `{` at depth 0
        d = 0
        b = k + 1
        while b < len(toks):
            t = toks[b]
            if t.kind == 'punct' and t.text in '([':
                d += 1
            elif t.kind == 'punct' and t.text in ')]':
                d -= 1
            elif t.kind == 'punct' and t.text == '{' and d == 0:
                break
            b += 1
        if b >= len(toks):
            break
        close = match_close(toks, b)
        scrut = text(toks[k + 1:b]).strip()
        arms = []
        i = _next_sig(toks, b)
        ok = True
        while i is not None and i < close:
            pat = toks[i]
            if not ((pat.kind == 'str') or (pat.kind == 'ident' and pat.text in str_const_names()) or (pat.kind in ('ident', 'punct') and pat.text == '_')):
                ok = False
                break
            a1 = _next_sig(toks, i)
            a2 = _next_sig(toks, a1) if a1 is not None else None
            if a1 is None or a2 is None or not (_is(toks[a1], 'punct', '=') and _is(toks[a2], 'punct', '>')):
                ok = False
                break
            bs = _next_sig(toks, a2)
            if bs is None:
                ok = False
                break
            if not _is(toks[bs], 'punct', '{'):
                # an arm whose body is a plain expression (the copies R26 makes of an or-pattern arm): the expression up to the `,` at depth 0, in braces
                d2 = 0
                e = bs
                while e < close:
                    t2 = toks[e]
                    if t2.kind == 'punct' and t2.text in '([{':
                        d2 += 1
                    elif t2.kind == 'punct' and t2.text in ')]}':
                        d2 -= 1
                    elif t2.kind == 'punct' and t2.text == ',' and d2 == 0:
                        break
                    e += 1
                arms.append((pat.text, '{ ' + text(toks[bs:e]).strip() + ' }'))
                i = _next_sig(toks, e) if e < close else None
                continue
            be = match_close(toks, bs)
            arms.append((pat.text, text(toks[bs:be + 1])))
            i = _next_sig(toks, be)
            if i is not None and i < close and _is(toks[i], 'punct', ','):
                i = _next_sig(toks, i)
        if not ok or not arms or not any(p != '_' for p, _ in arms) or arms[-1][0] != '_' or any(p == '_' for p, _ in arms[:-1]):
            k += 1
            continue
        out = ''
        for n_, (p_, body) in enumerate(arms):
            if p_ == '_':
                out += ' else ' + body
            else:
                out += ('if ' if n_ == 0 else ' else if ') + '%s == %s ' % (scrut, p_) + body
        log.append(('R39', 'match on %d string-literal patterns written as the chain of equality tests it denotes' % (len(arms) - 1), toks[k].line))
        toks = toks[:k] + [Tok('subst', '(' + out + ')', toks[k].pos, toks[k].line)] + toks[close + 1:]
        toks = relex(toks)
        k = 0
    return toks


def desugar_qmark(toks, log):
    """R27: `EXPR?` -> `(match EXPR { Ok(__v) => __v, Err(__e) => return Err(__e.err_into()) })`
    which is the definition of `?` on Result with `From::from` spelled `err_into` (the unit lists the
    From impls of the error types as `ErrInto` impls; Verus gives `?` no From specification).
    EXPR is the maximal postfix chain ending at `?` (paths, field accesses, method/function calls, indexing,
    parenthesised heads)."""
    toks = list(toks)
    while True:
        qi = None
        for k, t in enumerate(toks):
            if _is(t, 'punct', '?'):
                # `?Sized` in a bound is not the operator
                nx = k + 1
                while nx < len(toks) and toks[nx].kind in ('ws', 'comment'):
                    nx += 1
                if nx < len(toks) and toks[nx].kind == 'ident' and toks[nx].text == 'Sized':
                    continue
                qi = k
                break
        if qi is None:
            return toks
        j = _prev_sig(toks, qi)
        start = None
        while j is not None and j >= 0:
            t = toks[j]
            if t.kind == 'punct' and t.text in ')]':
                d = 0
                q = j
                while q >= 0:
                    u = toks[q]
                    if u.kind == 'punct' and u.text in ')]}':
                        d += 1
                    elif u.kind == 'punct' and u.text in '([{':
                        d -= 1
                        if d == 0:
                            break
                    q -= 1
                p = _prev_sig(toks, q)
                if p is not None and (toks[p].kind == 'ident' and toks[p].text not in ('return', 'match', 'if', 'in', 'let', 'else', 'while')):
                    j = p
                    continue
                if p is not None and _is(toks[p], 'punct', '>') and t.text == ')':
                    # turbofish  name::<..>( .. )
                    d = 0
                    q2 = p
                    while q2 >= 0:
                        u = toks[q2]
                        if _is(u, 'punct', '>') and not _is(toks[q2 - 1], 'punct', '-'):
                            d += 1
                        elif _is(u, 'punct', '<'):
                            d -= 1
                            if d == 0:
                                break
                        q2 -= 1
                    p2 = _prev_sig(toks, q2)          # second ':' of '::'
                    p3 = _prev_sig(toks, p2)
                    j = _prev_sig(toks, p3)
                    continue
                if p is not None and _is(toks[p], 'punct', '?'):
                    raise LostAnchor('nested `?` operand')
                start = q
                break
            if t.kind in ('ident', 'num', 'str', 'char'):
                p = _prev_sig(toks, j)
                if p is not None and _is(toks[p], 'punct', '.') and not _is(toks[_prev_sig(toks, p)], 'punct', '.'):
                    j = _prev_sig(toks, p)
                    continue
                if p is not None and _is(toks[p], 'punct', ':') and _is(toks[_prev_sig(toks, p)], 'punct', ':'):
                    j = _prev_sig(toks, _prev_sig(toks, p))
                    continue
                start = j
                break
            raise LostAnchor('cannot delimit the operand of `?` at line %d' % toks[qi].line)
        if start is None:
            raise LostAnchor('cannot delimit the operand of `?` at line %d' % toks[qi].line)
        operand = text(toks[start:qi])
        new = '(match %s { Ok(__v) => __v, Err(__e) => return Err(__e.err_into()) })' % operand.strip()
        log.append(('R27', '`?` written out as match + err_into: %s' % re.sub(r'\s+', ' ', operand.strip())[:70], toks[qi].line))
        toks = toks[:start] + [Tok('subst', new, toks[start].pos, toks[start].line)] + toks[qi + 1:]
        # note: do not relex here (a relexed `?` cannot appear: the replacement has none)
        toks = relex(toks)


def desugar_vec_extend(toks, log):
    """R35: `RECV.extend(ARG)` with RECV a place path (`x`, `self.a.b`) -> `vec_extend_s(&mut RECV, ARG)`: this Verus has no
    specification for `Vec::extend`; the prelude helper appends the elements ARG yields (an Option: none or one; a Vec: all, in order).
    A unit without the helper does not compile (undecided), as before."""
    toks = list(toks)
    sig = [i for i, t in enumerate(toks) if t.kind not in ('ws', 'comment')]
    pos = {i: n for n, i in enumerate(sig)}
    edits = []
    for n, i in enumerate(sig):
        t = toks[i]
        if t.kind == 'ident' and t.text == 'extend' and n >= 2 and n + 1 < len(sig) and toks[sig[n - 1]].text == '.' and toks[sig[n + 1]].text == '(':
            # receiver: ident (. ident)* walking backwards
            a = n - 2
            if toks[sig[a]].kind != 'ident':
                continue
            while a - 2 >= 0 and toks[sig[a - 1]].text == '.' and toks[sig[a - 2]].kind == 'ident':
                a -= 2
            if a - 1 >= 0 and toks[sig[a - 1]].text in ('.', ')', ']', '?', '::'):
                continue
            op = sig[n + 1]
            cl = match_close(toks, op)
            edits.append((sig[a], i, op, cl))
    if not edits:
        return toks
    out = []
    k = 0
    for (ra, ei, op, cl) in edits:
        out.extend(toks[k:ra])
        recv = text(toks[ra:ei]).strip()
        recv = recv[:-1].strip() if recv.endswith('.') else recv
        arg = text(toks[op + 1:cl])
        rep = 'vec_extend_s(&mut %s, %s)' % (recv, arg)
        out.extend(Tok(u.kind, u.text, 0, toks[ra].line) for u in lex(rep))
        log.append(('R35', '%s.extend(..) -> vec_extend_s(&mut %s, ..)' % (recv, recv), toks[ra].line))
        k = cl + 1
    out.extend(toks[k:])
    return relex(out)


def desugar_asref_map(toks, log):
    """R19b: `PLACE.as_ref().map(|x| BODY)` -> `(match PLACE.as_ref() { Some(x) => Some(BODY), None => None })` -- what Option::map does, written out (Verus needs
    a contract on every closure and cannot infer one). PLACE is a place expression (`a`, `self.a.b`, `*a`); the closure takes one plain identifier and has an
    expression body without a block. Applied AFTER the template's substitutions, to whatever such chains are left. If the receiver is not an Option the
    result does not type-check and the unit is undecided, as it was before."""
    toks = list(toks)
    sig = [i for i, t in enumerate(toks) if t.kind not in ('ws', 'comment')]
    edits = []
    n = 0
    while n + 9 < len(sig):
        tx = [toks[sig[n + q]].text for q in range(10)]
        # . as_ref ( ) . map ( | x |
        if tx[0] == '.' and tx[1] == 'as_ref' and tx[2] == '(' and tx[3] == ')' and tx[4] == '.' and tx[5] == 'map' and tx[6] == '(' and tx[7] == '|' \
                and toks[sig[n + 8]].kind == 'ident' and tx[9] == '|':
            op = sig[n + 6]
            cl = match_close(toks, op)
            body_first = sig[n + 10] if n + 10 < len(sig) else None
            if body_first is None or toks[body_first].text == '{' or toks[body_first].text == '-':
                n += 1
                continue
            # nothing but the closure inside map( .. )
            # receiver: walk back over a place expression
            a = n - 1
            if a < 0 or toks[sig[a]].kind != 'ident':
                n += 1
                continue
            while a - 2 >= 0 and toks[sig[a - 1]].text == '.' and toks[sig[a - 2]].kind == 'ident':
                a -= 2
            if a - 1 >= 0 and toks[sig[a - 1]].text in ('.', ')', ']', '?', '::'):
                n += 1
                continue
            edits.append((sig[a], sig[n], sig[n + 8], sig[n + 9], cl))
            # skip past this chain
            while n < len(sig) and sig[n] <= cl:
                n += 1
            continue
        n += 1
    if not edits:
        return toks
    out = []
    k = 0
    for (ra, dot, xi, bar2, cl) in edits:
        out.extend(toks[k:ra])
        recv = text(toks[ra:dot]).strip()
        x = toks[xi].text
        body = text(toks[bar2 + 1:cl]).strip()
        rep = '(match %s.as_ref() { Some(%s) => Some(%s), None => None })' % (recv, x, body)
        out.extend(Tok(u.kind, u.text, 0, toks[ra].line) for u in lex(rep))
        log.append(('R19', '%s.as_ref().map(|%s| ..) written out as the match Option::map performs' % (recv, x), toks[ra].line))
        k = cl + 1
    out.extend(toks[k:])
    return relex(out)


def desugar_iter_mut(toks, log):
    """R29: `for PAT in EXPR.iter_mut() { BODY }` ->
         { let mut __imN: usize = 0; while __imN < EXPR.len() { let PAT = &mut EXPR[__imN]; __imN = __imN + 1; BODY } }
    (N = ordinal of the loop among the loops of the item, so `loop N` invariants keep their numbering; the index is advanced
    before BODY so that `continue` and `break` in BODY keep their meaning). Only for a BODY-independent receiver EXPR
    (a place expression such as `self.inner`)."""
    toks = list(toks)
    out = []
    k = 0
    n = len(toks)
    ordinal = -1
    while k < n:
        t = toks[k]
        if t.kind == 'ident' and t.text in ('while', 'loop'):
            ordinal += 1
        if t.kind == 'ident' and t.text == 'for':
            ordinal += 1
            j = k + 1
            depth = 0
            in_i = None
            ob = None
            while j < n:
                u = toks[j]
                if u.kind == 'punct':
                    if u.text in '([':
                        depth += 1
                    elif u.text in ')]':
                        depth -= 1
                    elif u.text == '{' and depth == 0:
                        ob = j
                        break
                elif u.kind == 'ident' and u.text == 'in' and depth == 0 and in_i is None:
                    in_i = j
                j += 1
            if ob is not None and in_i is not None:
                recv = norm(text(toks[in_i + 1:ob]))
                adapter = None
                for ad in ('.iter_mut()', '.values_mut()', '.values()'):
                    if recv.endswith(ad):
                        adapter = ad
                if adapter is not None:
                    raw = text(toks[in_i + 1:ob]).strip()
                    expr = raw[:raw.rindex('.' + adapter[1:-2].split('(')[0])].strip()
                    pat = text(toks[k + 1:in_i]).strip()
                    N = ordinal
                    head = '{ let mut __im%d: usize = 0;\nwhile __im%d < %s.len() ' % (N, N, expr)
                    # R29: a Vec's elements by index; R29b: a map's values in ITS iteration order -- value_mut_at / value_at are the stand-ins for the
                    # N-th step of ValuesMut / Values (unit prelude: the order is fixed, visits every key once)
                    elem = {'.iter_mut()': '&mut %s[__im%d]' % (expr, N), '.values_mut()': '%s.value_mut_at(__im%d)' % (expr, N), '.values()': '%s.value_at(__im%d)' % (expr, N)}[adapter]
                    inner = ' let %s = %s; __im%d = __im%d + 1;' % (pat, elem, N, N)
                    log.append(('R29', 'for %s in %s%s desugared to an index loop (loop #%d)' % (pat, expr, adapter, N), t.line))
                    cb = match_close(toks, ob)
                    out.append(Tok('subst', head, t.pos, t.line))
                    out.append(toks[ob])
                    out.append(Tok('subst', inner, toks[ob].pos, toks[ob].line))
                    # body (may contain nested loops: recurse on it, ordinals continue)
                    out.extend(toks[ob + 1:cb])
                    out.append(toks[cb])
                    out.append(Tok('subst', ' }', toks[cb].pos, toks[cb].line))
                    k = cb + 1
                    continue
        out.append(t)
        k += 1
    return relex(out)
