"""check driver: property -> units -> obligations -> evidence / exit code"""
import hashlib
import json
import os
import re
import subprocess
import sys
import time
from concurrent.futures import ThreadPoolExecutor

from . import gen, verus, extract
from .props import PROPS, UNITS

ROOT = os.path.dirname(os.path.dirname(os.path.abspath(__file__)))
REPO = os.environ.get('REPO', '/repo')
BUILD = os.path.join(ROOT, 'build', 'p%d' % os.getpid()) if os.environ.get('VERIF_PRIVATE_BUILD') else os.path.join(ROOT, 'build')
CACHE = os.path.join(ROOT, 'cache')
LABEL = re.compile(r'\[(C\d\d[A-Za-z0-9_.\-]*)\]')


def sha_text(s):
    return hashlib.sha256(s.encode()).hexdigest()


def verus_version():
    try:
        out = subprocess.run(['verus', '--version'], stdout=subprocess.PIPE, stderr=subprocess.STDOUT, timeout=60).stdout.decode()
        m = re.search(r'Version:\s*(\S+)', out)
        return m.group(1) if m else 'unknown'
    except Exception:
        return 'unknown'


_VV = None


def run_verus_cached(unit, mode, text, rlimit):
    """Verus result for this exact generated text (cache keyed by text hash + verus version)."""
    global _VV
    if _VV is None:
        _VV = verus_version()
    key = sha_text(text + '\0' + _VV + '\0' + str(rlimit))[:32]
    os.makedirs(os.path.join(CACHE, 'verus'), exist_ok=True)
    cpath = os.path.join(CACHE, 'verus', key + '.json')
    if os.path.exists(cpath) and not os.environ.get('VERIF_NO_CACHE'):
        try:
            with open(cpath) as f:
                r = json.load(f)
            r['cached'] = True
            return r
        except ValueError:
            pass
    os.makedirs(BUILD, exist_ok=True)
    path = os.path.join(BUILD, '%s%s.rs' % (unit.lower(), '' if not mode else '_' + mode))
    with open(path, 'w') as f:
        f.write(text)
    r = verus.run(path, rlimit=rlimit)
    st, errs = verus.classify(r)
    res = dict(status=st, errors=errs, breakdown=verus.breakdown(r), wall_s=r['wall_s'], cmd=r['cmd'],
               smt_ms=(((r.get('json') or {}).get('times-ms') or {}).get('smt') or {}).get('smt-run'),
               total_ms=((r.get('json') or {}).get('times-ms') or {}).get('total'),
               verified=((r.get('json') or {}).get('verification-results') or {}).get('verified'),
               stderr_tail=r['stderr'][-1500:] if st == 'undecided' else '', cached=False, version=_VV)
    if st != 'undecided':
        tmp = cpath + '.tmp%d' % os.getpid()
        with open(tmp, 'w') as f:
            json.dump(res, f)
        os.replace(tmp, cpath)
    return res


def clause_groups(g):
    """Map generated line number (1-based) -> clause record for spec/loopspec/proof lines.
    A clause = maximal run of spec lines belonging to one top-level clause (paren-balanced, ends with ',')."""
    origin = g['origin']
    lines = g['text'].split('\n')
    groups = {}
    i = 0
    n = len(origin)
    while i < n:
        o = origin[i]
        if o.get('kind') in ('spec', 'loopspec', 'proof'):
            # collect contiguous block of same kind/fn
            j = i
            while j < n and origin[j].get('kind') == o['kind'] and origin[j].get('fn') == o.get('fn'):
                j += 1
            # split block into clauses by paren depth
            depth = 0
            start = i
            for k in range(i, j):
                ln = re.sub(r'//.*$', '', lines[k])
                ln_s = ln.strip()
                if depth == 0 and ln_s.split(' ')[0] in gen.SPEC_KW and ln_s in gen.SPEC_KW:
                    start = k + 1
                    continue
                for ch in ln:
                    if ch in '([{':
                        depth += 1
                    elif ch in ')]}':
                        depth -= 1
                if depth <= 0 and (ln_s.endswith(',') or k == j - 1 or ln_s.endswith('}') or ln_s.endswith(';')):
                    labs = []
                    for q in range(start, k + 1):
                        labs += LABEL.findall(lines[q])
                    rec = dict(fn=o.get('fn'), kind=o['kind'], labels=labs, first=start + 1, last=k + 1,
                               text=' '.join(x.strip() for x in lines[start:k + 1])[:600])
                    for q in range(start, k + 1):
                        groups[q + 1] = rec
                    start = k + 1
                    depth = 0
            i = j
        else:
            i += 1
    return groups


def fn_of_line(g, ln):
    if 1 <= ln <= len(g['origin']):
        return g['origin'][ln - 1].get('fn')
    return None


class UnitResult:
    pass


def run_unit(unit, tier):
    """Generate + verify + canaries. Returns dict."""
    u = UNITS[unit]
    tmpl = os.path.join(ROOT, 'units', u['template'])
    t0 = time.time()
    out = dict(unit=unit, status='ok', failures=[], functions=[], clauses=[], rewrites=[], undecided_reason=None,
               canary=[], verus=None, lemmas=[], trusted=[])
    try:
        g = gen.generate(REPO, tmpl, None, isolate=True)
    except (extract.LostAnchor, gen.TemplateError, extract.LexError) as e:
        out['status'] = 'undecided'
        out['undecided_reason'] = 'lost-anchor: %s' % e
        return out
    out['trusted'] = g['meta'].get('trusted', [])
    out['skipped_fns'] = g.get('skipped', [])
    rlimit = u.get('rlimit', 30)
    res = run_verus_cached(unit, None, g['text'], rlimit)
    out['verus'] = dict(cmd=res['cmd'], wall_s=res['wall_s'], smt_ms=res['smt_ms'], cached=res['cached'], version=res.get('version'),
                        verified=res.get('verified'))
    if res['status'] == 'undecided' and res.get('errors'):
        # the generated file does not compile. When every compiler error lies inside the extracted BODY of some function(s), those functions are replaced by their contract
        # (assumed, recorded in skipped_fns) and the rest of the unit is checked: a failed obligation of a function that WAS extracted is still a failed obligation.
        # Only a `fail` of that second run is used; otherwise the unit stays undecided as before.
        bad, located = set(), True
        for e in res['errors']:
            f_ = None
            lines_ = [ln for (ln, lab, prim) in e['lines'] if prim] or [ln for (ln, lab, prim) in e['lines']]
            for ln in lines_:
                if ln and 1 <= ln <= len(g['origin']):
                    o = g['origin'][ln - 1]
                    if o.get('kind') == 'src' and o.get('fn') and not str(o['fn']).startswith('macro '):
                        f_ = o['fn']
            if f_:
                bad.add(f_)
            else:
                located = False
        if bad and located and len(bad) < len(g['functions']):
            try:
                g2 = gen.generate(REPO, tmpl, None, isolate=True, stub=bad)
                res2 = run_verus_cached(unit, None, g2['text'], rlimit)
            except (extract.LostAnchor, gen.TemplateError, extract.LexError):
                res2 = None
            if res2 and res2['status'] == 'fail':
                out['stubbed_fns'] = sorted(bad)
                out['stub_reason'] = '; '.join(e['message'][:160] for e in res['errors'][:3])
                g, res = g2, res2
                out['skipped_fns'] = g.get('skipped', [])
                out['verus'] = dict(cmd=res['cmd'], wall_s=res['wall_s'], smt_ms=res['smt_ms'], cached=res['cached'], version=res.get('version'), verified=res.get('verified'))
    groups = clause_groups(g)
    fnames = set()
    labs_by_fn = {}
    for rec in groups.values():
        labs_by_fn.setdefault(rec['fn'], set()).update(rec['labels'])
    # labelled preconditions of template-level stand-ins (e.g. `requires ... // [C08.wait.registered-before-check]`) are obligations of every
    # extracted function that calls the stand-in: the verifier checks the precondition at each call site
    gl = g['text'].split('\n')
    tmpl_pre = []      # (stand-in name, labels, clause text, line)
    cur_fn = None
    for i, ln in enumerate(gl):
        o = g['origin'][i] if i < len(g['origin']) else {}
        if o.get('kind') != 'tmpl':
            continue
        m = re.search(r'\bfn\s+([A-Za-z_][A-Za-z0-9_]*)\s*[<(]', ln)
        if m:
            cur_fn = m.group(1)
        found = LABEL.findall(ln)
        if found and cur_fn and not re.match(r'\s*(pub\s+)?(open\s+|closed\s+)?(spec|proof)\s+fn', ln):
            tmpl_pre.append((cur_fn, found, ln.strip()[:600], i + 1))
    # labelled ensures-clauses of template-level lemmas (`proof fn`: generated distinctness / wire-layout lemmas, hand-written specification lemmas)
    tmpl_lemma_clauses = []
    cur_pf = None
    for i, ln in enumerate(gl):
        o = g['origin'][i] if i < len(g['origin']) else {}
        if o.get('kind') != 'tmpl':
            continue
        m = re.match(r'\s*(pub\s+)?(broadcast\s+)?proof\s+fn\s+([A-Za-z_][A-Za-z0-9_]*)', ln)
        if m:
            cur_pf = m.group(3)
        elif re.search(r'\bfn\s+[A-Za-z_]', ln):
            cur_pf = None
        if cur_pf and LABEL.findall(ln) and not ln.lstrip().startswith('///'):
            tmpl_lemma_clauses.append(dict(fn=cur_pf, labels=LABEL.findall(ln), text=ln.strip()[:300], line=i + 1))
    out['tmpl_lemma_clauses'] = tmpl_lemma_clauses
    callee_clauses = []
    if tmpl_pre:
        by_fn_lines = {}
        for i, o in enumerate(g['origin']):
            if o.get('kind') == 'src' and o.get('fn'):
                by_fn_lines.setdefault(o['fn'], []).append(gl[i] if i < len(gl) else '')
        for fnm, lns in by_fn_lines.items():
            body = '\n'.join(lns)
            for (sname, labs_, text_, line_) in tmpl_pre:
                if re.search(r'\b%s\s*(::<[^>]*>)?\s*\(' % re.escape(sname), body):
                    # the obligation is identified by the call site's callee as well: `label@stand-in`
                    labs_ = ['%s@%s' % (l, sname) for l in labs_]
                    labs_by_fn.setdefault(fnm, set()).update(labs_)
                    callee_clauses.append(dict(fn=fnm, kind='spec', labels=list(labs_), first=line_, last=line_,
                                               text='precondition of %s at its call site(s) in %s: %s' % (sname, fnm, text_)))
    for f in g['functions']:
        fnames.add(f['name'])
        labs = sorted(labs_by_fn.get(f['name'], set()))
        out['functions'].append(dict(name=f['name'], file=f['file'], line=f['line'], body_sha=f['hash'],
                                     rewrites=sorted(set('%s: %s' % (r[0], r[1]) for r in f['log'])), labels=labs,
                                     nclauses=len([1 for (sec, _, _) in f['clauses'] if sec in ('ensures', 'invariant', 'invariant_except_break')])))
    for t in g['types']:
        out['rewrites'] += ['%s %s: %s' % (t['name'], r[0], r[1]) for r in t['log']]
    # clause list: distinct groups of kind spec/loopspec in ensures/invariant position
    seen = set()
    for ln in sorted(groups):
        rec = groups[ln]
        key = (rec['fn'], rec['first'])
        if key in seen:
            continue
        seen.add(key)
        out['clauses'].append(rec)
    out['clauses'] += callee_clauses
    # solver stats per function
    bd = {}
    for b in res.get('breakdown', []):
        bd[b['function'].split('::')[-1]] = b
    out['breakdown'] = res.get('breakdown', [])
    lemma_fns = [b['function'] for b in res.get('breakdown', []) if b.get('mode') == 'proof']
    out['lemmas'] = lemma_fns
    if res['status'] == 'undecided':
        out['status'] = 'undecided'
        msgs = '; '.join(e['message'][:200] for e in res['errors'][:3])
        out['undecided_reason'] = 'verus: %s %s' % (msgs, res.get('stderr_tail', '')[-300:])
        if out.get('skipped_fns'):
            out['undecided_reason'] = 'lost-anchor: %s (left out; the rest of the unit then fails to compile: %s)' % ('; '.join(k['reason'] for k in out['skipped_fns']), msgs[:200])
        return out
    if res['status'] == 'fail':
        out['status'] = 'fail'
        for e in res['errors']:
            if e.get('limit') and not e.get('semantic'):
                # a query of this function ran out of resources: what the solver did not refute there is NOT proved
                for (ln, lab, prim) in e['lines']:
                    f_ = fn_of_line(g, ln) if ln else None
                    if f_ and f_ not in out.setdefault('limited_fns', []):
                        out['limited_fns'].append(f_)
                continue
            # attribute to clause group(s) by span lines; else to function by primary span
            recs = []
            fn = None
            src = None
            for (ln, lab, prim) in e['lines']:
                if ln in groups and groups[ln] not in recs:
                    recs.append(groups[ln])
                if ln and fn is None:
                    fn = fn_of_line(g, ln)
                if ln and 1 <= ln <= len(g['origin']):
                    o = g['origin'][ln - 1]
                    if o.get('kind') == 'src' and src is None:
                        src = '%s:%s' % (o.get('file'), o.get('line'))
            labels = []
            for r in recs:
                labels += r['labels']
                fn = r['fn'] or fn
            # a failed precondition of a template-level stand-in (e.g. the allocation contract) carries its label on its own line
            gl = g['text'].split('\n')
            tmpl_clause = ''
            for (ln, lab, prim) in e['lines']:
                if ln and 1 <= ln <= len(g['origin']) and g['origin'][ln - 1].get('kind') == 'tmpl':
                    found = LABEL.findall(gl[ln - 1])
                    if found:
                        # name of the stand-in whose precondition this is (nearest `fn` above in the template text)
                        sname = None
                        for q in range(ln, max(ln - 40, 0), -1):
                            mm = re.search(r'\bfn\s+([A-Za-z_][A-Za-z0-9_]*)\s*[<(]', gl[q - 1]) if q >= 1 else None
                            if mm:
                                sname = mm.group(1)
                                break
                        labels += ['%s@%s' % (l, sname) if sname else l for l in found]
                        tmpl_clause = gl[ln - 1].strip()[:600]
                        f2 = None
                        for (ln2, _l, _p) in e['lines']:
                            if ln2 and 1 <= ln2 <= len(g['origin']) and g['origin'][ln2 - 1].get('kind') == 'src':
                                f2 = g['origin'][ln2 - 1].get('fn')
                        fn = f2 or fn
            out['failures'].append(dict(function=fn, message=e['message'], labels=sorted(set(labels)),
                                        clause=(recs[0]['text'] if recs else tmpl_clause), src=src,
                                        rendered=e.get('rendered', '')[:3000]))
    # vacuity canaries (only when the main run was decided)
    maxloops = max([f['nloops'] for f in g['functions']] + [0])
    modes = ['canary%d' % k for k in range(0, maxloops + 1)]

    def canary(mode):
        try:
            gc = gen.generate(REPO, tmpl, mode, isolate=True)
        except Exception as e:  # noqa
            return dict(mode=mode, ok=False, reason='gen: %s' % e)
        expect = [f['name'] for f in gc['functions'] if f['has_canary']]
        if not expect:
            return dict(mode=mode, ok=True, expected=0, hit=0)
        rc = run_verus_cached(unit, mode, gc['text'], rlimit)
        if rc['status'] == 'undecided':
            return dict(mode=mode, ok=False, reason='verus undecided on canary file')
        lines = gc['text'].split('\n')
        hit = set()
        for e in rc['errors']:
            for (ln, lab, prim) in e['lines']:
                if ln and 1 <= ln <= len(lines) and 'CANARY' in lines[ln - 1]:
                    hit.add(gc['origin'][ln - 1].get('fn'))
        missing = [f for f in expect if f not in hit]
        return dict(mode=mode, ok=not missing, expected=len(expect), hit=len(hit), missing=missing)

    with ThreadPoolExecutor(max_workers=4) as ex:
        out['canary'] = list(ex.map(canary, modes))
    bad = [c for c in out['canary'] if not c['ok']]
    if bad:
        out['canary_bad'] = 'VACUOUS or canary failure: %s' % json.dumps(bad)[:500]
    out['wall_s'] = time.time() - t0
    return out


def load_known():
    fixed, findings = [], []
    p = os.path.join(ROOT, 'known_findings.txt')
    if os.path.exists(p):
        for ln in open(p):
            ln = ln.strip()
            if ln.startswith('finding:'):
                m = re.match(r'finding:\s*property=(\S+)\s+key=(\S+)\s*(.*)', ln)
                if m:
                    findings.append(dict(property=m.group(1), key=m.group(2), what=m.group(3)))
            elif ln.startswith('fixed:'):
                fixed.append(ln)
    return fixed, findings
