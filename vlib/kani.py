"""Kani harness runner (real crates, path dependency on REPO)."""
import hashlib
import json
import os
import re
import subprocess
import time
from concurrent.futures import ThreadPoolExecutor

ROOT = os.path.dirname(os.path.dirname(os.path.abspath(__file__)))
REPO = os.environ.get('REPO', '/repo')
CACHE = os.path.join(ROOT, 'cache')

CRATE_DEPS = {
    'codec': ['serde_amqp/src', 'serde_amqp/Cargo.toml'],
    'types': ['serde_amqp/src', 'serde_amqp_derive/src', 'fe2o3-amqp-types/src', 'serde_amqp/Cargo.toml', 'fe2o3-amqp-types/Cargo.toml'],
    'amqp': ['serde_amqp/src', 'serde_amqp_derive/src', 'fe2o3-amqp-types/src', 'fe2o3-amqp/src', 'fe2o3-amqp/Cargo.toml'],
}


def tree_hash(paths):
    h = hashlib.sha256()
    for rel in paths:
        p = os.path.join(REPO, rel)
        if os.path.isfile(p):
            h.update(rel.encode())
            h.update(open(p, 'rb').read())
            continue
        for dp, dn, fn in sorted(os.walk(p)):
            dn.sort()
            for f in sorted(fn):
                if f.endswith('.rs') or f.endswith('.toml'):
                    fp = os.path.join(dp, f)
                    h.update(os.path.relpath(fp, REPO).encode())
                    h.update(open(fp, 'rb').read())
    return h.hexdigest()


def crate_hash(crate):
    h = hashlib.sha256()
    d = os.path.join(ROOT, 'kani', crate)
    for dp, dn, fn in sorted(os.walk(os.path.join(d, 'src'))):
        for f in sorted(fn):
            h.update(f.encode())
            h.update(open(os.path.join(dp, f), 'rb').read())
    h.update(open(os.path.join(d, 'Cargo.toml.tmpl'), 'rb').read())
    sh = os.path.join(ROOT, 'kani', 'shared')
    for f in sorted(os.listdir(sh)):
        h.update(f.encode())
        h.update(open(os.path.join(sh, f), 'rb').read())
    return h.hexdigest()


def workbase():
    """private copy of /verif/kani and /verif/replay per REPO, so that checks running concurrently against different trees
    (different REPO) never share a Cargo.toml"""
    base = os.path.join(CACHE, 'kani-src-%s' % hashlib.sha256(REPO.encode()).hexdigest()[:8])
    os.makedirs(base, exist_ok=True)
    for sub in ('kani', 'replay', 'falsify'):
        subprocess.run(['rsync', '-a', '--delete', '--exclude', 'Cargo.toml', '--exclude', 'Cargo.lock', '--exclude', '.cargo',
                        os.path.join(ROOT, sub) + '/', os.path.join(base, sub) + '/'], check=False)
    return base


def prepare(crate):
    d = os.path.join(workbase(), 'kani', crate)
    tmpl = open(os.path.join(d, 'Cargo.toml.tmpl')).read().replace('@REPO@', REPO)
    cur = None
    if os.path.exists(os.path.join(d, 'Cargo.toml')):
        cur = open(os.path.join(d, 'Cargo.toml')).read()
    if cur != tmpl:
        open(os.path.join(d, 'Cargo.toml'), 'w').write(tmpl)
    lock = os.path.join(REPO, 'Cargo.lock')
    if os.path.exists(lock) and not os.path.exists(os.path.join(d, 'Cargo.lock')):
        open(os.path.join(d, 'Cargo.lock'), 'wb').write(open(lock, 'rb').read())
    os.makedirs(os.path.join(d, '.cargo'), exist_ok=True)
    open(os.path.join(d, '.cargo', 'config.toml'), 'w').write('[net]\noffline = true\n')
    return d


def run_one(h, keys):
    crate = h['crate']
    key = hashlib.sha256((keys[crate] + '\0' + h['harness'] + '\0' + str(h.get('unwind', ''))).encode()).hexdigest()[:32]
    os.makedirs(os.path.join(CACHE, 'kani'), exist_ok=True)
    cpath = os.path.join(CACHE, 'kani', key + '.json')
    base = dict(harness=h['harness'], target=h['target'], claim=h['claim'], complete=h.get('complete', False), bound=h.get('bound', ''),
                trusted=h.get('trusted', []), src='kani/%s/src (harness %s)' % (crate, h['harness']))
    if os.path.exists(cpath) and not os.environ.get('VERIF_NO_CACHE'):
        try:
            r = json.load(open(cpath))
            r.update(base)
            r['cached'] = True
            return r
        except ValueError:
            pass
    d = os.path.join(CACHE, 'kani-src-%s' % hashlib.sha256(REPO.encode()).hexdigest()[:8], 'kani', crate)
    tgt = os.path.join(CACHE, 'kani-target-%s-%s' % (crate, hashlib.sha256(REPO.encode()).hexdigest()[:8]))
    # address-space cap (KB): a CBMC blow-up (64 GB seen once on a harness that normally needs 1 GB) ends as 'undecided' instead of taking the machine down
    cmd = 'cd %s && ulimit -v %d && CARGO_NET_OFFLINE=true CARGO_TARGET_DIR=%s timeout %d cargo kani -Z function-contracts -Z stubbing --harness %s' % (
        d, int(os.environ.get('VERIF_KANI_MEM_KB', 25165824)), tgt, h.get('timeout', 900), h['harness'])
    if h.get('extra'):
        cmd += ' ' + h['extra']
    t0 = time.time()
    p = subprocess.run(cmd, shell=True, stdout=subprocess.PIPE, stderr=subprocess.STDOUT)
    out = p.stdout.decode('utf-8', 'replace')
    wall = time.time() - t0
    m = re.search(r'Verification Time: ([0-9.]+)s', out)
    solver_s = float(m.group(1)) if m else 0.0
    res = dict(cmd=cmd, wall_s=wall, solver_s=solver_s, cached=False)
    fails = re.findall(r'Check \d+: ([^\n]*)\n\s+- Status: FAILURE\n\s+- Description: "([^"]*)"\n\s+- Location: ([^\n]*)', out)
    if p.returncode == 124:
        res.update(status='undecided', message='timeout after %ds' % h.get('timeout', 900))
    elif 'VERIFICATION:- SUCCESSFUL' in out:
        mm = re.search(r'\*\* (\d+) of (\d+) failed', out)
        res.update(status='discharged', message='', checks=int(mm.group(2)) if mm else None)
    elif 'VERIFICATION:- FAILED' in out:
        unwind = [f for f in fails if 'unwinding assertion' in f[1]]
        real = [f for f in fails if 'unwinding assertion' not in f[1]]
        if real:
            res.update(status='failed', message='; '.join('%s @ %s' % (f[1], f[2].strip()) for f in real[:4]), output=out[-6000:])
        elif unwind:
            res.update(status='undecided', message='unwinding assertion failed (bound too small): ' + unwind[0][2].strip())
        else:
            res.update(status='undecided', message='kani reported failure without a failing property check', output=out[-3000:])
    else:
        res.update(status='undecided', message='kani did not finish: rc=%s %s' % (p.returncode, out[-600:].replace('\n', ' ')))
    if res['status'] == 'failed':
        # ask kani for concrete values
        p2 = subprocess.run(cmd + ' -Z concrete-playback --concrete-playback=print', shell=True, stdout=subprocess.PIPE, stderr=subprocess.STDOUT)
        o2 = p2.stdout.decode('utf-8', 'replace')
        k = o2.find('Concrete playback unit test')
        if k >= 0:
            res['counterexample'] = o2[k:k + 3000]
    if res['status'] == 'failed' and res.get('counterexample') and crate == 'codec':
        res['replay'] = replay(h['harness'], res['counterexample'])
    if res['status'] != 'undecided':
        tmp = cpath + '.tmp%d' % os.getpid()
        json.dump(res, open(tmp, 'w'))
        os.replace(tmp, cpath)
    res.update(base)
    return res


def parse_playback(txt):
    """concrete playback block -> flat list of bytes (little-endian bytes of each kani::any(), in call order)"""
    data = []
    k = txt.find('let concrete_vals')
    if k < 0:
        return None
    body = txt[k:]
    e = body.find('];')
    body = body[:e if e > 0 else len(body)]
    for m in re.finditer(r'vec!\[([0-9,\s]*)\]', body[body.find('vec![') + 5:]):
        for x in m.group(1).split(','):
            x = x.strip()
            if x:
                data.append(int(x))
    return data


def replay(harness, counterexample):
    """re-execute the harness body with the counterexample's concrete values on the real crate (no Kani involved)"""
    data = parse_playback(counterexample)
    if data is None:
        return dict(ran=False, reason='could not parse the concrete playback values')
    d = os.path.join(CACHE, 'kani-src-%s' % hashlib.sha256(REPO.encode()).hexdigest()[:8], 'replay')
    tmpl = open(os.path.join(d, 'Cargo.toml.tmpl')).read().replace('@REPO@', REPO)
    if not os.path.exists(os.path.join(d, 'Cargo.toml')) or open(os.path.join(d, 'Cargo.toml')).read() != tmpl:
        open(os.path.join(d, 'Cargo.toml'), 'w').write(tmpl)
    lock = os.path.join(REPO, 'Cargo.lock')
    if os.path.exists(lock) and not os.path.exists(os.path.join(d, 'Cargo.lock')):
        open(os.path.join(d, 'Cargo.lock'), 'wb').write(open(lock, 'rb').read())
    tgt = os.path.join(CACHE, 'replay-target-%s' % hashlib.sha256(REPO.encode()).hexdigest()[:8])
    b = subprocess.run('cd %s && CARGO_NET_OFFLINE=true CARGO_TARGET_DIR=%s cargo build --offline 2>&1 | tail -5' % (d, tgt), shell=True,
                       stdout=subprocess.PIPE, stderr=subprocess.STDOUT)
    exe = os.path.join(tgt, 'debug', 'verif-replay')
    if not os.path.exists(exe):
        return dict(ran=False, reason='replay build failed: ' + b.stdout.decode('utf-8', 'replace')[-400:])
    hexs = ''.join('%02x' % x for x in data)
    p = subprocess.run([exe, harness, hexs], stdout=subprocess.PIPE, stderr=subprocess.STDOUT)
    out = p.stdout.decode('utf-8', 'replace').strip()
    return dict(ran=True, cmd='%s %s %s' % (exe, harness, hexs), input_hex=hexs, outcome=out, fails_on_real_code=(p.returncode == 1))


FALSIFY_FAMILIES = [
    ('C07.flow', ('C07.flow.', 'C07.inflow.')),
    ('C07.send', ('C07.inner.', 'C07.send.', 'C07.drain.', 'C07.cur.', 'C07.buffer.', 'C07.window.', 'C11.delivery-id.', 'C01.session.')),
    ('C08.flow', ('C08.flow.', 'C08.drain.')),
    ('C09.enforce', ('C09.enforce.',)),
]


def falsify_family(label):
    for fam, pre in FALSIFY_FAMILIES:
        if any(label.startswith(x) for x in pre):
            return fam
    return None


def falsify(family, seed):
    """search a concrete input on which the real function disagrees with the executable twin of the contract"""
    base = workbase()
    d = os.path.join(base, 'falsify')
    tmpl = open(os.path.join(d, 'Cargo.toml.tmpl')).read().replace('@REPO@', REPO)
    if not os.path.exists(os.path.join(d, 'Cargo.toml')) or open(os.path.join(d, 'Cargo.toml')).read() != tmpl:
        open(os.path.join(d, 'Cargo.toml'), 'w').write(tmpl)
    lock = os.path.join(REPO, 'Cargo.lock')
    if os.path.exists(lock) and not os.path.exists(os.path.join(d, 'Cargo.lock')):
        open(os.path.join(d, 'Cargo.lock'), 'wb').write(open(lock, 'rb').read())
    tgt = os.path.join(CACHE, 'falsify-target-%s' % hashlib.sha256(REPO.encode()).hexdigest()[:8])
    b = subprocess.run('cd %s && CARGO_NET_OFFLINE=true CARGO_TARGET_DIR=%s timeout 1200 cargo build --offline 2>&1 | tail -8' % (d, tgt), shell=True,
                       stdout=subprocess.PIPE, stderr=subprocess.STDOUT)
    exe = os.path.join(tgt, 'debug', 'verif-falsify')
    if b.returncode != 0 or not os.path.exists(exe) or 'error' in b.stdout.decode('utf-8', 'replace'):
        return dict(ran=False, reason='falsifier build failed: ' + b.stdout.decode('utf-8', 'replace')[-500:])
    try:
        p = subprocess.run([exe, family, str(seed)], stdout=subprocess.PIPE, stderr=subprocess.STDOUT, timeout=600)
    except subprocess.TimeoutExpired:
        return dict(ran=False, reason='falsifier timeout')
    out = p.stdout.decode('utf-8', 'replace').strip()
    return dict(ran=True, cmd='%s %s %d' % (exe, family, seed), outcome=out[-1500:], falsified=(p.returncode == 1))


def run_harnesses(hs, tier):
    hs = [h for h in hs if tier == 'thorough' or h.get('tier', 'quick') == 'quick']
    crates = sorted(set(h['crate'] for h in hs))
    keys = {}
    for c in crates:
        prepare(c)
        keys[c] = tree_hash(CRATE_DEPS[c]) + crate_hash(c)
    # first harness of each crate alone (builds the dependency graph), then the rest in parallel
    results = []
    rest = []
    firsts = {}
    for h in hs:
        if h['crate'] not in firsts:
            firsts[h['crate']] = h
        else:
            rest.append(h)
    for c, h in firsts.items():
        results.append(run_one(h, keys))
    # crate `codec` (serde_amqp only) tolerates parallel cargo-kani runs in one target dir; crate `amqp` does not
    # (concurrent runs race in the dependency build), so its harnesses run one after the other
    par = [h for h in rest if h['crate'] == 'codec']  # crates other than codec are heavier and share dependency builds: sequential
    seq = [h for h in rest if h['crate'] != 'codec']
    with ThreadPoolExecutor(max_workers=int(os.environ.get('VERIF_KANI_JOBS', '6'))) as ex:
        fut = ex.submit(lambda: [run_one(h, keys) for h in seq])
        results += list(ex.map(lambda h: run_one(h, keys), par))
        results += fut.result()
    return results


def build_replay():
    """(exe path or None, build log tail)"""
    base = workbase()
    d = os.path.join(base, 'replay')
    tmpl = open(os.path.join(d, 'Cargo.toml.tmpl')).read().replace('@REPO@', REPO)
    if not os.path.exists(os.path.join(d, 'Cargo.toml')) or open(os.path.join(d, 'Cargo.toml')).read() != tmpl:
        open(os.path.join(d, 'Cargo.toml'), 'w').write(tmpl)
    lock = os.path.join(REPO, 'Cargo.lock')
    if os.path.exists(lock) and not os.path.exists(os.path.join(d, 'Cargo.lock')):
        open(os.path.join(d, 'Cargo.lock'), 'wb').write(open(lock, 'rb').read())
    tgt = os.path.join(CACHE, 'replay-target-%s' % hashlib.sha256(REPO.encode()).hexdigest()[:8])
    b = subprocess.run('cd %s && CARGO_NET_OFFLINE=true CARGO_TARGET_DIR=%s timeout 1200 cargo build --offline 2>&1 | tail -8' % (d, tgt), shell=True,
                       stdout=subprocess.PIPE, stderr=subprocess.STDOUT)
    exe = os.path.join(tgt, 'debug', 'verif-replay')
    return (exe if os.path.exists(exe) else None), b.stdout.decode('utf-8', 'replace')[-600:]


def probe(p):
    """bounded dynamic probe of the real crate (a stated-bound stand-in, never counted as proved): runs `verif-replay probe <args>`
    in a child process with an 8 MiB stack; a crash (signal) or exit status 1 is a failure WITH a concrete input."""
    t0 = time.time()
    if p.get('kind') == 'agreement':
        # exhaustive bounded agreement run of a real function (through the verif-hooks facade) with the oracle of its assumed contract
        fr = falsify(p['args'][0], 0)
        rec = dict(harness=p['name'], target=p['target'], claim=p['claim'], bound=p['bound'], complete=False, trusted=[], solver_s=0.0,
                   cmd=fr.get('cmd', 'verif-falsify %s 0' % p['args'][0]), output=fr.get('outcome', ''))
        if not fr.get('ran'):
            rec.update(status='undecided', message='agreement run did not run: %s' % str(fr.get('reason', fr))[:300])
        elif fr.get('falsified'):
            rec.update(status='failed', message=fr['outcome'][:400], counterexample=fr['outcome'],
                       replay=dict(fails_on_real_code=True, input_hex=fr['outcome'][:400], cmd=fr['cmd'], outcome=fr['outcome'][:400]))
        else:
            rec.update(status='discharged', message='')
        return rec
    exe, log = build_replay()
    rec = dict(harness=p['name'], target=p['target'], claim=p['claim'], bound=p['bound'], complete=False, trusted=[], solver_s=0.0,
               cmd='(ulimit -s 8192; verif-replay probe %s)' % ' '.join(p['args']))
    if exe is None:
        rec.update(status='undecided', message='replay/probe build failed: ' + log)
        return rec
    try:
        r = subprocess.run('ulimit -s 8192; RUST_BACKTRACE=0 exec %s probe %s' % (exe, ' '.join(p['args'])), shell=True, stdout=subprocess.PIPE, stderr=subprocess.STDOUT,
                           timeout=p.get('timeout', 600))
    except subprocess.TimeoutExpired:
        rec.update(status='undecided', message='probe timed out')
        return rec
    out = r.stdout.decode('utf-8', 'replace')[-1500:]
    rec['output'] = out
    rec['wall_s'] = time.time() - t0
    if r.returncode == 0:
        rec.update(status='discharged', message='')
    elif r.returncode == 1 or r.returncode < 0 or r.returncode >= 128 or (r.returncode == 101 and re.search(r'panicked at (?!.*replay/src/main\.rs)', r.stdout.decode('utf-8', 'replace'))):
        # exit status 101: a Rust panic that is not one of the probe's own -- the decoder panicked on the probe's input
        why = ('the code under test PANICKED: ' + (re.search(r'panicked at [^\n]*\n[^\n]*', r.stdout.decode('utf-8', 'replace')) or re.search(r'panicked', 'panicked')).group(0).replace('\n', ' ')[:200]) if r.returncode == 101 else ('process killed by signal %d' % (-r.returncode if r.returncode < 0 else r.returncode - 128) if r.returncode != 1 else 'probe reported failure')
        rec.update(status='failed', message='%s: %s' % (why, out.strip().split('\n')[-1][:300]),
                   counterexample='probe %s' % ' '.join(p['args']),
                   replay=dict(fails_on_real_code=True, input_hex='(generated by the probe: %s)' % ' '.join(p['args']), cmd=rec['cmd'], outcome=out.strip()[-400:]))
    else:
        rec.update(status='undecided', message='probe exit status %d: %s' % (r.returncode, out[-300:]))
    return rec
