"""Run Verus on a generated unit and interpret the result."""
import json
import os
import re
import subprocess
import time

VERUS = os.environ.get('VERUS', 'verus')

SEMANTIC = (
    'postcondition not satisfied',
    'precondition not satisfied',
    'precondition not met',
    'invariant not satisfied',
    'possible arithmetic underflow/overflow',
    'assertion failed',
    'possible division by zero',
    'possible truncation',
    'unreachable',
    'decreases not satisfied',
    'possible bit shift underflow/overflow',
    'recommendation not met',
    'index in bounds',
    'loop invariant not satisfied',
    'could not prove termination',
    'failed precondition',
    'unable to prove post-condition of closure',
    'post-condition of closure',
    # a function that was not recursive (the unchanged tree verifies without a measure) now calls itself: the termination obligation,
    # trivially discharged before, fails
    'recursive function must have a decreases clause',
)


def run(path, rlimit=30, multiple_errors=8, timeout=900, extra=()):
    """returns dict(rc, json, diags, wall_s, stderr)"""
    cmd = [VERUS, path, '--output-json', '--time', '--error-format=json', '--rlimit', str(rlimit),
           '--multiple-errors', str(multiple_errors), '--triggers-mode', 'silent', '--no-report-long-running'] + list(extra)
    t0 = time.time()
    try:
        p = subprocess.run(cmd, stdout=subprocess.PIPE, stderr=subprocess.PIPE, timeout=timeout,
                           cwd=os.path.dirname(path) or '.')
    except subprocess.TimeoutExpired:
        return dict(rc=None, json=None, diags=[], wall_s=time.time() - t0, stderr='timeout', cmd=' '.join(cmd), timeout=True)
    wall = time.time() - t0
    out = p.stdout.decode('utf-8', 'replace')
    err = p.stderr.decode('utf-8', 'replace')
    j = None
    # stdout holds the JSON object (possibly preceded by other text)
    k = out.find('{')
    if k >= 0:
        try:
            j = json.loads(out[k:])
        except ValueError:
            j = None
    diags = []
    for ln in err.split('\n'):
        ln = ln.strip()
        if ln.startswith('{') and '"$message_type"' in ln:
            try:
                d = json.loads(ln)
            except ValueError:
                continue
            if d.get('$message_type') == 'diagnostic':
                diags.append(d)
    return dict(rc=p.returncode, json=j, diags=diags, wall_s=wall, stderr=err, cmd=' '.join(cmd), timeout=False)


def classify(res):
    """-> (status, errors)
    status: 'ok' | 'fail' (semantic failures only) | 'undecided' (tool limit / unsupported / compile error)
    errors: list of dict(message, lines=[(line, label)], semantic=bool)"""
    if res.get('timeout'):
        return 'undecided', [dict(message='verus timeout', lines=[], semantic=False)]
    errs = []
    for d in res['diags']:
        if d.get('level') != 'error':
            continue
        msg = d.get('message', '')
        if msg.startswith('aborting due to'):
            continue
        lines = []
        for sp in d.get('spans', []):
            lines.append((sp.get('line_start'), sp.get('label') or '', sp.get('is_primary', False)))
        for ch in d.get('children', []):
            for sp in ch.get('spans', []):
                lines.append((sp.get('line_start'), ch.get('message') or sp.get('label') or '', False))
        low = msg.lower()
        semantic = any(s in low for s in SEMANTIC)
        if 'resource limit' in low or 'rlimit' in low or 'timed out' in low:
            semantic = False
        errs.append(dict(message=msg, lines=lines, semantic=semantic, rendered=d.get('rendered', ''),
                         limit=('resource limit' in low or 'rlimit' in low or 'timed out' in low)))
    j = res['json']
    if j is None:
        return 'undecided', errs or [dict(message='no json output: ' + res['stderr'][-2000:], lines=[], semantic=False)]
    vr = j.get('verification-results', {})
    if vr.get('encountered-vir-error'):
        if errs and all(e['semantic'] and 'decreases clause' in e['message'].lower() for e in errs):
            return 'fail', errs
        return 'undecided', errs
    if vr.get('success') and not errs:
        return 'ok', []
    if errs and all(e['semantic'] for e in errs):
        return 'fail', errs
    # obligations refuted by the solver (a model was found) next to queries that merely ran out of resources: the refuted ones stand,
    # the resource-limited ones add nothing (reported by the caller as part of the output, not as failures)
    if any(e['semantic'] for e in errs) and all(e['semantic'] or e.get('limit') for e in errs):
        # the resource-limited entries are kept (flagged `limit`): the caller reports every obligation of THAT function that was not refuted as undecided
        return 'fail', errs
    if not errs:
        return 'undecided', [dict(message='verus reported failure without diagnostics: ' + res['stderr'][-2000:], lines=[], semantic=False)]
    return 'undecided', errs


def breakdown(res):
    """per-function solver stats: list of dict(function, mode, time_ms, rlimit, success)"""
    out = []
    j = res.get('json') or {}
    try:
        for m in j['times-ms']['smt']['smt-run-module-times']:
            for f in m.get('function-breakdown', []):
                out.append(dict(function=f['function'], mode=f.get('mode:'), time_us=f.get('time-micros'),
                                rlimit=f.get('rlimit'), success=f.get('success')))
    except (KeyError, TypeError):
        pass
    return out
