#!/usr/bin/env python3
"""R36: records, in every unit template, the shape (loop kinds in order; first two tokens of every statement a `stmt K` hint is attached to) that the positional
proof hints of a function block were written against, as a `//@@ shape ...` line right after the `//@@ fn` line. Run on the unchanged tree after writing or
changing positional directives; the generator then refuses (lost anchor, exit 2) to place them on a function whose shape differs.
usage: tools/shapefill.py [unit-template ...]   (default: all)"""
import sys, os, re, glob
ROOT = os.path.dirname(os.path.dirname(os.path.abspath(__file__)))
sys.path.insert(0, ROOT)
from vlib import gen
repo = os.environ.get('REPO', '/repo')
paths = sys.argv[1:] or sorted(glob.glob(os.path.join(ROOT, 'units', '*.rs')))
for path in paths:
    txt = open(path, encoding='utf-8').read()
    if '//@@ unit' not in txt:
        continue
    try:
        g = gen.generate(repo, path, None)
    except Exception as e:
        print('SKIP', path, e); continue
    lines = txt.split('\n')
    changed = 0
    # functions come with the template line of their `//@@ fn` directive; included templates are handled when processed themselves
    ins = {}
    for f in g['functions']:
        sh = f.get('shape')
        tl = f.get('tline')
        if not sh or not tl:
            continue
        if tl - 1 >= len(lines) or not lines[tl - 1].startswith('//@@ fn') or ('name=%s' % f['name'] not in lines[tl - 1] and 'as=%s' % f['name'] not in lines[tl - 1] and 'id=%s' % f['name'] not in lines[tl - 1]):
            continue   # a block of an included file
        ins[tl] = sh
    out = []
    i = 0
    while i < len(lines):
        out.append(lines[i])
        if (i + 1) in ins:
            # drop an existing shape line of this block
            j = i + 1
            want = '//@@ shape ' + ins[i + 1]
            k = j
            existing = None
            while k < len(lines) and lines[k].startswith('//@@') and not lines[k].startswith('//@@ spec') and not lines[k].startswith('//@@ fn') and not lines[k].startswith('//@@ end'):
                if lines[k].startswith('//@@ shape '):
                    existing = k
                k += 1
            if existing is None:
                out.append(want); changed += 1
            elif lines[existing] != want:
                lines[existing] = want; changed += 1
        i += 1
    if changed:
        open(path, 'w', encoding='utf-8').write('\n'.join(out))
        print('%s: %d shape lines' % (os.path.basename(path), changed))
