#!/usr/bin/env python3
"""tools/coverage.py: for every source file named in a property's anchors, list the functions under contract (from the
unit templates' `//@@ fn file=... name=...` blocks) and the functions of that file that are not. Dev aid only."""
import json, os, re, sys, glob
ROOT = os.path.dirname(os.path.dirname(os.path.abspath(__file__)))
REPO = os.environ.get('REPO', '/repo')
covered = {}
for t in glob.glob(os.path.join(ROOT, 'units', '*.rs')):
    for m in re.finditer(r'//@@ fn file=(\S+).*?name=(\S+)', open(t).read()):
        covered.setdefault(m.group(1), set()).add(m.group(2))
files = {}
for l in open(os.path.join(ROOT, 'properties.jsonl')):
    d = json.loads(l)
    for f in d['anchors'].get('files', []):
        files.setdefault(f, []).append(d['id'])
rows = []
for f, props in sorted(files.items()):
    p = os.path.join(REPO, f)
    paths = [p] if os.path.isfile(p) else sorted(glob.glob(os.path.join(p, '**', '*.rs'), recursive=True))
    for q in paths:
        rel = os.path.relpath(q, REPO)
        src = open(q).read()
        cut = src.find('#[cfg(test)]\nmod tests')
        if cut > 0:
            src = src[:cut]
        fns = re.findall(r'\bfn\s+([a-zA-Z_][a-zA-Z0-9_]*)', src)
        cov = covered.get(rel, set())
        unc = [x for x in dict.fromkeys(fns) if x not in cov]
        rows.append((rel, ','.join(props), len(set(fns) & cov), len(set(fns)), unc))
for rel, props, c, n, unc in rows:
    if '-v' in sys.argv or n - c > 0:
        print('%-55s %-22s %2d/%2d  %s' % (rel, props, c, n, ' '.join(unc[:14]) + (' ...' if len(unc) > 14 else '')))
